# -*- coding: utf-8 -*-
"""demo2: status / Accept negotiation / Content-Type agreement of clastic error
responses, end to end through Application.dispatch with the default
ErrorHandler, a broken handler (falls back to default_render_error) and the
constructor's ``mimetype`` argument.

Prints PASS and exits 0 when the C09 property holds.
"""
import sys
import json
import html
import xml.etree.ElementTree as ET
from html.parser import HTMLParser

from werkzeug.http import parse_accept_header
from werkzeug.datastructures import MIMEAccept
from werkzeug.test import EnvironBuilder
from werkzeug.wrappers import Request

from clastic import Application, Route, render_basic
from clastic import errors
from clastic.errors import ErrorHandler, HTTPException, MIME_SUPPORT_MAP
from clastic.application import default_render_error

CHECKS = 0


def check(cond, msg):
    global CHECKS
    CHECKS += 1
    if not cond:
        raise AssertionError(msg)


SUPPORTED = ['text/html', 'application/json', 'text/plain', 'application/xml']
FORMAT_OF = {'text/html': 'html', 'application/json': 'json',
             'text/plain': 'text', 'application/xml': 'xml'}

# (Accept header or None for "no header", expected mime or None = ask werkzeug)
ACCEPTS = [
    (None, 'text/plain'),
    ('', 'text/plain'),
    ('text/html', 'text/html'),
    ('application/json', 'application/json'),
    ('application/xml', 'application/xml'),
    ('text/plain', 'text/plain'),
    ('image/png', 'text/plain'),
    ('application/pdf, image/*', 'text/plain'),
    ('text/xml', 'text/plain'),
    ('application/xhtml+xml', 'text/plain'),
    ('*/*', 'text/html'),
    ('text/*', 'text/html'),
    ('application/*', 'application/json'),
    ('text/html;q=0.1, application/json;q=0.9', 'application/json'),
    ('text/html;q=0.9, application/json;q=0.1', 'text/html'),
    ('application/xml;q=0.8, text/plain;q=0.7, */*;q=0.1', 'application/xml'),
    ('text/html;q=0, application/xml', 'application/xml'),
    ('text/html;q=0', 'text/plain'),
    ('image/png, */*;q=0.01', 'text/html'),
    ('text/plain, */*', 'text/plain'),
    ('application/json, text/html', 'text/html'),  # tie -> server order
    ('text/html, application/json', 'text/html'),
    ('text/html,application/xhtml+xml,application/xml;q=0.9,*/*;q=0.8', 'text/html'),
    ('TEXT/HTML', 'text/html'),
    ('Application/JSON; q=0.5', 'application/json'),
    ('application/json; charset=utf-8', None),
    ('text/html; level=1', None),
    ('garbage', None),
    (';;;q=', None),
    ('text/html;q=abc', None),
    (',', None),
    ('*', None),
    ('text/html;q=1.5, application/json;q=1.0', None),
]


def werkzeug_choice(accept):
    parsed = parse_accept_header(accept, MIMEAccept)
    return parsed.best_match(list(SUPPORTED)) or 'text/plain'


def content_type_for(mime):
    if mime == 'application/json':
        return mime
    return mime + '; charset=utf-8'


def esc(v):
    if v is None:
        return ''
    return html.escape(v if isinstance(v, str) else repr(v), True)


class Tags(HTMLParser):
    def __init__(self):
        HTMLParser.__init__(self, convert_charrefs=True)
        self.tags = []
        self.data = []

    def handle_starttag(self, tag, attrs):
        self.tags.append((tag, attrs))

    def handle_data(self, data):
        self.data.append(data)

    def handle_comment(self, data):
        raise AssertionError('comment introduced')


def check_body(resp, mime, code, message, detail, error_type, label):
    """Content-Type agrees with the body and the body carries the fields."""
    fmt = FORMAT_OF[mime]
    check(resp.headers['Content-Type'] == content_type_for(mime),
          '%s: content-type %r for %s' % (label, resp.headers['Content-Type'], mime))
    check(resp.status_code == code, '%s: status %r != %r' % (label, resp.status_code, code))
    body = resp.get_data(as_text=True)
    check(int(resp.headers['Content-Length']) == len(resp.get_data()), label + ': length')
    if fmt == 'json':
        loaded = json.loads(body)
        check(loaded['code'] == code and loaded['message'] == message
              and loaded['detail'] == detail and loaded['error_type'] == error_type,
              '%s: json fields %r' % (label, loaded))
    elif fmt == 'xml':
        check(body.startswith('<http_error><code>'), label + ': xml prefix')
        root = ET.fromstring(body.encode('utf-8'))
        got = dict((c.tag, c.text or '') for c in root)
        check(got == {'code': str(code), 'message': message, 'detail': detail,
                      'error_type': error_type or ''}, '%s: xml fields %r' % (label, got))
        check(all(len(c) == 0 for c in root), label + ': xml nesting')
    elif fmt == 'html':
        check(body.startswith('<!doctype html><html>\n<head><title>'), label + ': html prefix')
        parser = Tags()
        parser.feed(body)
        parser.close()
        names = [t for t, _ in parser.tags]
        want = ['html', 'head', 'title', 'body', 'h1'] + (['p'] if detail else [])
        if error_type:
            want += ['p', 'a'] if error_type.startswith('http') else ['p']
        check(names == want, '%s: html tags %r != %r' % (label, names, want))
        text = ''.join(parser.data)
        check(detail in text and message in text, label + ': html text')
        check('<p>' + esc(detail) + '</p>' in body, label + ': escaped detail')
    else:
        want = '%s - %s' % (code, message)
        if detail:
            want += '\n\n' + detail
        if error_type:
            want += '\n\nError type: ' + error_type
        check(body == want, '%s: text body %r != %r' % (label, body, want))
        check(not body.startswith('<') and not body.startswith('{'), label + ': text shape')


MARKUP = '<img src=x onerror="alert(1)"> & {detail} {0} \'q\' ünï'
TYPE_URL = 'https://example.net/errors?a=1&b=<2>'


def plain_cls(code):
    cls = errors.ERROR_CODE_MAP[code]
    if cls.__name__.startswith('Contextual'):
        cls = cls.__mro__[1]  # ERROR_CODE_MAP holds the debug variants of 404/500
    return cls


def ep_raise(code):
    raise plain_cls(code)(detail=MARKUP, error_type=TYPE_URL)


def ep_return(code):
    return plain_cls(code)()


def ep_custom():
    raise errors.Forbidden('', code=499, message='<Custom & "msg">', error_type='custom-type')


def ep_boom(text):
    marker = '<b>local & "value"</b>'
    raise ValueError('<i>%s</i> & "quoted"' % text)


def ep_post_only():
    return 'ok'


def make_routes():
    return [Route('/raise/<code:int>', ep_raise, render_basic),
            Route('/return/<code:int>', ep_return, render_basic),
            Route('/custom', ep_custom, render_basic),
            Route('/boom/<text>', ep_boom, render_basic),
            Route('/post', ep_post_only, render_basic, methods=['POST', 'PUT'])]


class BrokenErrorHandler(ErrorHandler):
    """render_error always fails -> Application falls back to default_render_error"""
    def render_error(self, **kwargs):
        raise RuntimeError('broken on purpose')


class FakeRequest(object):
    def __init__(self, accept):
        builder = EnvironBuilder(path='/', headers=[('Accept', accept)] if accept is not None else [])
        self._req = Request(builder.get_environ())
        self.accept_mimetypes = self._req.accept_mimetypes


def main():
    # the negotiation table itself
    check(list(MIME_SUPPORT_MAP) == SUPPORTED, 'MIME_SUPPORT_MAP order')
    check(dict(MIME_SUPPORT_MAP) == FORMAT_OF, 'MIME_SUPPORT_MAP content')
    check(errors.DEFAULT_MIME == 'text/plain', 'DEFAULT_MIME')

    codes = sorted(c for c in errors.ERROR_CODE_MAP if c)
    apps = [('default', Application(make_routes())),
            ('explicit', Application(make_routes(), error_handler=ErrorHandler())),
            ('broken', Application(make_routes(), error_handler=BrokenErrorHandler()))]

    for app_name, app in apps:
        cl = app.get_local_client()
        for accept, expected in ACCEPTS:
            headers = {} if accept is None else {'Accept': accept}
            wz = werkzeug_choice(accept)
            if expected is None:
                expected = wz
            check(expected == wz, 'table vs werkzeug for %r: %r != %r' % (accept, expected, wz))
            label = '%s/%r' % (app_name, accept)

            # raised with overridden detail + error_type, a rotating sample of codes
            sample = codes if accept in ('text/html', 'application/xml', None) else codes[::7]
            for code in sample:
                resp = cl.get('/raise/%d' % code, headers=headers)
                check_body(resp, expected, code, errors.ERROR_CODE_MAP[code].message,
                           MARKUP, TYPE_URL, label + ' raise %d' % code)
            # returned (not raised), all defaults
            for code in (400, 404, 418, 500, 503):
                resp = cl.get('/return/%d' % code, headers=headers)
                cls = errors.ERROR_CODE_MAP[code]
                et = None
                check_body(resp, expected, code, cls.message, cls.detail, et,
                           label + ' return %d' % code)
            # overridden code + message, empty detail falls back to class detail
            resp = cl.get('/custom', headers=headers)
            check_body(resp, expected, 499, '<Custom & "msg">', errors.Forbidden.detail,
                       'custom-type', label + ' custom')
            # routing 404 with markup in the path
            resp = cl.get('/nope/<script>alert(1)</script>?x=<y>', headers=headers)
            check_body(resp, expected, 404, 'Not found', errors.NotFound.detail, None,
                       label + ' 404')
            # 405 with Allow header
            resp = cl.get('/post', headers=headers)
            check(resp.headers.get('Allow') == 'POST, PUT', label + ': Allow')
            check_body(resp, expected, 405, 'Method not allowed',
                       errors.MethodNotAllowed.detail + " Allowed methods: ['POST', 'PUT']",
                       None, label + ' 405')
            # uncaught exception -> 500, exception text with markup is escaped
            resp = cl.get('/boom/<u>x<u>', headers=headers)
            check(resp.status_code == 500, label + ': 500 status')
            check(resp.headers['Content-Type'] == content_type_for(expected), label + ': 500 ctype')
            body = resp.get_data(as_text=True)
            fmt = FORMAT_OF[expected]
            if fmt == 'json':
                loaded = json.loads(body)
                check(loaded['code'] == 500 and '<i><u>x<u></i> & "quoted"' in loaded['detail'],
                      label + ': 500 json')
                check(loaded['error_type'].endswith('#exceptions.ValueError'), label + ': 500 type')
                check(loaded['exc_info']['exc_type'] == 'ValueError', label + ': exc_info')
            elif fmt == 'text':
                check(body.startswith('500 - Internal server error\n\n'), label + ': 500 text')
                check('<i><u>x<u></i> & "quoted"' in body, label + ': 500 text detail')
                check('exceptions.html#exceptions.ValueError' in body, label + ': 500 text type')
            else:
                check('<i>' not in body and '<u>' not in body and '"quoted"' not in body,
                      label + ': 500 markup leaked')
                check('&lt;i&gt;&lt;u&gt;x&lt;u&gt;&lt;/i&gt; &amp; &quot;quoted&quot;' in body,
                      label + ': 500 escaped text')
                if fmt == 'xml':
                    root = ET.fromstring(body.encode('utf-8'))
                    check(root.find('code').text == '500', label + ': 500 xml code')
                    check(root.find('error_type').text.endswith('#exceptions.ValueError'),
                          label + ': 500 xml type')
                else:
                    parser = Tags()
                    parser.feed(body)
                    parser.close()
                    check([t for t, _ in parser.tags] ==
                          ['html', 'head', 'title', 'body', 'h1', 'p', 'p', 'a'],
                          label + ': 500 html tags')

    # render_error / default_render_error called directly: same object back, adapted in place
    for accept, expected in ACCEPTS:
        expected = expected or werkzeug_choice(accept)
        for renderer in (ErrorHandler().render_error, default_render_error):
            err = errors.Conflict(MARKUP)
            out = renderer(request=FakeRequest(accept), _error=err)
            check(out is err, 'renderer returns the error')
            check(err.headers['Content-Type'] == content_type_for(expected), 'direct ctype %r' % accept)
            check(err.get_data(as_text=True) == getattr(err, 'to_' + FORMAT_OF[expected])(),
                  'direct body %r' % accept)
            check(err.status_code == 409, 'direct status')
    err = errors.Gone()
    check(default_render_error(FakeRequest('application/json'), err, extra=1, other=None) is err,
          'default_render_error swallows extra kwargs')

    # constructor: fields, defaults, mimetype / content_type / headers arguments
    for cls in [HTTPException] + [errors.ERROR_CODE_MAP[c] for c in codes]:
        if cls.__name__.startswith('Contextual'):
            cls = cls.__mro__[1]
        for mime in SUPPORTED + ['image/png', None, '']:
            err = cls(detail='<d>', mimetype=mime, headers={'X-Extra': '<v>'})
            want = mime if mime in FORMAT_OF else 'text/plain'
            check(err.headers['Content-Type'] == content_type_for(want), 'ctor ctype %r' % mime)
            check(err.get_data(as_text=True) == getattr(err, 'to_' + FORMAT_OF[want])(), 'ctor body')
            check(err.headers['X-Extra'] == '<v>', 'ctor headers')
            check(err.status_code == (cls.code or 200) and err.code == cls.code, 'ctor status')
            check(err.detail == '<d>' and err.message == cls.message, 'ctor fields')
            check(err.is_breaking is True and err.source_route is None, 'ctor routing fields')
            check(err.error_type is None, 'ctor error_type')
        err = cls(detail=0)
        check(err.detail == cls.detail, 'falsy detail -> class default')
        check('detail' in vars(err) and 'message' in vars(err) and 'code' in vars(err),
              'instance attributes always set')
        err = cls(code=None, message=None, error_type='', is_breaking=0, source_route='r',
                  content_type='text/x-custom')
        check(err.code is None and err.message is None and err.error_type == ''
              and err.is_breaking == 0 and err.source_route == 'r', 'explicit falsy kwargs kept')
        check(err.headers['Content-Type'] == 'text/x-custom', 'content_type kwarg wins')
        check(err.status_code == 200, 'code=None -> default status')
        err = cls(detail='d', unknown_kwarg=1, request=object())
        check(err.detail == 'd', 'unknown kwargs ignored')

    # InternalServerError: error_type derived from exc_info when not given
    class Info(object):
        def __init__(self, exc_type):
            self.exc_type = exc_type

        def to_dict(self):
            return {'exc_type': self.exc_type}

    for name, want in [('ValueError', errors.STDLIB_EXC_URL + 'ValueError'),
                       ('IOError', errors.STDLIB_EXC_URL + 'OSError'),
                       ('len', errors.STDLIB_EXC_URL + 'len'),
                       ('NoSuchThing', None), (None, None), (5, None), ('', None)]:
        ise = errors.InternalServerError('x', exc_info=Info(name))
        check(ise.error_type == want, 'derived error_type for %r: %r' % (name, ise.error_type))
        check(ise.get_data(as_text=True) == '500 - Internal server error\n\nx',
              'initial body rendered before error_type derivation')
        ise = errors.BadGateway('x', exc_info=Info(name), error_type='given')
        check(ise.error_type == 'given' and ise.code == 502, 'explicit error_type kept')
        ise = errors.InternalServerError('x', exc_info=Info(name), error_type='')
        check(ise.error_type == '', 'explicit empty error_type kept')
    check(errors.InternalServerError().error_type is None, 'no exc_info -> None')
    check(errors.InternalServerError(exc_info=object()).error_type is None, 'odd exc_info -> None')

    print('PASS (%d checks)' % CHECKS)
    return 0


if __name__ == '__main__':
    sys.exit(main())
