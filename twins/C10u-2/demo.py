# -*- coding: utf-8 -*-
"""demo2: embedding == flat declaration, with the focus on trailing-slash
handling at dispatch time (redirect / rewrite / strict, inherited from the
embedding application or not) for routes living under a prefix.

Prints PASS and exits 0 when every assertion holds.
"""
import sys
import warnings

warnings.simplefilter('ignore')

from werkzeug.wrappers import Response

from clastic import Application, Route, SubApplication, Middleware
from clastic.route import GET, S_REDIRECT, S_REWRITE, S_STRICT
from clastic.errors import ErrorHandler, Forbidden
from clastic.middleware.core import check_middlewares

TRACE = []


# ---------------------------------------------------------------- middlewares
class _TraceMW(Middleware):
    def __init__(self, tag):
        self.tag = tag

    def __repr__(self):
        return '%s@%s' % (self.__class__.__name__, self.tag)

    def request(self, next, request):
        TRACE.append('>%r' % self)
        try:
            return next()
        finally:
            TRACE.append('<%r' % self)


class MwA(_TraceMW):
    pass


class MwB(_TraceMW):
    pass


class MwC(_TraceMW):
    pass


class MwWho(_TraceMW):
    provides = ('who',)

    def request(self, next, request):
        TRACE.append('>%r' % self)
        return next(who=self.tag)


class MwEp(_TraceMW):
    endpoint_provides = ('ep_val',)
    request = None

    def endpoint(self, next):
        TRACE.append('e%r' % self)
        return next(ep_val='ep-' + self.tag)


class MwRn(_TraceMW):
    render_provides = ('rn_val',)
    request = None

    def render(self, next, context):
        TRACE.append('r%r' % self)
        return next(rn_val='rn-' + self.tag)


class MwWho2(_TraceMW):
    # a different type providing the same name as MwWho -> conflict
    endpoint_provides = ('who',)
    request = None

    def endpoint(self, next):
        return next(who='two-' + self.tag)


class MwFixed(_TraceMW):
    reorderable = False


# ------------------------------------------------------------- error handlers
class TagErrorHandler(ErrorHandler):
    def __init__(self, tag):
        ErrorHandler.__init__(self)
        self.tag = tag

    def render_error(self, request, _error, shared):
        return Response('EH[%s] %s shared=%s' % (self.tag, _error.code, shared),
                        status=_error.code)


def make_rf(tag):
    def render_factory(arg):
        def render(context):
            return Response('RF[%s](%s) %s' % (tag, arg, context))
        return render
    return render_factory


def callable_render(context):
    return Response('CALLABLE %s' % (context,))


def rn_render(context, rn_val):
    return Response('RN %s %s' % (rn_val, context))


# ------------------------------------------------------------------ endpoints
def ep_shared(shared, own):
    return 'ep_shared(shared=%s, own=%s)' % (shared, own)


def ep_deep(shared, deep):
    return 'ep_deep(shared=%s, deep=%s)' % (shared, deep)


def ep_mid(shared, mid_only):
    return Response('ep_mid(shared=%s, mid_only=%s)' % (shared, mid_only))


def ep_top(shared, top_only):
    return 'ep_top(shared=%s, top_only=%s)' % (shared, top_only)


def ep_num(num, shared):
    return 'ep_num(%r, shared=%s)' % (num, shared)


def ep_parts(parts):
    return Response('ep_parts(%r)' % (parts,))


def ep_who(who, shared):
    return 'ep_who(%s, shared=%s)' % (who, shared)


def ep_val_ep(ep_val):
    return 'ep_val_ep(%s)' % ep_val


def ep_boom(shared):
    raise ValueError('boom')


def ep_forbidden():
    raise Forbidden()


def ep_app(_application, _route, shared):
    return Response('ep_app(app_shared=%s, pattern=%s, n_apps=%d, shared=%s)'
                    % (_application.resources.get('shared'), _route.pattern,
                       len(_route.bound_apps), shared))


# ---------------------------------------------------------------------- specs
class Lvl(object):
    """Declaration of one application level (independent of clastic)."""
    def __init__(self, name, entries, res=None, mws=(), slash=S_REDIRECT,
                 rf=None, eh=None):
        self.name, self.entries = name, entries
        self.res, self.mws = dict(res or {}), list(mws)
        self.slash, self.rf, self.eh = slash, rf, eh


class R(object):
    def __init__(self, pattern, ep, render=None, mws=(), methods=None):
        self.pattern, self.ep, self.render = pattern, ep, render
        self.mws, self.methods = list(mws), methods


class Sub(object):
    def __init__(self, prefix, lvl, rebind_render=False, inherit_slashes=True,
                 as_tuple=False):
        self.prefix, self.lvl = prefix, lvl
        self.rebind_render, self.inherit_slashes = rebind_render, inherit_slashes
        self.as_tuple = as_tuple


def build_nested(lvl):
    routes = []
    for e in lvl.entries:
        if isinstance(e, R):
            kw = {}
            if e.methods:
                kw['methods'] = e.methods
            routes.append(Route(e.pattern, e.ep, e.render,
                                middlewares=e.mws, **kw))
        else:
            inner = build_nested(e.lvl)
            if e.as_tuple:
                assert not e.rebind_render and e.inherit_slashes
                routes.append((e.prefix, inner))
            else:
                routes.append(SubApplication(e.prefix, inner,
                                             rebind_render=e.rebind_render,
                                             inherit_slashes=e.inherit_slashes))
    kw = {}
    if lvl.eh is not None:
        kw['error_handler'] = TagErrorHandler(lvl.eh)
    return Application(routes, resources=lvl.res, middlewares=lvl.mws,
                       render_factory=make_rf(lvl.rf) if lvl.rf else None,
                       slash_mode=lvl.slash, **kw)


def _dedupe(mws):
    out = []
    for mw in mws:
        if not any(type(o) is type(mw) for o in out):
            out.append(mw)
    return out


def flatten(top):
    """Independent flattening: one record per leaf route, in order."""
    recs = []

    def walk(lvl, prefix, levels, links):
        for e in lvl.entries:
            if isinstance(e, Sub):
                walk(e.lvl, prefix + e.prefix.rstrip('/'),
                     levels + [e.lvl], links + [e])
                continue
            # slash mode: innermost first, outward while inheriting
            slash = levels[-1].slash
            for parent, link in reversed(list(zip(levels[:-1], links))):
                if link.inherit_slashes:
                    slash = parent.slash
            # render: the most recent factory at the time of a (re)binding
            render, bound = None, False
            if callable(e.render):
                render = e.render
            elif e.render is not None:
                rebinds = [True] + [l.rebind_render for l in reversed(links)]
                seen = []
                for cur, rebind in zip(reversed(levels), rebinds):
                    seen.append(cur.rf)
                    facs = [f for f in seen if f]
                    if (rebind or not bound) and facs:
                        render, bound = make_rf(facs[-1])(e.render), True
            inner_mws, inner_res = [], {}
            for cur in levels[1:]:
                inner_mws.extend(cur.mws)
                inner_res.update(cur.res)
            inner_mws.extend(e.mws)
            all_mws = _dedupe(list(top.mws) + inner_mws)
            recs.append(dict(pattern=prefix + e.pattern, ep=e.ep, render=render,
                             mws=_dedupe(inner_mws), res=inner_res, slash=slash,
                             methods=e.methods, all_mws=all_mws))

    walk(top, '', [top], [])
    return recs


def build_flat(top):
    kw = {}
    if top.eh is not None:
        kw['error_handler'] = TagErrorHandler(top.eh)
    app = Application([], resources=top.res, middlewares=top.mws,
                      slash_mode=top.slash, **kw)
    for rec in flatten(top):
        rkw = {}
        if rec['methods']:
            rkw['methods'] = rec['methods']
        rt = Route(rec['pattern'], rec['ep'], rec['render'],
                   middlewares=rec['mws'], resources=rec['res'],
                   slash_mode=rec['slash'], **rkw)
        app.add(rt, inherit_slashes=False)
    return app


# ------------------------------------------------------------------- requests
def catalogue(patterns):
    paths = ['/', '/nope', '/nope/', '//', '/x/../y']
    for patt in patterns:
        base = (patt.replace('<num:int>', '42').replace('<parts*>', 'a/b')
                .replace('<name>', 'zed'))
        stripped = base.rstrip('/') or '/'
        paths += [base, stripped, stripped + '/', stripped + '//',
                  '/' + base, base.replace('/', '//'), stripped + '/extra',
                  stripped + 'x']
        if '42' in base:
            paths += [base.replace('42', 'notint'), base.replace('42', '-7'),
                      base.replace('42', '')]
        if 'a/b' in base:
            paths += [base.replace('a/b', ''), base.replace('/a/b', ''),
                      base.replace('a/b', 'a//b/')]
    seen, out = set(), []
    for p in paths:
        if p not in seen:
            seen.add(p)
            out.append(p)
    reqs = []
    for p in out:
        reqs.append(('GET', p, ''))
        reqs.append(('POST', p, ''))
    for p in out[::3]:
        reqs.append(('HEAD', p, ''))
        reqs.append(('GET', p, 'q=1&r=%20x'))
    return reqs


def observe(app, method, path, query):
    del TRACE[:]
    cl = app.get_local_client()
    try:
        resp = cl.open(path=path, method=method, query_string=query,
                       headers={'Accept': 'text/plain'})
        out = (resp.status_code, resp.get_data(True),
               resp.headers.get('Location'), resp.headers.get('Allow'))
    except Exception as e:  # must not happen, but must then be the same
        out = ('EXC', type(e).__name__, str(e), None)
    return out + (tuple(TRACE),)


def compare(top, min_ok=1):
    nested, flat = build_nested(top), build_flat(top)
    recs = flatten(top)
    assert len(nested.routes) == len(flat.routes) == len(recs)
    for nbr, fbr, rec in zip(nested.routes, flat.routes, recs):
        assert nbr.pattern == fbr.pattern == rec['pattern'], (nbr.pattern, rec)
        assert nbr.slash_mode == fbr.slash_mode == rec['slash'], (nbr.pattern,)
        assert nbr.methods == fbr.methods
        want = [repr(m) for m in rec['all_mws']]
        assert [repr(m) for m in nbr.middlewares] == want, (nbr.middlewares, want)
        assert [repr(m) for m in fbr.middlewares] == want, (fbr.middlewares, want)
        assert type(nbr.middlewares) is tuple
        assert set(nbr.resources) == set(fbr.resources)
        assert nbr.bound_apps[-1] is nested and fbr.bound_apps[-1] is flat
        assert nbr.get_required_args() == fbr.get_required_args()
    n_ok = 0
    for method, path, query in catalogue([r['pattern'] for r in recs]):
        got_n = observe(nested, method, path, query)
        got_f = observe(flat, method, path, query)
        assert got_n == got_f, (top.name, method, path, query, got_n, got_f)
        assert got_n[0] != 'EXC', got_n
        if got_n[0] == 200:
            n_ok += 1
    assert n_ok >= min_ok, (top.name, n_ok)
    return nested, flat


def expect_same_error(top, exc_type, *needles):
    errs = []
    for build in (build_nested, build_flat):
        try:
            build(top)
        except Exception as e:
            errs.append(e)
        else:
            raise AssertionError('%s: %s did not raise' % (top.name, build.__name__))
    for e in errs:
        assert type(e) is exc_type, (top.name, e)
        for needle in needles:
            assert needle in str(e), (top.name, needle, str(e))


def body(app, path, method='GET'):
    return observe(app, method, path, '')[:2]


# --------------------------------------------- demo2: requests with slashes
def ep_name(name, shared):
    return Response('ep_name(%r, shared=%s)' % (name, shared))


def catalogue(patterns):
    paths = ['/', '//', '/nope', '/nope/']
    for patt in patterns:
        base = (patt.replace('<num:int>', '42').replace('<parts*>', 'a/b')
                .replace('<name>', 'zed'))
        stripped = base.rstrip('/') or '/'
        paths += [base, stripped, stripped + '/', stripped + '//',
                  '/' + base, base.replace('/', '//'), stripped + '/extra/',
                  stripped + 'x']
        if 'zed' in base:
            paths += [base.replace('zed', 'a%3Fb'), base.replace('zed', 'a%23b%25c'),
                      base.replace('zed', 'sp%20ace'), base.replace('zed', u'\xe9t\xe9')]
    seen, out = set(), []
    for p in paths:
        if p not in seen:
            seen.add(p)
            out.append(p)
    reqs = []
    for i, p in enumerate(out):
        reqs.append(('GET', p, ''))
        reqs.append(('POST' if i % 2 else 'HEAD', p, ''))
        if i % 2 == 0:
            reqs.append(('GET', p, 'q=1&r=%20x&s=a+b'))
        if i % 5 == 0:
            reqs.append(('GET', p, b'\xff\xfe=\xe9&ok=1'))
    return reqs


def observe(app, method, path, query):
    del TRACE[:]
    cl = app.get_local_client()
    kw = {}
    if isinstance(query, bytes):
        # raw, non-UTF-8 bytes in QUERY_STRING (WSGI: latin-1 native string)
        kw['environ_overrides'] = {'QUERY_STRING': query.decode('latin-1')}
        query = ''
    try:
        resp = cl.open(path=path, method=method, query_string=query,
                       headers={'Accept': 'text/plain'}, **kw)
        out = (resp.status_code, resp.get_data(True),
               resp.headers.get('Location'), resp.headers.get('Allow'))
    except Exception as e:
        out = ('EXC', type(e).__name__, str(e), None)
    return out + (tuple(TRACE),)


MODES = (S_REDIRECT, S_REWRITE, S_STRICT)
PREFIXES = ('/p', '/p/', '/', '/a/b', '/a/b/')


def inner_level(slash, name='I', extra=()):
    return Lvl(name, [R('/', ep_shared, 'root.tmpl'),
                      R('/dir/', ep_shared, 'dir.tmpl'),
                      R('/leaf', ep_deep, 'leaf.tmpl'),
                      R('/item/<num:int>/', ep_num, 'item.tmpl', methods=['GET']),
                      R('/multi/<parts*>', ep_parts)] + list(extra) +
               [R('/<name>/', ep_name), R('/<name>', ep_name)],
               res={'shared': name, 'own': name, 'deep': name},
               mws=[MwA(name)], slash=slash, rf=name)


def scenario_matrix():
    n = 0
    for outer_mode in MODES:
        for inner_mode in MODES:
            for inherit in (True, False):
                prefix = PREFIXES[n % len(PREFIXES)]
                n += 1
                top = Lvl('O', [R('/top/', ep_top, 'top.tmpl'),
                                Sub(prefix, inner_level(inner_mode),
                                    inherit_slashes=inherit),
                                R('/late/', ep_top, 'late.tmpl'),
                                R('/<name>/', ep_name)],
                          res={'shared': 'O', 'own': 'O', 'top_only': 'O'},
                          mws=[MwB('O')], slash=outer_mode, rf='O', eh='O')
                nested, flat = compare(top, min_ok=10)
                eff = outer_mode if inherit else inner_mode
                pre = prefix.rstrip('/')
                for app in (nested, flat):
                    got = observe(app, 'GET', pre + '/dir', 'k=v')
                    ok_dir = 'RF[I](dir.tmpl) ep_shared(shared=O, own=O)'
                    if eff == S_REDIRECT:
                        assert got[0] == 302, got
                        assert got[2] == 'http://localhost%s/dir/?k=v' % pre, got
                        assert got[4] == (), got  # no middleware ran
                    elif eff == S_REWRITE:
                        assert got[:2] == (200, ok_dir), got
                    else:
                        # strict: the branch route refuses, '/<name>' answers
                        assert got[:2] == (200, "ep_name('dir', shared=O)"), got
                    assert observe(app, 'GET', pre + '/dir/', '')[:2] == (200, ok_dir)
                    # routes of the outer application keep the outer mode
                    got = observe(app, 'GET', '/late', '')
                    if prefix.rstrip('/') == '' and not (eff == S_STRICT):
                        pass  # shadowed by the embedded '/<name>' routes
                    elif outer_mode == S_REDIRECT:
                        assert got[0] == 302 and got[2] == 'http://localhost/late/', got
                    elif outer_mode == S_REWRITE:
                        assert got[:2] == (200, 'RF[O](late.tmpl) ep_top(shared=O, top_only=O)'), got
    assert n == 18


def scenario_depth3():
    for modes in [(S_STRICT, S_REWRITE, S_REDIRECT), (S_REDIRECT, S_STRICT, S_REWRITE),
                  (S_REWRITE, S_REDIRECT, S_STRICT)]:
        for inh_mid, inh_in in [(True, True), (True, False), (False, True), (False, False)]:
            o_mode, m_mode, i_mode = modes
            inner = inner_level(i_mode)
            mid = Lvl('M', [R('/mdir/', ep_mid),
                            Sub('/in/', inner, inherit_slashes=inh_in),
                            R('/mleaf', ep_mid)],
                      res={'shared': 'M', 'own': 'M', 'mid_only': 'M'},
                      mws=[MwC('M'), MwA('M')], slash=m_mode, eh='M')
            top = Lvl('O', [Sub('/mid', mid, inherit_slashes=inh_mid),
                            R('/odir/', ep_top, 'o.tmpl')],
                      res={'shared': 'O', 'own': 'O', 'top_only': 'O'},
                      slash=o_mode, rf='O', eh='O')
            nested, flat = compare(top, min_ok=10)
            eff_mid = o_mode if inh_mid else m_mode
            # the outermost embedding that inherits decides
            eff_in = o_mode if inh_mid else (m_mode if inh_in else i_mode)
            for app in (nested, flat):
                for path, eff, ok in [('/mid/mdir', eff_mid, 'ep_mid(shared=O, mid_only=M)'),
                                      ('/mid/in/item/5', eff_in, 'RF[I](item.tmpl) ep_num(5, shared=O)')]:
                    got = observe(app, 'GET', path, '')
                    if eff == S_REDIRECT:
                        assert (got[0], got[2]) == (302, 'http://localhost%s/' % path), got
                    elif eff == S_REWRITE:
                        assert got[:2] == (200, ok), got
                    elif path == '/mid/mdir':
                        assert got[:2] == (404, 'EH[O] 404 shared=O'), got
                    assert observe(app, 'GET', path + '/', '')[:2] == (200, ok)


def scenario_locations():
    """Exact Location headers of slash redirects below a prefix."""
    inner = inner_level(S_STRICT)
    top = Lvl('O', [Sub('/pre/fix/', inner)], res={'shared': 'O', 'own': 'O'},
              slash=S_REDIRECT, eh='O')
    nested, flat = compare(top, min_ok=10)
    cases = [
        ('/pre/fix/dir', '', 'http://localhost/pre/fix/dir/'),
        ('/pre/fix//dir', 'a=1&b=2', 'http://localhost/pre/fix/dir/?a=1&b=2'),
        ('//pre//fix//dir//', 'x', 'http://localhost/pre/fix/dir/?x'),
        ('/pre/fix/item/-3', 'q=%20x&r=a+b', 'http://localhost/pre/fix/item/-3/?q=%20x&r=a+b'),
        ('/pre/fix/a%3Fb', '', 'http://localhost/pre/fix/a%3Fb/'),
        ('/pre/fix/a%23b%25c', 'z=%25', 'http://localhost/pre/fix/a%23b%25c/?z=%25'),
        ('/pre/fix/sp%20ace', '', 'http://localhost/pre/fix/sp%20ace/'),
        (u'/pre/fix/\xe9t\xe9', u'k=\xe9', 'http://localhost/pre/fix/%C3%A9t%C3%A9/?k=%C3%A9'),
        ('/pre/fix/dir', b'\xff\xfe=\xe9&ok=1', 'http://localhost/pre/fix/dir/?%FF%FE=%E9&ok=1'),
        ('/pre/fix/dir', b'a=%zz&b=[1]', 'http://localhost/pre/fix/dir/?a=%zz&b=[1]'),
    ]
    for app in (nested, flat):
        for path, query, location in cases:
            for method in ('GET', 'POST', 'HEAD'):
                got = observe(app, method, path, query)
                if method == 'POST' and '/item/' in path:
                    # GET-only route: the method check precedes the slashes
                    assert got[:3] == (405, 'EH[O] 405 shared=O', None), got
                    continue
                assert got[0] == 302 and got[2] == location, (path, query, got)
                assert got[4] == ()
        # a host / script root other than the default one
        cl = app.get_local_client()
        resp = cl.get('/pre/fix/dir', base_url='https://example.org:8443/mnt/',
                      query_string='k=v')
        assert resp.status_code == 302
        assert resp.headers['Location'] == 'https://example.org:8443/mnt/pre/fix/dir/?k=v', resp.headers
        # no redirect when the path is already normalized
        assert observe(app, 'GET', '/pre/fix/dir/', 'k=v')[0] == 200
        assert observe(app, 'GET', '/pre/fix/', '')[0] == 200
        assert observe(app, 'GET', '/pre/fix/', '')[:2] == (
            200, 'RF[I](root.tmpl) ep_shared(shared=O, own=O)')
        # the embedded root route is a branch below the prefix
        got = observe(app, 'GET', '/pre/fix', '')
        assert (got[0], got[2]) == (302, 'http://localhost/pre/fix/'), got


def main():
    scenario_matrix()
    scenario_depth3()
    scenario_locations()
    print('PASS')
    return 0


if __name__ == '__main__':
    sys.exit(main())
