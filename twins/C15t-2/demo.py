# -*- coding: utf-8 -*-
"""demo2: built-in middlewares never change what the client receives.

Focus: StatsMiddleware -- it only observes.  Whatever next() returns or raises
is handed on untouched, exactly one Hit is recorded per call, and the Hit is
labelled by status code / exception name and bare mime type.  Also runs the
with/without comparison of the scenario application for every middleware.
Prints PASS and exits 0 when the property holds.
"""
import gzip
import io
import json
import random
import re
import sys
import time

from werkzeug.test import EnvironBuilder
from werkzeug.wrappers import Request

from clastic import Application, GET, POST, Response, redirect, render_basic
from clastic.errors import (NotFound, Forbidden, BadRequest, HTTPException,
                            MethodNotAllowed, InternalServerError)
from clastic.middleware import (client_cache, compress, context, cookie,
                                form, profile, stats, url)
from clastic.middleware.stats import StatsMiddleware, Hit, create_stats_app


# -- scenario application ----------------------------------------------------

def _text(n):
    return ('lorem ipsum dolor sit amet ' * (n // 27 + 1))[:n]


def _rand(n):
    rng = random.Random(n)
    return bytes(bytearray(rng.getrandbits(8) for _ in range(n)))


def ep_text(size):
    return Response(_text(int(size)), mimetype='text/plain')


def ep_rand(size):
    return Response(_rand(int(size)), mimetype='application/octet-stream')


def ep_ctx():
    return {'greeting': 'hello', 'items': list(range(50)), 'pad': _text(600)}


def ep_redirect():
    return redirect('/text/10')


def ep_raise_404():
    raise NotFound()


def ep_return_403():
    return Forbidden()


def ep_raise_400_detail():
    raise BadRequest('please do not ' + 'x' * 900)


def ep_nonbreaking():
    raise NotFound(is_breaking=False)


def ep_boom():
    raise ValueError('uncaught on purpose')


def ep_empty():
    return Response('', mimetype='text/plain')


def ep_html():
    return Response('<p>' + _text(2500) + '</p>',
                    content_type='text/html; charset=utf-8')


def ep_stream():
    return Response((chunk for chunk in [_text(1500), _text(1500)]),
                    mimetype='text/plain')


def make_routes():
    return [GET('/text/<size>', ep_text),
            GET('/rand/<size>', ep_rand),
            GET('/ctx', ep_ctx, render_basic),
            GET('/redir', ep_redirect),
            GET('/raise404', ep_raise_404),
            GET('/ret403', ep_return_403),
            GET('/raise400', ep_raise_400_detail),
            GET('/nonbreaking', ep_nonbreaking),
            GET('/boom', ep_boom),
            GET('/empty', ep_empty),
            GET('/html', ep_html),
            GET('/stream', ep_stream)]


MW_FACTORIES = {
    'gzip': lambda: compress.GzipMiddleware(),
    'cache': lambda: client_cache.HTTPCacheMiddleware(),
    'stats': lambda: stats.StatsMiddleware(),
    'profile': lambda: profile.SimpleProfileMiddleware(),
    'cookie': lambda: cookie.SignedCookieMiddleware(),
    'ctxproc': lambda: context.ContextProcessor(),
    'simplectx': lambda: context.SimpleContextProcessor(),
    'getparam': lambda: url.GetParamMiddleware({}),
    'postdata': lambda: form.PostDataMiddleware({'lol': str}),
    'scriptroot': lambda: url.ScriptRootMiddleware(),
}

PATHS = ['/text/0', '/text/1', '/text/300', '/text/20000', '/rand/1',
         '/rand/3000', '/ctx', '/redir', '/raise404', '/ret403', '/raise400',
         '/nonbreaking', '/boom', '/empty', '/html', '/stream',
         '/no/such/url', '/text']

ACCEPT_ENCODINGS = [None, 'gzip', 'gzip;q=0', '*', 'identity']


def gunzip(data):
    return gzip.GzipFile(fileobj=io.BytesIO(data)).read()


def fetch(client, method, path, accept_encoding=None):
    headers = {}
    if accept_encoding is not None:
        headers['Accept-Encoding'] = accept_encoding
    resp = client.open(path, method=method, headers=headers)
    return resp, resp.get_data()


_FRAME_COUNT_RE = re.compile(br'\(\d+ frames, ')


def decoded(resp, raw):
    if resp.headers.get('Content-Encoding') == 'gzip':
        raw = gunzip(raw)
    if resp.status_code == 500:
        # the default 500 page mentions the depth of the call stack, which
        # naturally grows by one frame per installed middleware
        raw = _FRAME_COUNT_RE.sub(b'(N frames, ', raw)
    return raw


checked = [0]


def total_hits(stats_mw):
    return sum(reservoir.total_count
               for by_status in stats_mw.route_hits.values()
               for reservoir in by_status.values())


def compare(mw_names):
    plain = Application(make_routes()).get_local_client()
    mws = [MW_FACTORIES[n]() for n in mw_names]
    stats_mws = [mw for mw in mws if isinstance(mw, StatsMiddleware)]
    wrapped = Application(make_routes(), middlewares=mws).get_local_client()
    has_gzip = 'gzip' in mw_names
    for path in PATHS:
        for method in ('GET', 'HEAD', 'POST'):
            for enc in ACCEPT_ENCODINGS:
                base_resp, base_raw = fetch(plain, method, path)
                before = [total_hits(mw) for mw in stats_mws]
                resp, raw = fetch(wrapped, method, path, enc)
                after = [total_hits(mw) for mw in stats_mws]
                label = (mw_names, method, path, enc)
                assert resp.status_code == base_resp.status_code, label
                assert decoded(resp, raw) == decoded(base_resp, base_raw), label
                if resp.headers.get('Content-Encoding') == 'gzip':
                    assert has_gzip and enc in ('gzip', '*'), label
                    if method != 'HEAD':
                        assert int(resp.headers['Content-Length']) == len(raw), label
                    assert 'accept-encoding' in resp.headers['Vary'].lower(), label
                elif resp.status_code != 500:
                    assert raw == base_raw, label
                # the stats middleware saw the request at least once (a
                # non-breaking error may make it see several routes)
                for b, a in zip(before, after):
                    assert a >= b + 1, label
                checked[0] += 1
    for mw in stats_mws:
        seen_statuses = set()
        for route, by_status in mw.route_hits.items():
            for status, reservoir in by_status.items():
                seen_statuses.add(status)
                for hit in reservoir:
                    assert isinstance(hit, Hit)
                    assert hit.status_code == status
                    assert hit.pattern == route.pattern
                    assert hit.duration >= 0
                    assert ';' not in hit.content_type
                    assert isinstance(hit.content_type, str)
        for expected in ('200', '302', '403', '404', '400', "'ValueError'"):
            assert expected in seen_statuses, (expected, seen_statuses)


# -- direct checks on StatsMiddleware.request --------------------------------

class FakeRoute(object):
    pattern = '/fake/<pattern>'


def make_request(path='/some/path'):
    return Request(EnvironBuilder(path=path).get_environ())


def only_hit(mw, route):
    by_status = mw.route_hits[route]
    hits = [(status, hit) for status, res in by_status.items() for hit in res]
    assert len(hits) == 1, hits
    status, hit = hits[0]
    assert hit.status_code == status
    assert by_status[status].total_count == 1
    assert by_status[status].last_hit == hit.start_time
    assert by_status[status].total_duration == hit.duration
    return hit


class OddContentType(object):
    status_code = 299
    content_type = 12345   # truthy, but not a string


class NoneContentType(object):
    status_code = 0
    content_type = None


class CodedError(Exception):
    code = 'E42'
    content_type = 'application/problem+json; charset=utf-8'


def direct_stats_checks():
    route = FakeRoute()

    def run(next_callable):
        mw = StatsMiddleware()
        t0 = time.time()
        try:
            outcome = ('returned', mw.request(next_callable, make_request(), route))
        except BaseException as exc:
            outcome = ('raised', exc)
        t1 = time.time()
        return mw, outcome, t0, t1

    # returned objects: passed on by identity, labelled by status/mime type
    returned_cases = [
        (Response('hi', mimetype='text/plain'), '200', 'text/plain'),
        (Response('hi', content_type='text/html; charset=latin-1'), '200', 'text/html'),
        (Response('', status=204), '204', 'text/plain'),
        (redirect('/elsewhere'), '302', 'text/html'),
        (NotFound(), '404', None),
        (Forbidden('no'), '403', None),
        (HTTPException(), '200', None),   # no code -> werkzeug's default status
        (HTTPException(code=418), '418', None),
        (InternalServerError(mimetype='application/json'), '500', None),
        ({'a': 1}, "'dict'", ''),
        (None, "'NoneType'", ''),
        ('plain string', "'str'", ''),
        (NoneContentType(), '0', ''),
    ]
    for obj, status, mime in returned_cases:
        if mime is None:
            mime = (getattr(obj, 'content_type', None) or '').partition(';')[0]
        mw, (kind, value), t0, t1 = run(lambda: obj)
        assert kind == 'returned' and value is obj, (obj, kind, value)
        hit = only_hit(mw, route)
        assert hit.status_code == status, (obj, hit)
        assert hit.content_type == mime, (obj, hit)
        assert hit.url == '/some/path' and hit.pattern == '/fake/<pattern>'
        assert t0 <= hit.start_time <= hit.start_time + hit.duration <= t1
    # a Response with its Content-Type header removed
    bare = Response('x')
    del bare.headers['Content-Type']
    mw, (kind, value), _, _ = run(lambda: bare)
    assert kind == 'returned' and value is bare
    assert only_hit(mw, route)[3:] == ('200', only_hit(mw, route).duration, '')

    # raised exceptions: re-raised by identity, labelled by code / class name
    raised_cases = [
        (ValueError('boom'), "'ValueError'", ''),
        (KeyError('k'), "'KeyError'", ''),
        (NotFound(), '404', None),
        (MethodNotAllowed(), '405', None),
        (BadRequest('x', content_type='application/json; charset=utf-8'), '400', None),
        (CodedError(), "'E42'", 'application/problem+json'),
    ]
    for exc, status, mime in raised_cases:
        if mime is None:
            mime = getattr(exc, 'content_type', '').partition(';')[0]

        def raiser(exc=exc):
            raise exc
        mw, (kind, value), _, _ = run(raiser)
        assert kind == 'raised' and value is exc, (exc, kind, value)
        hit = only_hit(mw, route)
        assert hit.status_code == status, (exc, hit)
        assert hit.content_type == mime, (exc, hit)

    # a returned object whose content_type is not a string: the labelling
    # itself fails, is recorded as such, and the failure propagates
    mw, (kind, value), _, _ = run(lambda: OddContentType())
    assert kind == 'raised' and isinstance(value, AttributeError), value
    hit = only_hit(mw, route)
    assert hit.status_code == "'AttributeError'" and hit.content_type == ''

    # non-Exception BaseExceptions are not labelled at all
    for base_exc in (KeyboardInterrupt(), SystemExit(3), GeneratorExit()):
        def raiser(exc=base_exc):
            raise exc
        mw, (kind, value), _, _ = run(raiser)
        assert kind == 'raised' and isinstance(value, UnboundLocalError), value
        assert value.__context__ is base_exc
        assert total_hits(mw) == 0

    # several hits accumulate per (route, status)
    mw = StatsMiddleware()
    ok = Response('fine')
    for _ in range(7):
        assert mw.request(lambda: ok, make_request('/a'), route) is ok
    for _ in range(3):
        nf = NotFound()
        assert mw.request(lambda: nf, make_request('/b'), route) is nf
    assert mw.route_hits[route]['200'].total_count == 7
    assert mw.route_hits[route]['404'].total_count == 3
    assert set(mw.route_hits[route]) == set(['200', '404'])
    assert [h.url for h in mw.route_hits[route]['404']] == ['/b'] * 3


def stats_app_check():
    app = Application([('/', lambda: Response('root')),
                       GET('/gone', ep_raise_404),
                       ('/stats', create_stats_app())],
                      middlewares=[StatsMiddleware()])
    cl = app.get_local_client()
    for _ in range(3):
        assert cl.get('/').status_code == 200
    for _ in range(2):
        assert cl.get('/gone').status_code == 404
    assert cl.get('/nowhere').status_code == 404
    data = json.loads(cl.get('/stats/').get_data(True))
    assert data['route_stats']['/']['200']['count'] == 3
    assert data['route_stats']['/gone']['404']['count'] == 2
    data = json.loads(cl.post('/stats/reset').get_data(True))
    assert data['reset'] is True
    data = json.loads(cl.get('/stats/').get_data(True))
    assert '/' not in data['route_stats'] and '/gone' not in data['route_stats']


def main():
    direct_stats_checks()
    stats_app_check()
    for name in sorted(MW_FACTORIES):
        compare((name,))
    rng = random.Random(152)
    names = sorted(n for n in MW_FACTORIES if n != 'stats')
    for _ in range(10):
        stack = rng.sample(names, rng.randint(1, len(names)))
        stack.insert(rng.randint(0, len(stack)), 'stats')
        compare(tuple(stack))
    assert checked[0] > 5000, checked[0]
    print('PASS (%d comparisons)' % checked[0])


if __name__ == '__main__':
    main()
    sys.exit(0)
