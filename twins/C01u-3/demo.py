# -*- coding: utf-8 -*-
"""demo3 -- bind-time dependency check is sound and complete (C01).

Focus of this demo: ``BoundRoute.__init__`` (which render function and render
factory a route ends up with when bound / re-bound / embedded, the
render_error check, the order of the bind-time failures and the compiled
chain) plus a randomised sweep over route configurations that is compared against an
independent scope-simulation model.

Prints PASS and exits 0 when everything holds.
"""
import random
import sys
import warnings

warnings.simplefilter('ignore')

from werkzeug.wrappers import Response

from clastic import Application, Route, GET, POST
from clastic.errors import ErrorHandler
from clastic.middleware import Middleware
from clastic.decorators import clastic_decorator
from clastic.route import RESERVED_ARGS
from clastic import sinter
from clastic.sinter import inject, get_arg_names


LOG = []
BUILTIN_NAMES = ('request', '_application', '_route', '_dispatch_state', 'context')


def norm(name, value):
    if isinstance(value, str) and (value[:2] in ('P:', 'D:', 'R:') or value == 'uval'):
        return value
    return 'B:' + name


# --------------------------------------------------------------------------
# function factory
# --------------------------------------------------------------------------

def param_str(sig, leading=()):
    pos_req = [n for n, k in sig if k == 'req']
    pos_opt = [n for n, k in sig if k == 'opt']
    kw = [(n, k) for n, k in sig if k in ('kwreq', 'kwopt')]
    parts = list(leading) + pos_req
    return parts, pos_opt, kw


def make_fn(fn_id, sig, leading=(), provides=(), result='response'):
    parts, pos_opt, kw = param_str(sig, leading)
    parts = list(parts)
    parts += ['%s=%r' % (n, 'D:%s:%s' % (fn_id, n)) for n in pos_opt]
    if kw:
        parts.append('*')
        for n, k in kw:
            if k == 'kwreq':
                parts.append(n)
            else:
                parts.append('%s=%r' % (n, 'D:%s:%s' % (fn_id, n)))
    names = [n for n, _ in sig]
    seen = 'dict(%s)' % ', '.join(['%s=norm(%r, %s)' % (n, n, n) for n in names])
    if 'next' in leading:
        prov = ', '.join(['%s=%r' % (p, 'P:%s:%s' % (fn_id, p)) for p in provides])
        ret = 'next(%s)' % prov
    elif result == 'response':
        ret = 'Response(%r)' % fn_id
    else:
        ret = '{"from": %r}' % fn_id
    src = ('def fn(%s):\n    LOG.append((%r, %s))\n    return %s\n'
           % (', '.join(parts), fn_id, seen, ret))
    env = {'LOG': LOG, 'norm': norm, 'Response': Response}
    exec(src, env)
    fn = env['fn']
    fn.__name__ = fn_id.replace('.', '_')
    return fn


_MW_COUNTER = [0]


def make_mw(spec):
    """spec: dict phase -> (sig, provides); phases: request/endpoint/render."""
    _MW_COUNTER[0] += 1
    mw_id = 'mw%d' % _MW_COUNTER[0]
    attrs = {}
    prov_attr = {'request': 'provides', 'endpoint': 'endpoint_provides',
                 'render': 'render_provides'}
    for phase, (sig, provides) in spec.items():
        attrs[prov_attr[phase]] = tuple(provides)
        if sig is not None:
            attrs[phase] = make_fn('%s.%s' % (mw_id, phase), sig,
                                   leading=('self', 'next'), provides=provides)
    cls = type('MW_' + mw_id, (Middleware,), attrs)
    inst = cls()
    inst.demo_id = mw_id
    inst.demo_spec = spec
    return inst


# --------------------------------------------------------------------------
# independent model
# --------------------------------------------------------------------------

def model_conflicts(mws, url, resources):
    count = {}
    for n in list(url) + list(RESERVED_ARGS) + list(resources):
        count[n] = count.get(n, 0) + 1
    for mw in mws:
        for phase, (sig, provides) in mw.demo_spec.items():
            for p in provides:
                count[p] = count.get(p, 0) + 1
    return any(c > 1 for c in count.values())


def model_phase(calls, scope):
    """calls: list of (fn_id, sig, provides).  Returns (ok, expected_log)."""
    scope = dict(scope)
    out = []
    for fn_id, sig, provides in calls:
        seen = {}
        for n, k in sig:
            if k in ('req', 'kwreq'):
                if n not in scope:
                    return False, None
                seen[n] = scope[n]
            else:
                seen[n] = scope.get(n, 'D:%s:%s' % (fn_id, n))
        out.append((fn_id, seen))
        for p in provides:
            scope[p] = 'P:%s:%s' % (fn_id, p)
    return True, out


def model_route(mws, ep_id, ep_sig, rn_id, rn_sig, url, resources):
    """Returns (outcome, expected_log) with outcome in 'ok' / 'NameError'."""
    if model_conflicts(mws, url, resources):
        return 'NameError', None
    if 'next' in [n for n, _ in ep_sig] or 'next' in [n for n, _ in rn_sig]:
        return 'NameError', None
    base = {}
    for n in url:
        base[n] = 'uval'
    for n in resources:
        base[n] = 'R:' + n
    for n in ('request', '_application', '_route', '_dispatch_state'):
        base[n] = 'B:' + n

    def calls_of(phase):
        ret = []
        for mw in mws:
            sig, provides = mw.demo_spec.get(phase, (None, ()))
            if sig is not None:
                ret.append(('%s.%s' % (mw.demo_id, phase), sig, provides))
        return ret

    req_calls = calls_of('request')
    ep_scope = dict(base)
    for fn_id, sig, provides in req_calls:
        for p in provides:
            ep_scope[p] = 'P:%s:%s' % (fn_id, p)
    ok, ep_log = model_phase(calls_of('endpoint') + [(ep_id, ep_sig, ())], ep_scope)
    if not ok:
        return 'NameError', None
    rn_scope = dict(ep_scope, context='B:context')
    ok, rn_log = model_phase(calls_of('render') + [(rn_id, rn_sig, ())], rn_scope)
    if not ok:
        return 'NameError', None
    ok, req_log = model_phase(req_calls, base)
    if not ok:
        return 'NameError', None
    return 'ok', req_log + ep_log + rn_log


NULL_EP_SIG = [(n, 'req') for n in ('request', '_application', '_route', '_dispatch_state')]
NOOP_RN_SIG = [('context', 'req')]


# --------------------------------------------------------------------------
# randomised sweep
# --------------------------------------------------------------------------

ALPHA = ['a', 'b', 'c', 'd']


def rand_sig(rng, phase, extra=()):
    pool = ALPHA + ['u', 'r', 'request', '_route'] + list(extra)
    if phase == 'render' or rng.random() < 0.05:
        pool = pool + ['context']
    k = rng.choice([0, 0, 1, 1, 2, 3])
    names = rng.sample(pool, k)
    sig = []
    for n in names:
        kind = rng.choice(['req', 'req', 'req', 'opt', 'opt', 'kwreq', 'kwopt'])
        sig.append((n, kind))
    return sig


def rand_mw(rng, free_names):
    spec = {}
    for phase in ('request', 'endpoint', 'render'):
        r = rng.random()
        if r < 0.5:
            continue
        provides = []
        for _ in range(rng.choice([0, 0, 1, 1, 2])):
            if free_names and rng.random() < 0.93:
                provides.append(free_names.pop())
            else:
                provides.append(rng.choice(ALPHA))  # may conflict
        provides = list(dict.fromkeys(provides))
        if r < 0.55:
            spec[phase] = (None, provides)  # provides declared, no function
        else:
            spec[phase] = (rand_sig(rng, phase), provides)
    return make_mw(spec)


def run_config(rng, stats):
    free = list(ALPHA)
    rng.shuffle(free)
    app_mws = [rand_mw(rng, free) for _ in range(rng.choice([0, 1, 1, 2]))]
    route_mws = [rand_mw(rng, free) for _ in range(rng.choice([0, 0, 1, 2]))]
    resources = {'r': 'R:r'} if rng.random() < 0.7 else {}
    with_url = rng.random() < 0.7
    pattern = '/x/<u>' if with_url else '/x/uval'
    url = ['u'] if with_url else []

    ep_sig = rand_sig(rng, 'endpoint', extra=['_application', '_dispatch_state'])
    if rng.random() < 0.03:
        ep_sig.append(('next', 'req'))
    has_render = rng.random() < 0.6
    if has_render:
        rn_sig = rand_sig(rng, 'render')
        rn = make_fn('rn', rn_sig)
        ep = make_fn('ep', ep_sig, result='context')
    else:
        rn_sig = NOOP_RN_SIG
        rn = None
        ep = make_fn('ep', ep_sig)

    all_mws = app_mws + route_mws
    exp, exp_log = model_route(all_mws, 'ep', ep_sig, 'rn', rn_sig, url, resources)
    null_exp, _ = model_route(app_mws, 'null', NULL_EP_SIG, 'noop', NOOP_RN_SIG,
                              ['_ignored'], resources)
    if null_exp != 'ok':
        exp = 'NameError'
    if not has_render and exp_log is not None:
        # the endpoint answers with a Response: the whole render phase is skipped
        exp_log = [e for e in exp_log if e[0] != 'rn' and not e[0].endswith('.render')]

    def construct(via_add):
        route = Route(pattern, ep, rn, middlewares=route_mws)
        eh = ErrorHandler(reraise_uncaught=True)
        if via_add:
            app = Application([], resources, app_mws, error_handler=eh)
            app.add(route)
        else:
            app = Application([route], resources, app_mws, error_handler=eh)
        return app

    outcomes = []
    app = None
    for via_add in (False, True):
        try:
            app = construct(via_add)
            outcomes.append('ok')
        except NameError:
            outcomes.append('NameError')
        except RuntimeError as e:
            assert 'cycle detected' in str(e), e
            outcomes.append('cycle')
    if 'cycle' in outcomes:
        stats['cycle'] += 1
        return
    if null_exp == 'ok':
        assert outcomes[0] == outcomes[1], outcomes
    else:
        # Application([]) itself fails when the catch-all route cannot be bound
        assert outcomes == ['NameError', 'NameError'], outcomes
    assert outcomes[0] == exp, (outcomes, exp, [m.demo_spec for m in all_mws], ep_sig, rn_sig)
    stats[exp] += 1
    if exp != 'ok':
        return

    cl = app.get_local_client()
    del LOG[:]
    resp = cl.get('/x/uval')
    assert resp.status_code == 200, resp.status_code
    assert LOG == exp_log, (LOG, exp_log)
    # the catch-all: 404 and 405 run the application level middlewares
    del LOG[:]
    resp = cl.get('/nowhere/at/all')
    assert resp.status_code == 404, resp.status_code
    called = [e[0] for e in LOG]
    # (the catch-all endpoint returns an HTTPException, itself a response: no render phase)
    want = ['%s.%s' % (m.demo_id, ph) for ph in ('request', 'endpoint')
            for m in app_mws if m.demo_spec.get(ph, (None,))[0] is not None]
    assert called == want, (called, want)


# --------------------------------------------------------------------------
# direct checks of BoundRoute binding (render selection, render_error, chain)
# --------------------------------------------------------------------------

def expect(exc_type, func, *a, **kw):
    try:
        func(*a, **kw)
    except exc_type as e:
        assert type(e) is exc_type, (type(e), exc_type)
        return e
    raise AssertionError('expected %s' % exc_type.__name__)


class Factory(object):
    """A render factory that counts its calls; products take *needs*."""
    def __init__(self, tag, needs=('context',)):
        self.tag = tag
        self.calls = []
        self.needs = tuple(needs)

    def __call__(self, arg):
        self.calls.append(arg)
        tag = self.tag
        env = {'Response': Response, 'tag': tag, 'arg': arg}
        src = ('def render(%s):\n    return Response("%%s|%%s|%%s" %% (tag, arg, context))\n'
               % ', '.join(self.needs))
        exec(src, env)
        env['render'].made_by = self
        return env['render']


def check_binding():
    from clastic.route import BoundRoute, _noop_render
    from clastic.application import SubApplication
    eh = lambda: ErrorHandler(reraise_uncaught=True)

    ctx_ep = lambda: 'CTX'
    resp_ep = lambda: Response('direct')
    my_render = lambda context: Response('mine:%s' % context)

    # 1. explicit callable render wins over any factory
    f1 = Factory('f1')
    app = Application([Route('/', ctx_ep, my_render)], render_factory=f1, error_handler=eh())
    br = app.routes[0]
    assert isinstance(br, BoundRoute)
    assert br.render is my_render and br.render_factory is None and f1.calls == []
    assert br.render_arg is my_render
    assert app.get_local_client().get('/').data == b'mine:CTX'

    # 2. render argument + factory
    app = Application([Route('/', ctx_ep, 'tmpl')], render_factory=f1, error_handler=eh())
    br = app.routes[0]
    assert br.render.made_by is f1 and br.render_factory is f1 and f1.calls == ['tmpl']
    assert app.get_local_client().get('/').data == b'f1|tmpl|CTX'

    # 2b. falsy-but-not-None render arguments still go through the factory
    for arg in ('', 0, ()):
        f = Factory('f')
        app = Application([Route('/', ctx_ep, arg)], render_factory=f, error_handler=eh())
        assert f.calls == [arg] and app.routes[0].render_factory is f

    # 3. render argument, no factory -> pass-through render
    app = Application([Route('/', resp_ep, 'tmpl')], error_handler=eh())
    br = app.routes[0]
    assert br.render is _noop_render and br.render_factory is None
    assert app.get_local_client().get('/').data == b'direct'

    # 3b. a factory that is not callable is ignored
    app = Application([Route('/', resp_ep, 'tmpl')], render_factory='nope', error_handler=eh())
    assert app.routes[0].render is _noop_render and app.routes[0].render_factory is None

    # 4. render None + factory -> the factory is not consulted
    f2 = Factory('f2')
    app = Application([Route('/', resp_ep, None)], render_factory=f2, error_handler=eh())
    br = app.routes[0]
    assert br.render is _noop_render and br.render_factory is None and f2.calls == []
    # the catch-all route is bound the same way
    assert app._null_route.render is _noop_render and app._null_route.render_factory is None

    # 5. embedding: inner factory f_in, outer factory f_out
    def build(outer_factory, rebind):
        f_in = Factory('in')
        inner = Application([Route('/a', ctx_ep, 'T'), Route('/b', ctx_ep, my_render),
                             Route('/c', resp_ep)],
                            render_factory=f_in, error_handler=eh())
        outer = Application([SubApplication('/sub', inner, rebind_render=rebind)],
                            render_factory=outer_factory, error_handler=eh())
        return f_in, inner, outer

    f_out = Factory('out')
    f_in, inner, outer = build(f_out, rebind=True)
    a, b, c = outer.routes
    assert a.render.made_by is f_out and a.render_factory is f_out
    assert f_out.calls == ['T'] and f_in.calls == ['T']
    assert b.render is my_render and b.render_factory is None
    assert c.render is _noop_render and c.render_factory is None
    assert [len(r.bound_apps) for r in outer.routes] == [2, 2, 2]
    cl = outer.get_local_client()
    assert cl.get('/sub/a').data == b'out|T|CTX'
    assert cl.get('/sub/b').data == b'mine:CTX'
    assert cl.get('/sub/c').data == b'direct'
    assert inner.get_local_client().get('/a').data == b'in|T|CTX'

    f_out = Factory('out')
    f_in, inner, outer = build(f_out, rebind=False)
    a, b, c = outer.routes
    assert a.render is inner.routes[0].render and a.render_factory is f_in
    assert f_out.calls == [] and f_in.calls == ['T']
    assert b.render is my_render and b.render_factory is None
    # a pass-through render is always re-bound (nothing to re-bind here, though)
    assert c.render is _noop_render and c.render_factory is None
    assert outer.get_local_client().get('/sub/a').data == b'in|T|CTX'

    # outer has no factory: the innermost usable one is taken again
    f_in, inner, outer = build(None, rebind=True)
    a = outer.routes[0]
    assert a.render.made_by is f_in and a.render_factory is f_in and f_in.calls == ['T', 'T']
    assert a.render is not inner.routes[0].render
    f_in, inner, outer = build(None, rebind=False)
    a = outer.routes[0]
    assert a.render is inner.routes[0].render and a.render_factory is f_in and f_in.calls == ['T']

    # tuple form embeds with the SubApplication default (rebind_render=False) ...
    f_in = Factory('in')
    f_out = Factory('out')
    inner = Application([Route('/a', ctx_ep, 'T')], render_factory=f_in)
    outer = Application([('/sub', inner)], render_factory=f_out, error_handler=eh())
    assert outer.routes[0].render_factory is f_in and f_out.calls == []
    # ... and an explicit keyword to add() overrides it
    outer = Application([], render_factory=f_out, error_handler=eh())
    outer.add(('/sub', inner), rebind_render=True)
    assert outer.routes[0].render_factory is f_out and f_out.calls == ['T']
    # inner without factory bound pass-through; outer factory picks the argument up
    inner = Application([Route('/a', ctx_ep, 'T')])
    assert inner.routes[0].render is _noop_render
    f_out = Factory('out')
    outer = Application([('/sub', inner)], render_factory=f_out, error_handler=eh())
    assert outer.routes[0].render_factory is f_out and f_out.calls == ['T']
    assert outer.get_local_client().get('/sub/a').data == b'out|T|CTX'

    # 6. the product of the factory takes part in the dependency check
    needy = Factory('needy', needs=('context', 'r'))
    expect(NameError, Application, [Route('/', ctx_ep, 'T')], render_factory=needy)
    app = Application([Route('/', ctx_ep, 'T')], {'r': 1}, render_factory=needy, error_handler=eh())
    assert app.get_local_client().get('/').data == b'needy|T|CTX'
    app = Application([Route('/', ctx_ep, 'T', resources={'r': 1})], render_factory=needy,
                      error_handler=eh())
    assert app.get_local_client().get('/').data == b'needy|T|CTX'
    nexty = Factory('nexty', needs=('context', 'next'))
    e = expect(NameError, Application, [Route('/', ctx_ep, 'T')], render_factory=nexty)
    assert "argument 'next' reserved" in str(e), str(e)
    # a factory that blows up: the error passes through untouched
    def boom(arg):
        raise KeyError(arg)
    expect(KeyError, Application, [Route('/', ctx_ep, 'T')], render_factory=boom)

    # 7. unexpected keyword arguments to bind
    app = Application([], error_handler=eh())
    expect(TypeError, app.add, Route('/', resp_ep), bogus=1)
    expect(TypeError, Route('/', resp_ep).bind, app, bogus=1)

    # 8. render_error: taken from the error handler, or kept from the route
    app = Application([Route('/', resp_ep)], error_handler=eh())
    br = app.routes[0]
    # (bound methods are re-created on access: compare the underlying function)
    assert br.render_error.__func__ is ErrorHandler.render_error
    assert br.render_error.__self__ is app.error_handler
    my_re = lambda request, _error, r: Response('re')
    rt = Route('/', resp_ep, render_error=my_re, resources={'r': 1})
    app = Application([], error_handler=eh())
    app.add(rt, rebind_render_error=False)
    assert app.routes[0].render_error is my_re
    app.add(rt)
    assert app.routes[1].render_error.__self__ is app.error_handler
    expect(NameError, Route, '/', resp_ep, render_error=my_re)  # 'r' unknown to the bare route
    # not callable render_error: kept as is, not checked
    rt = Route('/', resp_ep, render_error='nope')
    app = Application([], error_handler=eh())
    app.add(rt, rebind_render_error=False)
    assert app.routes[0].render_error == 'nope'

    # 9. order of the bind-time failures: render_error, then conflicting provides,
    #    then unresolved arguments
    class ProvA(Middleware):
        provides = ('a',)

        def request(self, next):
            return next(a='A')

    class ProvA2(Middleware):
        endpoint_provides = ('a',)

    app = Application([], middlewares=[ProvA()], error_handler=eh())
    bad_handler = eh()
    bad_handler.render_error = lambda request, _error, zzz: None
    app.error_handler = bad_handler
    e = expect(NameError, app.add, Route('/', lambda qqq: None, middlewares=[ProvA2()]))
    assert str(e) == "unresolved render_error() arguments: ['zzz']", str(e)
    app = Application([], middlewares=[ProvA()], error_handler=eh())
    e = expect(NameError, app.add, Route('/', lambda qqq: None, middlewares=[ProvA2()]))
    assert str(e).startswith('found conflicting provides: '), str(e)
    e = expect(NameError, app.add, Route('/', lambda qqq: None))
    assert str(e) == "unresolved endpoint middleware arguments: ['qqq']", str(e)
    e = expect(NameError, app.add, Route('/', lambda a: 'ctx', lambda context, qqq: None))
    assert str(e) == "unresolved render middleware arguments: ['qqq']", str(e)
    e = expect(NameError, app.add, Route('/<a>', lambda a: None))
    assert str(e).startswith("found conflicting provides: [('a', ('url', "), str(e)
    assert app.routes == []

    # 10. what the compiled chain asks for, and the derived requirement list
    class ProvB(Middleware):
        provides = ('b',)

        def request(self, next, a, r):
            return next(b=a + r)

    app = Application([Route('/<u>', lambda b, u, opt='dflt', *, request: Response(b + u + opt))],
                      {'r': 'R'}, [ProvA(), ProvB()], error_handler=eh())
    br = app.routes[0]
    assert sorted(get_arg_names(br._execute)) == ['r', 'request', 'u'], get_arg_names(br._execute)
    assert sorted(br.get_required_args()) == ['a', 'b', 'opt', 'r', 'u'], br.get_required_args()
    assert br.is_required_arg('u') and not br.is_required_arg('request')
    assert app.get_local_client().get('/U').data == b'ARUdflt'
    # optional parameter picked up from a resource
    app = Application([Route('/', lambda opt='dflt': Response(opt))], {'opt': 'given'},
                      error_handler=eh())
    assert sorted(get_arg_names(app.routes[0]._execute)) == ['opt']
    assert app.get_local_client().get('/').data == b'given'
    # every bound route owns a fresh dict of resources; route resources override
    app = Application([Route('/', lambda r: Response(r), resources={'r': 'route'})], {'r': 'app'},
                      error_handler=eh())
    assert app.routes[0].resources == {'r': 'route'} and app.resources == {'r': 'app'}


def check_handwritten():
    eh = lambda: ErrorHandler(reraise_uncaught=True)

    class ProvA(Middleware):
        provides = ('a',)

        def request(self, next):
            return next(a='A')

    # endpoint kinds
    class K(object):
        def m(self, a, u):
            return Response('m:%s:%s' % (a, u))

        def __call__(self, a, r='dflt'):
            return Response('call:%s:%s' % (a, r))

        @staticmethod
        def s(a, *, request):
            return Response('s:%s:%s' % (a, request.path))

        @classmethod
        def c(cls, a, b='B'):
            return Response('c:%s:%s' % (a, b))

    k = K()
    app = Application([('/m/<u>', k.m), ('/call', k), ('/s', K.s), ('/c', K.c),
                       ('/l', lambda a, _route: Response('l:%s' % a))],
                      resources={'r': 'RES'}, middlewares=[ProvA()], error_handler=eh())
    cl = app.get_local_client()
    assert cl.get('/m/7').data == b'm:A:7'
    assert cl.get('/call').data == b'call:A:RES'
    assert cl.get('/s').data == b's:A:/s'
    assert cl.get('/c').data == b'c:A:B'
    assert cl.get('/l').data == b'l:A'
    assert cl.get('/zzz').status_code == 404
    assert cl.post('/zzz').status_code == 404

    # rejection: unknown names, keyword-only required, next in endpoint, context in endpoint
    bad_eps = [lambda zzz: None, lambda a, *, zzz: None, lambda next: None,
               lambda context: None, lambda u: None]
    for ep in bad_eps:
        for build in (lambda: Application([('/', ep)], middlewares=[ProvA()]),
                      lambda: Application([], middlewares=[ProvA()]).add(('/', ep))):
            try:
                build()
            except NameError:
                pass
            else:
                raise AssertionError('expected NameError')
    # ... and accepted when defaulted
    for ep in (lambda zzz=1: Response('k'), lambda a, *, zzz=2: Response('k'),
               lambda u=None: Response('k')):
        app = Application([('/', ep)], middlewares=[ProvA()], error_handler=eh())
        assert app.get_local_client().get('/').data == b'k'

    # app-level middleware that needs a URL binding: the catch-all cannot be bound
    class NeedsU(Middleware):
        def request(self, next, u):
            return next()
    try:
        Application([('/<u>', lambda: Response('x'))], middlewares=[NeedsU()])
    except NameError:
        pass
    else:
        raise AssertionError('expected NameError (catch-all route)')
    app = Application([Route('/<u>', lambda u: Response(u), middlewares=[NeedsU()])],
                      error_handler=eh())
    assert app.get_local_client().get('/q').data == b'q'

    # 405 via the catch-all
    app = Application([POST('/p', lambda: Response('p'))], middlewares=[ProvA()],
                      error_handler=eh())
    assert app.get_local_client().get('/p').status_code == 405
    assert app.get_local_client().post('/p').data == b'p'

    # resource names must not clash with builtins
    for n in RESERVED_ARGS:
        try:
            Application([], resources={n: 1})
        except NameError:
            pass
        else:
            raise AssertionError('expected NameError')


def main():
    check_binding()
    check_handwritten()
    rng = random.Random(20261004)
    stats = {'ok': 0, 'NameError': 0, 'cycle': 0}
    for i in range(700):
        run_config(rng, stats)
    assert stats['ok'] >= 100, stats
    assert stats['NameError'] >= 100, stats
    print('configs: %r' % (stats,))
    print('PASS')


if __name__ == '__main__':
    main()
    sys.exit(0)
