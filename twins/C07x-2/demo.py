# -*- coding: utf-8 -*-
"""C07 demo: trailing-slash redirects lead to the same resource in one hop.

Standalone; prints PASS and exits 0 when the property holds.
"""
import sys
from urllib.parse import urlsplit, unquote_to_bytes, quote

from werkzeug.test import EnvironBuilder
from werkzeug.urls import iri_to_uri, url_join
from werkzeug.wrappers import Response

import clastic
from clastic import Application, Route, SubApplication
from clastic import S_REDIRECT, S_REWRITE, S_STRICT
from clastic.route import (normalize_path, NullRoute, BoundRoute,
                           S_REDIRECT as R_RED, S_REWRITE as R_REW, S_STRICT as R_STR)
from clastic import application as app_mod

MODES = (S_REDIRECT, S_REWRITE, S_STRICT)
CHECKS = [0]


def check(cond, msg):
    CHECKS[0] += 1
    if not cond:
        print('FAIL: ' + msg)
        sys.exit(1)


# ---- endpoints -----------------------------------------------------------
def ep_static(request):
    return Response('static|' + request.query_string.decode('latin1'))


def ep_leaf(request):
    return Response('leaf|' + request.query_string.decode('latin1'))


def ep_single(name, request):
    return Response('single|%r|%s' % (name, request.query_string.decode('latin1')))


def ep_multi(parts, request):
    return Response('multi|%r|%s' % (parts, request.query_string.decode('latin1')))


def ep_post(request):
    return Response('post|' + request.method)


def make_routes(**kw):
    return [Route('/a/b/', ep_static, **kw),
            Route('/leaf', ep_leaf, **kw),
            Route('/item/<name>/', ep_single, **kw),
            Route('/multi/<parts+>/', ep_multi, **kw),
            Route('/onlypost/', ep_post, methods=['POST'], **kw)]


def call(app, path, query=b'', method='GET'):
    """path: decoded text path; query: raw bytes."""
    environ = EnvironBuilder(method=method).get_environ()
    environ['PATH_INFO'] = path.encode('utf8').decode('latin1')
    environ['QUERY_STRING'] = query.decode('latin1')
    return Response.from_app(app, environ)


def follow(app, location, method='GET'):
    parts = urlsplit(location)
    environ = EnvironBuilder(method=method).get_environ()
    environ['PATH_INFO'] = unquote_to_bytes(parts.path).decode('latin1')
    environ['QUERY_STRING'] = parts.query
    if parts.fragment:
        return None, parts
    return Response.from_app(app, environ), parts


SEGMENTS = ['x', 'a?b', 'a#b', 'a%b', '%41', 'a b', 'a;b', 'a&b', 'a=b',
            u'caf\xe9', u'中文', '+', "it's", '~', '()', 'a:b@c', '0']
QUERIES = [b'', b'q=1', b'a=1&a=2&b', b'x=%41%2F&y=a+b', b'?', b'a=%23',
           u'k=\xe9'.encode('utf8'), b'\xff=\xfe', b'=', b'&&', b'q=a%20b;c']


def expected_location(canon, query):
    try:
        q = query.decode('utf8')
    except UnicodeDecodeError:
        q = quote(query, safe=":/?#[]@!$&'()*+,;=%")
    # werkzeug's redirect() passes the URL through iri_to_uri
    # and the response joins it with the current URL when headers are emitted
    return url_join('http://localhost/', iri_to_uri(
        'http://localhost' + quote(canon, safe='/:') + '?' + q, safe_conversion=True))


def check_redirect(app, path, canon, query, method='GET', follow_body=None):
    resp = call(app, path, query, method)
    ctx = '%r %r %r' % (path, query, method)
    check(300 <= resp.status_code < 400, 'expected 30x for ' + ctx + ' got %s' % resp.status_code)
    loc = resp.headers['Location']
    check(loc == expected_location(canon, query),
          'Location %r != %r for %s' % (loc, expected_location(canon, query), ctx))
    resp2, parts = follow(app, loc, method)
    check(resp2 is not None, 'fragment in Location for ' + ctx)
    check(unquote_to_bytes(parts.path).decode('utf8') == canon, 'path mismatch ' + ctx)
    check(resp2.status_code == 200, 'second hop %s for %s' % (resp2.status_code, ctx))
    check('Location' not in resp2.headers, 'second redirect for ' + ctx)
    if follow_body is not None:
        body = resp2.get_data().decode('utf8')
        if max(query or b'\0') > 127:
            # non-ASCII query bytes come back percent-encoded: same bytes
            head, _, tail = body.rpartition('|')
            body = head + '|' + unquote_to_bytes(tail.encode('latin1')).decode('latin1')
            head, _, tail = follow_body.rpartition('|')
            follow_body = head + '|' + unquote_to_bytes(tail.encode('latin1')).decode('latin1')
        check(body == follow_body, 'body %r != %r for %s' % (body, follow_body, ctx))
    # and the rewrite twin gives the very same body directly
    return resp


def check_compile():
    """Pattern compilation: regex text, converters and error messages."""
    from clastic.route import _compile_path_pattern, InvalidPattern
    want = {
        ('/a/b/', 'strict'): '^/a/b/$',
        ('/a/b/', 'redirect'): '^/+a/+b/*$',
        ('/a/b/', 'rewrite'): '^/+a/+b/*$',
        ('/leaf', 'strict'): '^/leaf$',
        ('/leaf', 'redirect'): '^/+leaf/*$',
        ('/', 'strict'): '^/$',
        ('/', 'rewrite'): '^/*$',
        ('/item/<name>/', 'strict'): '^/item(?P<name>(/[^/]+))/$',
        ('/item/<name>/', 'redirect'): '^/+item(?P<name>(/+[^/]+))/*$',
        ('/m/<parts+int>/', 'redirect'): r'^/+m(?P<parts>(/+[+-]?\ *[0-9]+)+)/*$',
        ('/m/<a?>/<b*float>', 'strict'):
            r'^/m(?P<a>(/[^/]+)?)(?P<b>(/[+-]?\ *(\d+(\.\d*)?|\.\d+)([eE][+-]?\d+)?)*)$',
        ('/x/<n:int>', 'rewrite'): r'^/+x(?P<n>(/+[+-]?\ *[0-9]+))/*$',
    }
    for (patt, mode), src in sorted(want.items()):
        regex, convs = _compile_path_pattern(patt, mode)
        check(regex.pattern == src, 'regex for %r %s: %r' % (patt, mode, regex.pattern))
        check(_compile_path_pattern(patt, mode=mode)[0].pattern == src, 'mode keyword')
    check(_compile_path_pattern('/a/')[0].pattern == '^/+a/*$', 'default mode is rewrite')
    regex, convs = _compile_path_pattern('/m/<a?>/<b*float>/<c+int>/<d>', 'redirect')
    check(list(convs) == ['a', 'b', 'c', 'd'], 'converter order')
    check(convs['a']('') is None and convs['a']('/x') == 'x', 'optional single')
    check(convs['b']('') == [] and convs['b']('/1/2.5') == [1.0, 2.5], 'optional multi')
    check(convs['c']('/1/2') == [1, 2] and convs['d']('/q') == 'q', 'multi / single')
    errors = {
        'a/': "URL path patterns must start with a forward slash (got 'a/')",
        '': "URL path patterns must start with a forward slash (got '')",
        '/a//b': "URL path patterns must not contain multiplecontiguous slashes (got '/a//b')",
        '/<a>/<a>': 'duplicate path binding a',
        '/<a:nope>': 'unknown type specifier nope',
        '/<a!int>': "unknown arity operator '!', expected one of dict_keys(['', '?', ':', '+', '*'])",
    }
    for patt, msg in sorted(errors.items()):
        for mode in MODES:
            try:
                _compile_path_pattern(patt, mode)
            except InvalidPattern as e:
                check(str(e) == msg, 'message for %r: %r' % (patt, str(e)))
            else:
                check(False, 'no InvalidPattern for %r' % patt)
    for mode in MODES:
        try:
            Route('/<a>/<a>/', ep_static, slash_mode=mode)
        except InvalidPattern:
            check(True, '')
        else:
            check(False, 'Route accepted a duplicate binding')


def main():
    check_compile()
    # -- the pure path function: canonical form is a fixed point
    for p, br, want in [('', True, '/'), ('', False, '/'), ('/', True, '/'), ('////', False, '/'),
                        ('a', True, '/a/'), ('a', False, '/a'), ('//a//b//', True, '/a/b/'),
                        ('//a//b//', False, '/a/b'), ('/a/b', True, '/a/b/'), ('/a?b/#', True, '/a?b/#/'),
                        (u'/caf\xe9//', 0, u'/caf\xe9'), (u'/caf\xe9//', 1, u'/caf\xe9/'),
                        ('/0/', True, '/0/'), ('/ /', True, '/ /')]:
        got = normalize_path(p, br)
        check(got == want, 'normalize_path(%r, %r) = %r' % (p, br, got))
        check(normalize_path(got, br) == got, 'not a fixed point: %r' % got)
        check(type(got) is str, 'type')

    # -- public names keep working
    check((R_RED, R_REW, R_STR) == ('redirect', 'rewrite', 'strict'), 'constants')
    check((S_REDIRECT, S_REWRITE, S_STRICT) == (R_RED, R_REW, R_STR), 'constants 2')
    check(clastic.route.S_REDIRECT is clastic.S_REDIRECT, 'identity')
    check(app_mod.S_STRICT == 'strict' and app_mod.S_REDIRECT == 'redirect', 'app constants')
    check(app_mod.normalize_path is normalize_path, 'normalize_path import path')
    check(app_mod._QUERY_SAFE == ":/?#[]@!$&'()*+,;=%", '_QUERY_SAFE')

    apps = dict((m, Application(make_routes(), slash_mode=m)) for m in MODES)
    red, rew, strict = apps[S_REDIRECT], apps[S_REWRITE], apps[S_STRICT]

    # -- slash mode resolution at bind time
    for m in MODES:
        for br in apps[m].routes:
            check(br.slash_mode == m, 'inherited mode')
        check(apps[m]._null_route.slash_mode == S_REWRITE, 'null route is rewrite')
        check(isinstance(apps[m]._null_route, BoundRoute), 'null route bound')
    nr = NullRoute()
    for m in MODES:
        check(nr.bind(apps[m]).slash_mode == S_REWRITE, 'NullRoute.bind')
        check(nr.bind(apps[m], inherit_slashes=True).slash_mode == S_REWRITE, 'NullRoute.bind forced')
    for rm in MODES:
        for am in MODES:
            r = Route('/r/', ep_static, slash_mode=rm)
            check(r.bind(apps[am]).slash_mode == am, 'inherit default')
            check(r.bind(apps[am], inherit_slashes=True).slash_mode == am, 'inherit True')
            check(r.bind(apps[am], inherit_slashes=False).slash_mode == rm, 'inherit False')
            check(r.bind(apps[am], inherit_slashes=0).slash_mode == rm, 'inherit 0')
            check(r.bind(apps[am], inherit_slashes='no').slash_mode == am, 'inherit truthy')
            # rebinding a bound route
            b2 = r.bind(apps[am], inherit_slashes=False).bind(apps[rm], inherit_slashes=False)
            check(b2.slash_mode == rm, 'rebinding keeps')
    try:
        Route('/r/', ep_static).bind(red, bogus=1)
    except TypeError as e:
        check('unexpected keyword args' in str(e), 'TypeError message')
    else:
        check(False, 'no TypeError')

    # -- static branch: non-canonical spellings
    for query in QUERIES:
        qtxt = query.decode('latin1')
        for path in ['/a/b', '//a/b', '/a//b', '/a/b//', '///a///b///']:
            check_redirect(red, path, '/a/b/', query, follow_body='static|' + qtxt)
            r = call(rew, path, query)
            check(r.status_code == 200 and r.get_data().decode('utf8') == 'static|' + qtxt, 'rewrite static')
            check('Location' not in r.headers, 'rewrite no Location')
            r = call(strict, path, query)
            check(r.status_code == 404 and 'Location' not in r.headers, 'strict 404 %r' % path)
        for m in MODES:  # canonical: never redirected
            r = call(apps[m], '/a/b/', query)
            check(r.status_code == 200 and 'Location' not in r.headers, 'canonical 200')

    # -- single binding with URL-significant characters
    for seg in SEGMENTS:
        for query in QUERIES:
            qtxt = query.decode('latin1')
            body = 'single|%r|%s' % (seg, qtxt)
            canon = '/item/' + seg + '/'
            for path in ['/item/' + seg, '//item//' + seg + '//', '/item//' + seg + '/']:
                check_redirect(red, path, canon, query, follow_body=body)
                r = call(rew, path, query)
                check(r.status_code == 200 and r.get_data().decode('utf8') == body, 'rewrite single')
                check(call(strict, path, query).status_code == 404, 'strict single')
            for m in MODES:
                r = call(apps[m], canon, query)
                check(r.status_code == 200 and 'Location' not in r.headers
                      and r.get_data().decode('utf8') == body, 'canonical single')

    # -- multi binding
    for segs in [['x'], ['a?b', 'c#d'], [u'caf\xe9', '%41', 'a b'], ['a;b', 'a&b', 'a=b', '%']]:
        canon = '/multi/' + '/'.join(segs) + '/'
        for query in QUERIES[:6]:
            body = 'multi|%r|%s' % (segs, query.decode('latin1'))
            for path in ['/multi/' + '/'.join(segs), '/multi//' + '//'.join(segs) + '//']:
                check_redirect(red, path, canon, query, follow_body=body)
                r = call(rew, path, query)
                # (with repeated slashes rewrite mode keeps empty items: only the status)
                check(r.status_code == 200 and 'Location' not in r.headers and
                      ('//' in path or r.get_data().decode('utf8') == body), 'rewrite multi')
                check(call(strict, path, query).status_code == 404, 'strict multi')
            r = call(red, canon, query)
            check(r.status_code == 200 and 'Location' not in r.headers, 'canonical multi')

    # -- leaf routes never redirect
    for m in MODES:
        check(call(apps[m], '/leaf', b'q=1').status_code == 200, 'leaf')
    for path in ['/leaf/', '//leaf', '/leaf//']:
        for m in (S_REDIRECT, S_REWRITE):
            r = call(apps[m], path, b'q=1')
            check(r.status_code == 200 and 'Location' not in r.headers and
                  r.get_data() == b'leaf|q=1', 'leaf %r %s' % (path, m))
        # (werkzeug itself collapses leading slashes of PATH_INFO)
        check(call(strict, path).status_code == (200 if path == '//leaf' else 404), 'leaf strict')

    # -- methods: redirect only for admitted methods
    for method in ['GET', 'HEAD', 'PUT', 'DELETE', 'OPTIONS', 'PATCH', 'TRACE']:
        for path in ['/onlypost', '//onlypost/', '/onlypost/']:
            for m in MODES:
                r = call(apps[m], path, b'q=1', method)
                want = 404 if (m == S_STRICT and path == '/onlypost') else 405
                check(r.status_code == want and 'Location' not in r.headers,
                      '%s %s %s -> %s' % (method, path, m, r.status_code))
    check_redirect(red, '/onlypost', '/onlypost/', b'q=1', 'POST', follow_body='post|POST')
    check_redirect(red, '//onlypost//', '/onlypost/', b'', 'post', follow_body='post|POST')
    check(call(rew, '/onlypost', b'', 'POST').get_data() == b'post|POST', 'rewrite post')
    check(call(strict, '/onlypost', b'', 'POST').status_code == 404, 'strict post')
    for method in ['GET', 'POST', 'PUT', 'DELETE', 'PATCH', 'OPTIONS']:
        check_redirect(red, '/a//b', '/a/b/', b'z=1', method)
    r = call(red, '/a//b', b'z=1', 'HEAD')
    check(300 <= r.status_code < 400 and r.headers['Location'] == 'http://localhost/a/b/?z=1', 'HEAD')

    # -- route-level modes, not inherited vs inherited through embedding
    for rm in MODES:
        for am in MODES:
            sub = Application(make_routes(slash_mode=rm), slash_mode=rm)
            for inherit in (True, False):
                outer = Application([], slash_mode=am)
                outer.add(SubApplication('/sub', sub), inherit_slashes=inherit)
                eff = am if inherit else rm
                r = call(outer, '/sub//item/a%3Fb'.replace('%3F', '?'), b'q=%41')
                if eff == S_REDIRECT:
                    check_redirect(outer, '/sub//item/a?b', '/sub/item/a?b/', b'q=%41',
                                   follow_body="single|'a?b'|q=%41")
                elif eff == S_REWRITE:
                    check(r.status_code == 200 and r.get_data() == b"single|'a?b'|q=%41"
                          and 'Location' not in r.headers, 'embedded rewrite')
                else:
                    check(r.status_code == 404 and 'Location' not in r.headers, 'embedded strict')
                r = call(outer, '/sub/item/a?b/', b'q=%41')
                check(r.status_code == 200 and 'Location' not in r.headers, 'embedded canonical')
            # route-level, added directly without inheriting
            direct = Application([], slash_mode=am)
            direct.add(Route('/d/<name>/', ep_single, slash_mode=rm), inherit_slashes=False)
            r = call(direct, '/d/x#y', b'')
            if rm == S_REDIRECT:
                check(r.headers.get('Location') == 'http://localhost/d/x%23y/', 'direct redirect')
            elif rm == S_REWRITE:
                check(r.status_code == 200 and 'Location' not in r.headers, 'direct rewrite')
            else:
                check(r.status_code == 404 and 'Location' not in r.headers, 'direct strict')

    # -- strict falls through to a later matching route; exceptions are recorded
    def ep_other(request):
        return Response('other')
    mixed = Application([], slash_mode=S_REWRITE)
    mixed.add(Route('/m/', ep_static, slash_mode=S_STRICT), inherit_slashes=False)
    mixed.add(Route('/m', ep_other, slash_mode=S_REWRITE), inherit_slashes=False)
    check(call(mixed, '/m').get_data() == b'other', 'strict then leaf')
    check(call(mixed, '/m/').get_data() == b'static|', 'strict canonical')

    # -- unmatched paths: plain 404, no Location, in every mode
    for m in MODES:
        for path in ['/nope', '/nope/', '//nope//', '/a', '/item/', '/']:
            r = call(apps[m], path, b'q=1')
            check(r.status_code == 404 and 'Location' not in r.headers, 'unmatched %r %s' % (path, m))

    # -- script root is kept
    environ = EnvironBuilder(method='GET', base_url='http://example.org:8080/root/').get_environ()
    environ['PATH_INFO'] = '/item//a?b'
    environ['QUERY_STRING'] = 'q=1'
    r = Response.from_app(red, environ)
    check(r.headers['Location'] == 'http://example.org:8080/root/item/a%3Fb/?q=1', 'script root: %r' % r.headers.get('Location'))

    print('PASS (%d checks)' % CHECKS[0])


if __name__ == '__main__':
    main()
