# -*- coding: utf-8 -*-
"""demo2: behaviours x middleware positions x error handlers -- every request
gets a complete response; what the error handler and the error renderer are
handed (and what the 500 says) is pinned down.  Prints PASS and exits 0."""
import os
import sys
import json
import warnings

warnings.simplefilter('ignore')
sys.path.insert(0, os.path.dirname(os.path.abspath(__file__)))

from werkzeug.wrappers import Response, BaseResponse

import clastic
from clastic import Application, Route, GET, POST, Middleware, render_basic
from clastic import errors
from clastic.errors import (HTTPException, InternalServerError, NotFound,
                            ErrorHandler, ContextualErrorHandler,
                            ContextualInternalServerError)

assert os.path.dirname(os.path.abspath(clastic.__file__)).startswith(
    os.path.dirname(os.path.abspath(__file__)))


def call(app, path='/', method='GET', headers=None):
    resp = app.get_local_client().open(path, method=method, headers=headers or {})
    body = resp.get_data()
    assert isinstance(body, bytes)
    assert resp.status_code == int(resp.status.split()[0])
    return resp.status_code, resp.headers.get('Content-Type'), body


# ------------------------------------------------- 1. the exception classes
EXC_TYPES = [getattr(errors, n) for n in errors.__all__]
for exc_type in EXC_TYPES:
    e = exc_type()
    assert isinstance(e, BaseResponse) and isinstance(e, Exception)
    assert e.status_code == exc_type.code
    assert e.headers['Content-Type'] == 'text/plain; charset=utf-8'
    assert e.data == e.to_text().encode('utf-8')
    assert e.is_breaking is True and e.source_route is None and e.error_type is None
    e = exc_type(detail='d', code=499, message='m', error_type='et', is_breaking=False,
                 source_route='sr', headers={'X-A': 'b'}, mimetype='application/json',
                 content_type=None)
    assert (e.detail, e.code, e.message, e.error_type, e.is_breaking, e.source_route) == \
        ('d', 499, 'm', 'et', False, 'sr')
    assert e.status_code == 499 and e.headers['X-A'] == 'b'
    assert e.headers['Content-Type'] == 'application/json'
    d = json.loads(e.data.decode('utf-8'))
    assert (d['detail'], d['code'], d['message'], d['error_type']) == ('d', 499, 'm', 'et')
    # WSGI-callable like any response
    seen = []
    body = b''.join(e({'REQUEST_METHOD': 'GET'}, lambda s, h, exc=None: seen.append((s, h))))
    assert seen[0][0].startswith('499') and body == e.data

# InternalServerError / ContextualInternalServerError specifics
class FakeExcInfo(object):
    exc_type = 'ValueError'
    def to_dict(self):
        return {'exc_type': 'ValueError', 'exc_msg': 'x'}

ise = InternalServerError('det', exc_info=FakeExcInfo())
assert ise.error_type == errors.STDLIB_EXC_URL + 'ValueError'
assert ise.to_dict() == {'detail': 'det', 'message': 'Internal server error', 'code': 500,
                         'error_type': ise.error_type,
                         'exc_info': {'exc_type': 'ValueError', 'exc_msg': 'x'}}
ise = InternalServerError()
assert ise.error_type is None and ise.exc_info is None and ise.to_dict()['exc_info'] is None
assert ise.detail == InternalServerError.detail
ise = InternalServerError(error_type='mine', exc_info=FakeExcInfo())
assert ise.error_type == 'mine'
try:
    InternalServerError('x', 'y')
except TypeError:
    pass
else:
    raise AssertionError('positional extra must be a TypeError')
assert InternalServerError(bogus=1).status_code == 500   # unknown kwargs are ignored

cise = ContextualInternalServerError('det', request='REQ', hide_internal_frames=False)
assert cise.request == 'REQ' and cise.hide_internal_frames is False
assert cise.to_dict() == {'detail': 'det', 'message': 'Internal server error', 'code': 500,
                          'error_type': None}
assert ContextualInternalServerError('det', request=None).request is None

# subclasses (cooperative __init__ / to_dict chain still reaches the bases)
class MyISE(ContextualInternalServerError):
    def __init__(self, *a, **kw):
        self.marker = kw.pop('marker', 'dflt')
        kw.pop('request', None)
        super(MyISE, self).__init__(*a, **kw)

    def to_dict(self, *a, **kw):
        ret = super(MyISE, self).to_dict(*a, **kw)
        ret['marker'] = self.marker
        return ret

m = MyISE('zz', marker='M', exc_info=None)
assert m.to_dict() == {'detail': 'zz', 'message': 'Internal server error', 'code': 500,
                       'error_type': None, 'marker': 'M'}
assert m.status_code == 500 and b'zz' in m.data


# ---------------------------- 2. behaviours x positions x handlers, via WSGI
class Unprintable(Exception):
    def __str__(self):
        raise RuntimeError('no str')
    __repr__ = __str__


RAISED = [ValueError(u'v\xe4l \udcfe'), KeyError('k'), TypeError(), RuntimeError('x' * 100000),
          ZeroDivisionError('z'), AttributeError('a'), IndexError(1), OSError(2, 'os'),
          UnicodeDecodeError('utf8', b'\xff', 0, 1, 'bad'), LookupError(), StopIteration('s'),
          AssertionError(''), NotImplementedError(), MemoryError(), RecursionError('r'),
          Unprintable()]
RETURNED = [None, 0, 1.5, '', 'text', b'bytes', (), [1], {'a': 1}, object, Exception('returned')]
HTTP_EXCS = [lambda: t() for t in EXC_TYPES] + [lambda: NotFound(is_breaking=False)]


class Behaviour(object):
    """What the (possibly failing) function does when invoked."""
    def __init__(self, kind, payload):
        self.kind, self.payload = kind, payload

    def act(self):
        if self.kind == 'raise':
            raise self.payload
        if self.kind == 'return':
            return self.payload
        if self.kind == 'http_raise':
            raise self.payload()
        if self.kind == 'http_return':
            return self.payload()
        raise AssertionError(self.kind)

    def expected_status(self):
        if self.kind in ('raise', 'return'):
            return 500
        return self.payload().status_code


CURRENT = {}


def make_mw(name, where):
    """A middleware that misbehaves in `where` in {'request','endpoint','render'} iff
    CURRENT['pos'] == (name, where), else passes through."""
    def hook(next):
        if CURRENT.get('pos') == (name, where):
            return CURRENT['beh'].act()
        return next()
    cls = type('MW_%s_%s' % (name, where), (Middleware,), {where: staticmethod(hook)})
    # Middleware methods are looked up on the instance; staticmethod keeps `next` first
    return cls()


def endpoint():
    if CURRENT.get('pos') == ('endpoint', None):
        return CURRENT['beh'].act()
    return {'ok': True}


def render(context):
    if CURRENT.get('pos') == ('render', None):
        return CURRENT['beh'].act()
    return Response('rendered')


MWS = [make_mw('a', 'request'), make_mw('b', 'endpoint'), make_mw('c', 'render'),
       make_mw('d', 'request')]
POSITIONS = [('a', 'request'), ('b', 'endpoint'), ('c', 'render'), ('d', 'request'),
             ('endpoint', None), ('render', None)]


class RecordingHandler(ErrorHandler):
    calls = []

    def uncaught_to_response(self, _application, _route, **kwargs):
        RecordingHandler.calls.append((_application, _route, kwargs))
        return super(RecordingHandler, self).uncaught_to_response(_application, _route, **kwargs)


class BrokenRender(ErrorHandler):
    def render_error(self, request, _error):
        raise ValueError('broken renderer')


class SwappingRender(ErrorHandler):
    def render_error(self, request, _error, _route, res):
        assert res == 'RES' and _route is _error.source_route
        return errors.BadGateway('swapped')


def build(handler):
    return Application([Route('/x/<num:int>', endpoint, render, middlewares=MWS),
                        ('/fine', lambda: Response('fine'))],
                       resources={'res': 'RES'}, error_handler=handler)


def handlers():
    return [None, ErrorHandler(), ContextualErrorHandler(), RecordingHandler(),
            BrokenRender(), SwappingRender(), ErrorHandler(reraise_uncaught=True)]


behaviours = ([Behaviour('raise', e) for e in RAISED]
              + [Behaviour('return', v) for v in RETURNED]
              + [Behaviour('http_raise', f) for f in HTTP_EXCS]
              + [Behaviour('http_return', f) for f in HTTP_EXCS])

n_checked = 0
for handler in handlers():
    app = build(handler)
    reraising = getattr(handler, 'reraise_uncaught', False)
    for beh in behaviours:
        for pos in POSITIONS:
            if beh.kind == 'return' and pos[1] in ('request', 'endpoint') and pos[0] != 'endpoint':
                # a middleware may legitimately return any context from request()/endpoint();
                # only non-Response *final* results are failures -> keep to the end positions
                continue
            if beh.kind == 'return' and pos == ('endpoint', None):
                continue   # a non-Response endpoint result is simply rendered
            CURRENT.update(pos=pos, beh=beh)
            del RecordingHandler.calls[:]
            accept = ['text/html', 'application/json', 'text/plain', 'application/xml', 'x/y'][n_checked % 5]
            try:
                status, ctype, body = call(app, '/x/7', headers={'Accept': accept})
            except Exception as exc:
                assert reraising and beh.kind in ('raise', 'return'), (pos, beh.kind, beh.payload, exc)
                if beh.kind == 'raise':
                    assert exc is beh.payload          # the original exception
                else:
                    assert type(exc) is TypeError
                    assert exc.args == ('expected Response, received %r' % type(beh.payload),)
            else:
                assert not (reraising and beh.kind in ('raise', 'return'))
                exp = beh.expected_status()
                if isinstance(handler, SwappingRender) and exp >= 400:
                    assert status == 502 and b'swapped' in body
                elif beh.kind == 'http_raise' and not beh.payload().is_breaking:
                    assert status == 404
                elif beh.kind == 'http_return' and not beh.payload().is_breaking:
                    assert status == 404
                else:
                    assert status == exp, (pos, beh.kind, beh.payload, status)
                if status >= 400:
                    assert ctype.split(';')[0] in ('text/html', 'application/json',
                                                   'text/plain', 'application/xml')
                if beh.kind == 'return' and not isinstance(handler, SwappingRender):
                    assert b'expected Response, received' in body
                    assert b'TypeError' in body
                if isinstance(handler, RecordingHandler) and beh.kind in ('raise', 'return'):
                    (a, r, kw), = RecordingHandler.calls
                    assert a is app and r is app.routes[0]
                    assert sorted(kw) == ['_dispatch_state', '_error', 'num', 'request', 'res']
                    assert kw['num'] == 7 and kw['res'] == 'RES'
                    if beh.kind == 'raise':
                        assert kw['_error'] is beh.payload
                    else:
                        assert type(kw['_error']) is TypeError
                        assert kw['_error'].args == \
                            ('expected Response, received %r' % type(beh.payload),)
                elif isinstance(handler, RecordingHandler):
                    assert RecordingHandler.calls == []
            finally:
                CURRENT.clear()
            # the application serves the next request unchanged
            assert call(app, '/fine') == (200, 'text/plain; charset=utf-8', b'fine')
            assert call(app, '/x/7')[::2] == (200, b'rendered')
            n_checked += 1
assert n_checked > 3000, n_checked

# 3. what the contextual 500 carries
app = build(ContextualErrorHandler())
CURRENT.update(pos=('endpoint', None), beh=Behaviour('raise', ValueError('ctx-boom')))
status, ctype, body = call(app, '/x/7', headers={'Accept': 'application/json'})
CURRENT.clear()
assert status == 500 and ctype == 'application/json'
doc = json.loads(body.decode('utf-8'))
assert doc['code'] == 500 and doc['exc_type'] == 'ValueError' and doc['exc_value'] == 'ctx-boom'
assert doc['req']['path'] == '/x/7' and doc['req']['method'] == 'GET'
assert 'exc_info' not in doc and doc['error_type'].endswith('#exceptions.ValueError')
assert doc['exc_tb']['frames'][-1]['func_name'] == 'act'

app = build(None)
CURRENT.update(pos=('render', None), beh=Behaviour('return', 12))
status, ctype, body = call(app, '/x/7', headers={'Accept': 'application/json'})
CURRENT.clear()
doc = json.loads(body.decode('utf-8'))
assert status == 500 and doc['exc_info']['exc_type'] == 'TypeError'
assert doc['exc_info']['exc_msg'] == "expected Response, received <class 'int'>"
assert doc['error_type'].endswith('#exceptions.TypeError')

print('PASS')
