# -*- coding: utf-8 -*-
"""demo1: slash redirects are issued only for methods the route admits.

Exercises BoundRoute.match_method and the method check in
Application.dispatch, together with the one-hop redirect property.
"""
from __future__ import print_function

import warnings
warnings.simplefilter('ignore')

from urllib.parse import urlsplit, unquote_to_bytes, quote

from werkzeug.test import EnvironBuilder
from werkzeug.wrappers import Response

from clastic import Application, Route, S_REDIRECT, S_REWRITE, S_STRICT
from clastic.route import HTTP_METHODS

ALL_METHODS = sorted(HTTP_METHODS)


def ep(request, **kw):
    return Response(repr((request.path, request.query_string,
                          sorted(request.path_params.items()))))


def ep_name(request, name):
    return Response(repr((request.path, request.query_string, name)))


def ep_parts(request, parts):
    return Response(repr((request.path, request.query_string, parts)))


def call(app, path, query=b'', method='GET'):
    """path is the *decoded* text path; query raw bytes."""
    env = EnvironBuilder(path='/', method=method).get_environ()
    env['PATH_INFO'] = path.encode('utf8').decode('latin1')
    env['QUERY_STRING'] = query.decode('latin1')
    return app.get_local_client().open(env)


def follow(app, location, method='GET'):
    parts = urlsplit(location)
    assert parts.scheme == 'http' and parts.netloc == 'localhost', location
    assert parts.fragment == '', location
    path = unquote_to_bytes(parts.path).decode('utf8')
    query = parts.query.encode('latin1')
    return path, query, call(app, path, query, method)


def make_routes():
    return [Route('/any/', ep),
            Route('/get/', ep, methods=['GET']),
            Route('/post/', ep, methods=['post']),
            Route('/putdel/<name>/', ep_name, methods=['PUT', 'DELETE']),
            Route('/multi/<parts+>/', ep_parts, methods=['PATCH']),
            Route('/empty/', ep, methods=[]),
            Route('/leaf', ep, methods=['GET'])]


ADMITTED = {'/any/': set(ALL_METHODS),
            '/get/': {'GET', 'HEAD'},
            '/post/': {'POST'},
            '/putdel/<name>/': {'PUT', 'DELETE'},
            '/multi/<parts+>/': {'PATCH'},
            '/empty/': set(ALL_METHODS),
            '/leaf': {'GET', 'HEAD'}}

# pattern -> (non-canonical decoded path, canonical decoded path)
PATHS = {'/any/': [('/any', '/any/'), ('//any//', '/any/'), ('/any///', '/any/')],
         '/get/': [('/get', '/get/'), ('///get', '/get/')],
         '/post/': [('/post', '/post/'), ('/post//', '/post/')],
         '/putdel/<name>/': [('/putdel/a?b#c', '/putdel/a?b#c/'),
                             ('/putdel//%41 ;&=', '/putdel/%41 ;&=/'),
                             (u'//putdel/\xe9€%//', u'/putdel/\xe9€%/')],
         '/multi/<parts+>/': [('/multi/a//b?/c#', '/multi/a/b?/c#/'),
                              ('/multi/x', '/multi/x/')],
         '/empty/': [('/empty', '/empty/')]}

QUERIES = [b'', b'a=1&b=2', b'x=%3F%23&y=a+b', b'?&=;/:@', b'\xff\xfe=\x80', u'k=\xe9'.encode('utf8')]


def check_match_method_unit():
    app = Application(make_routes())
    by_pattern = dict((r.pattern, r) for r in app.routes)
    for pattern, admitted in ADMITTED.items():
        br = by_pattern[pattern]
        for m in ALL_METHODS:
            for spelled in (m, m.lower(), m.title()):
                res = br.match_method(spelled)
                assert res is (m in admitted), (pattern, spelled, res)
        # a missing / empty method always matches
        for nothing in ('', None, 0):
            assert br.match_method(nothing) is True, (pattern, nothing)
        # unknown method names
        res = br.match_method('BREW')
        assert res is (not br.methods), (pattern, res)
    # the null route admits everything
    for m in ALL_METHODS + ['BREW', '', None]:
        assert app._null_route.match_method(m) is True


def check_redirect_mode():
    app = Application(make_routes(), slash_mode=S_REDIRECT)
    n = 0
    for pattern, cases in PATHS.items():
        admitted = ADMITTED[pattern]
        for raw, canon in cases:
            for query in QUERIES:
                for m in ALL_METHODS:
                    resp = call(app, raw, query, m)
                    if m not in admitted:
                        assert resp.status_code == 405, (raw, m, resp.status_code)
                        assert 'Location' not in resp.headers
                        allow = set(resp.headers['Allow'].replace(' ', '').split(','))
                        assert allow == admitted, (raw, m, allow)
                        continue
                    assert resp.status_code == 302, (raw, m, resp.status_code)
                    loc = resp.headers['Location']
                    path2, query2, resp2 = follow(app, loc, m)
                    assert path2 == canon, (raw, loc, path2)
                    try:
                        query.decode('utf8')
                    except UnicodeDecodeError:
                        assert unquote_to_bytes(query2) == unquote_to_bytes(query)
                    else:
                        assert unquote_to_bytes(query2) == unquote_to_bytes(query), (query, query2)
                    # one hop only
                    assert resp2.status_code == 200, (raw, loc, resp2.status_code)
                    assert 'Location' not in resp2.headers
                    if m != 'HEAD':
                        seen = eval(resp2.get_data(as_text=True))
                        assert seen[0] == canon, (seen, canon)
                    # canonical path is never redirected
                    resp3 = call(app, canon, query, m)
                    assert resp3.status_code == 200 and 'Location' not in resp3.headers
                    n += 1
    assert n >= 300, n
    # leaf routes never slash-redirect
    for m in ALL_METHODS:
        resp = call(app, '/leaf', b'q=1', m)
        assert resp.status_code == (200 if m in ADMITTED['/leaf'] else 405)
        assert 'Location' not in resp.headers
        resp = call(app, '//leaf//', b'q=1', m)
        assert 'Location' not in resp.headers
        assert resp.status_code == (200 if m in ADMITTED['/leaf'] else 405), resp.status_code


def check_other_modes():
    for mode, ok_status in ((S_REWRITE, 200), (S_STRICT, 404)):
        app = Application(make_routes(), slash_mode=mode)
        for pattern, cases in PATHS.items():
            admitted = ADMITTED[pattern]
            for raw, canon in cases:
                for m in ALL_METHODS:
                    resp = call(app, raw, b'a=1', m)
                    assert 'Location' not in resp.headers, (mode, raw, m)
                    if mode == S_STRICT:
                        # repeated/missing slashes do not match at all or 404
                        assert resp.status_code in (404, 405), (mode, raw, m, resp.status_code)
                        if resp.status_code == 405:
                            assert m not in admitted
                    elif m in admitted:
                        assert resp.status_code == ok_status, (mode, raw, m, resp.status_code)
                        if m != 'HEAD':
                            seen = eval(resp.get_data(as_text=True))
                            assert seen[0] == '/' + raw.lstrip('/')  # executed directly (werkzeug only strips leading slashes)
                    else:
                        assert resp.status_code == 405, (mode, raw, m, resp.status_code)
                    resp = call(app, canon, b'a=1', m)
                    assert resp.status_code == (200 if m in admitted else 405)


def check_method_fallthrough():
    # two routes on one pattern with different methods: the redirect is
    # issued by the route that admits the method, and the 405 lists both
    app = Application([Route('/x/', ep, methods=['GET']),
                       Route('/x/', ep, methods=['POST'], slash_mode=S_REWRITE)],
                      slash_mode=S_REDIRECT)
    assert call(app, '/x', b'', 'GET').status_code == 302
    assert call(app, '/x', b'', 'POST').status_code == 302  # inherits app mode
    resp = call(app, '/x', b'', 'PUT')
    assert resp.status_code == 405
    assert set(resp.headers['Allow'].replace(' ', '').split(',')) == {'GET', 'HEAD', 'POST'}


if __name__ == '__main__':
    check_match_method_unit()
    check_redirect_mode()
    check_other_modes()
    check_method_fallthrough()
    print('PASS')
