# -*- coding: utf-8 -*-
"""demo1: resource redaction / middleware listing (get_resource_info,
get_mw_infos, _trunc) -- unit level and through the HTML and JSON views."""
import sys
import os
import json
from collections import OrderedDict

sys.path.insert(0, os.path.dirname(os.path.abspath(__file__)))

from clastic import Application, MetaApplication, render_basic
from clastic import meta
from clastic.middleware import Middleware
from clastic.middleware.cookie import SignedCookieMiddleware


class FakeApp(object):
    def __init__(self, resources=None, middlewares=None):
        self.resources = resources
        self.middlewares = middlewares


class CountingRepr(object):
    def __init__(self, text):
        self.text = text
        self.calls = 0

    def __repr__(self):
        self.calls += 1
        return self.text


class BadRepr(object):
    def __repr__(self):
        raise RuntimeError('no repr for you')


# ---- _trunc -----------------------------------------------------------
assert meta._trunc('') == ''
assert meta._trunc('a' * 70) == 'a' * 70
assert meta._trunc('a' * 71) == 'a' * 67 + '...'
assert meta._trunc('a' * 500) == 'a' * 67 + '...'
assert len(meta._trunc('a' * 500)) == 70
assert meta._trunc('abcdef', length=4) == 'a...'
assert meta._trunc('abcdef', length=4, trailer='') == 'abcd'
assert meta._trunc('abcdef', length=4, trailer=None) == 'abcd'
assert meta._trunc('abcdef', length=6, trailer='') == 'abcdef'
assert meta._trunc('abcdef', length=2) == 'abcde...'   # negative slice quirk
assert meta._trunc('abcdef', length=0, trailer='#') == 'abcde#'
assert meta._trunc([1, 2, 3], length=2, trailer=None) == [1, 2]
s = 'x' * 10
assert meta._trunc(s) is s

# ---- get_resource_info: unit ------------------------------------------
SECRET = 'hunter2-TOPSECRETVALUE'
counting_secret = CountingRepr('<obj %s>' % SECRET)
counting_plain = CountingRepr('<plain obj>')
res = OrderedDict([
    ('secret_prefix', SECRET),
    ('in_secret_fix', SECRET.encode('ascii')),
    ('suffix_secret', {'nested': [SECRET, 1, (SECRET,)]}),
    ('secret', counting_secret),
    ('Secret_caps', 'caps-visible'),       # case sensitive: not redacted
    ('SECRET', 'upper-visible'),
    ('secre_t', 'almost'),
    ('plain', counting_plain),
    ('zero', 0),
    ('empty', ''),
    ('none', None),
    ('flt', 1.5),
    ('bytes', b'by\x00tes'),
    ('long', 'L' * 200),
    ('exact', 'E' * 68),                    # repr is exactly 70 chars
    ('over', 'O' * 69),                     # repr is 71 chars
    ('', 'empty-key'),
    (('a', 'secret'), 'tuple-key-hit'),     # membership on a tuple key
    (('a', 'secretx'), 'tuple-key-miss'),
])
infos = meta.get_resource_info(FakeApp(resources=res))
assert isinstance(infos, list)
assert [i['key'] for i in infos] == list(res.keys())
assert all(list(i.keys()) == ['key', 'value'] for i in infos)
by_key = dict((i['key'], i['value']) for i in infos)
for k in ('secret_prefix', 'in_secret_fix', 'suffix_secret', 'secret',
          ('a', 'secret')):
    assert by_key[k] == '[REDACTED]', (k, by_key[k])
assert counting_secret.calls == 0          # secret values are never repr'd
assert counting_plain.calls == 1
assert by_key['Secret_caps'] == "'caps-visible'"
assert by_key['SECRET'] == "'upper-visible'"
assert by_key['secre_t'] == "'almost'"
assert by_key['plain'] == '<plain obj>'
assert by_key['zero'] == '0'
assert by_key['empty'] == "''"
assert by_key['none'] == 'None'
assert by_key['flt'] == '1.5'
assert by_key['bytes'] == repr(b'by\x00tes')
assert by_key['long'] == "'" + 'L' * 66 + '...'
assert by_key['exact'] == "'" + 'E' * 68 + "'"
assert by_key['over'] == "'" + 'O' * 66 + '...'
assert by_key[''] == "'empty-key'"
assert by_key[('a', 'secretx')] == "'tuple-key-miss'"
assert SECRET not in repr(infos)
assert meta.get_resource_info(FakeApp(resources={})) == []

# error behaviour is part of the contract (get_main turns it into exc_content)
for bad_res, exc_type in [({1: 'int key'}, TypeError),
                          ({b'secret': 'bytes key'}, TypeError),
                          ({None: 'none key'}, TypeError),
                          ({'bad': BadRepr()}, RuntimeError),
                          (None, AttributeError)]:
    try:
        meta.get_resource_info(FakeApp(resources=bad_res))
    except exc_type:
        pass
    else:
        raise AssertionError('expected %r for %r' % (exc_type, bad_res))
# ... but a value that cannot be repr'd is harmless under a secret name
assert meta.get_resource_info(FakeApp(resources={'my_secret': BadRepr()})) \
    == [{'key': 'my_secret', 'value': '[REDACTED]'}]


# ---- get_mw_infos: unit -------------------------------------------------
class RecordingMW(object):
    "records the order in which its attributes are inspected"
    def __init__(self):
        object.__setattr__(self, 'log', [])

    def __getattribute__(self, name):
        if name in ('provides', 'requires'):
            object.__getattribute__(self, 'log').append(name)
            return {'provides': PROVIDES, 'requires': REQUIRES}[name]
        if name == '__class__':
            object.__getattribute__(self, 'log').append(name)
        return object.__getattribute__(self, name)

    def __repr__(self):
        object.__getattribute__(self, 'log').append('repr')
        return '<RecordingMW>'


PROVIDES = ['p1', 'p2']
REQUIRES = ('r1',)
rmw = RecordingMW()
mw_infos = meta.get_mw_infos(FakeApp(middlewares=[rmw]))
assert mw_infos == [{'type_name': 'RecordingMW', 'provides': ['p1', 'p2'],
                     'requires': ('r1',), 'repr': '<RecordingMW>'}]
assert list(mw_infos[0].keys()) == ['type_name', 'provides', 'requires', 'repr']
assert mw_infos[0]['provides'] is PROVIDES      # no copy is made
assert mw_infos[0]['requires'] is REQUIRES
assert object.__getattribute__(rmw, 'log') == ['__class__', 'provides',
                                               'requires', 'repr']
assert meta.get_mw_infos(FakeApp(middlewares=[])) == []
assert meta.get_mw_infos(FakeApp(middlewares=())) == []


class LyingClassMW(Middleware):
    "__class__ is what is reported, not type()"
    provides = ('lie',)

    @property
    def __class__(self):
        return Middleware


assert meta.get_mw_infos(FakeApp(middlewares=[LyingClassMW()]))[0]['type_name'] \
    == 'Middleware'


class NoProvides(object):
    requires = ()


try:
    meta.get_mw_infos(FakeApp(middlewares=[NoProvides()]))
except AttributeError:
    pass
else:
    raise AssertionError('expected AttributeError')


# ---- through the application: HTML and JSON --------------------------
COOKIE_KEY = 'c00kie-signing-key-XYZZY'


class ProvidingMW(Middleware):
    provides = ('thing',)

    def request(self, next):
        return next(thing='thing-value')

    def __repr__(self):
        return '<ProvidingMW visible-mw-repr>'


def hello(request, thing, cookie, visible):
    return 'hello'


def make_host(meta_routes):
    resources = OrderedDict([
        ('secret_a', SECRET),
        ('db_secret_key', SECRET.encode('ascii')),
        ('api_secret', [SECRET, {'k': SECRET}]),
        ('obj_secret_obj', CountingRepr('<obj %s>' % SECRET)),
        ('visible', 'visible-value-123'),
        ('number', 424242),
        ('long_visible', 'V' * 300),
    ])
    mws = [SignedCookieMiddleware(secret_key=COOKIE_KEY), ProvidingMW()]
    routes = [('/hello', hello, render_basic)] + meta_routes
    return Application(routes, resources, mws)


def check_bodies(app, prefix):
    cl = app.get_local_client()
    resp = cl.get(prefix + '/')
    assert resp.status_code == 200, (prefix, resp.status_code)
    html = resp.get_data(as_text=True)
    resp = cl.get(prefix + '/json/')
    assert resp.status_code == 200, (prefix, resp.status_code)
    jtext = resp.get_data(as_text=True)
    data = json.loads(jtext)
    for body in (html, jtext):
        assert SECRET not in body
        assert COOKIE_KEY not in body
        assert '[REDACTED]' in body
        assert 'visible-value-123' in body
        assert '424242' in body
        assert 'V' * 66 + '...' in body
        assert 'V' * 67 not in body
        assert 'SignedCookieMiddleware' in body
        assert 'ProvidingMW' in body
    assert 'visible-mw-repr' in jtext      # the repr is only part of the JSON
    jres = dict((r['key'], r['value']) for r in data['app']['resources'])
    assert jres == {'secret_a': '[REDACTED]',
                    'db_secret_key': '[REDACTED]',
                    'api_secret': '[REDACTED]',
                    'obj_secret_obj': '[REDACTED]',
                    'visible': "'visible-value-123'",
                    'number': '424242',
                    'long_visible': "'" + 'V' * 66 + '...'}, jres
    assert [r['key'] for r in data['app']['resources']] == \
        ['secret_a', 'db_secret_key', 'api_secret', 'obj_secret_obj',
         'visible', 'number', 'long_visible']
    jmws = data['app']['middlewares']
    assert [m['type_name'] for m in jmws] == ['SignedCookieMiddleware',
                                             'ProvidingMW']
    assert jmws[0]['provides'] == ['cookie']
    assert jmws[0]['repr'] == ("SignedCookieMiddleware(arg_name='cookie', "
                               "cookie_name='clastic_cookie')")
    assert jmws[1] == {'type_name': 'ProvidingMW', 'provides': ['thing'],
                       'requires': [], 'repr': '<ProvidingMW visible-mw-repr>'}
    assert 'exc_content' not in data['app']
    return data


check_bodies(make_host([('/meta', MetaApplication())]), '/meta')
check_bodies(make_host([('/', MetaApplication())]), '')
check_bodies(make_host([('/a/b/_meta', MetaApplication())]), '/a/b/_meta')
inner = Application([('/two', MetaApplication())])
outer = Application([('/one', inner)])
check_bodies(make_host([('/zero', outer)]), '/zero/one/two')

# a resource whose repr fails: page still answers, section reports the error
app = Application([('/meta', MetaApplication())],
                  {'top_secret': SECRET, 'bad': BadRepr(), 'ok': 'fine'})
cl = app.get_local_client()
resp = cl.get('/meta/json/')
assert resp.status_code == 200
data = json.loads(resp.get_data(as_text=True))
assert data['app']['exc_content'] == "RuntimeError('no repr for you')"
assert 'resources' not in data['app']
assert 'routes' in data['app'] and 'middlewares' in data['app']
resp = cl.get('/meta/')
assert resp.status_code == 200
html = resp.get_data(as_text=True)
assert SECRET not in html
assert 'no repr for you' in html

print('PASS')
