# -*- coding: utf-8 -*-
"""demo1: embedding == flat declaration, with the focus on the middleware
side of the mechanism (merge across levels, provides-conflict detection by
check_middlewares at every (re-)binding).

Prints PASS and exits 0 when every assertion holds.
"""
import sys
import warnings

warnings.simplefilter('ignore')

from werkzeug.wrappers import Response

from clastic import Application, Route, SubApplication, Middleware
from clastic.route import GET, S_REDIRECT, S_REWRITE, S_STRICT
from clastic.errors import ErrorHandler, Forbidden
from clastic.middleware.core import check_middlewares

TRACE = []


# ---------------------------------------------------------------- middlewares
class _TraceMW(Middleware):
    def __init__(self, tag):
        self.tag = tag

    def __repr__(self):
        return '%s@%s' % (self.__class__.__name__, self.tag)

    def request(self, next, request):
        TRACE.append('>%r' % self)
        try:
            return next()
        finally:
            TRACE.append('<%r' % self)


class MwA(_TraceMW):
    pass


class MwB(_TraceMW):
    pass


class MwC(_TraceMW):
    pass


class MwWho(_TraceMW):
    provides = ('who',)

    def request(self, next, request):
        TRACE.append('>%r' % self)
        return next(who=self.tag)


class MwEp(_TraceMW):
    endpoint_provides = ('ep_val',)
    request = None

    def endpoint(self, next):
        TRACE.append('e%r' % self)
        return next(ep_val='ep-' + self.tag)


class MwRn(_TraceMW):
    render_provides = ('rn_val',)
    request = None

    def render(self, next, context):
        TRACE.append('r%r' % self)
        return next(rn_val='rn-' + self.tag)


class MwWho2(_TraceMW):
    # a different type providing the same name as MwWho -> conflict
    endpoint_provides = ('who',)
    request = None

    def endpoint(self, next):
        return next(who='two-' + self.tag)


class MwFixed(_TraceMW):
    reorderable = False


# ------------------------------------------------------------- error handlers
class TagErrorHandler(ErrorHandler):
    def __init__(self, tag):
        ErrorHandler.__init__(self)
        self.tag = tag

    def render_error(self, request, _error, shared):
        return Response('EH[%s] %s shared=%s' % (self.tag, _error.code, shared),
                        status=_error.code)


def make_rf(tag):
    def render_factory(arg):
        def render(context):
            return Response('RF[%s](%s) %s' % (tag, arg, context))
        return render
    return render_factory


def callable_render(context):
    return Response('CALLABLE %s' % (context,))


def rn_render(context, rn_val):
    return Response('RN %s %s' % (rn_val, context))


# ------------------------------------------------------------------ endpoints
def ep_shared(shared, own):
    return 'ep_shared(shared=%s, own=%s)' % (shared, own)


def ep_deep(shared, deep):
    return 'ep_deep(shared=%s, deep=%s)' % (shared, deep)


def ep_mid(shared, mid_only):
    return Response('ep_mid(shared=%s, mid_only=%s)' % (shared, mid_only))


def ep_top(shared, top_only):
    return 'ep_top(shared=%s, top_only=%s)' % (shared, top_only)


def ep_num(num, shared):
    return 'ep_num(%r, shared=%s)' % (num, shared)


def ep_parts(parts):
    return Response('ep_parts(%r)' % (parts,))


def ep_who(who, shared):
    return 'ep_who(%s, shared=%s)' % (who, shared)


def ep_val_ep(ep_val):
    return 'ep_val_ep(%s)' % ep_val


def ep_boom(shared):
    raise ValueError('boom')


def ep_forbidden():
    raise Forbidden()


def ep_app(_application, _route, shared):
    return Response('ep_app(app_shared=%s, pattern=%s, n_apps=%d, shared=%s)'
                    % (_application.resources.get('shared'), _route.pattern,
                       len(_route.bound_apps), shared))


# ---------------------------------------------------------------------- specs
class Lvl(object):
    """Declaration of one application level (independent of clastic)."""
    def __init__(self, name, entries, res=None, mws=(), slash=S_REDIRECT,
                 rf=None, eh=None):
        self.name, self.entries = name, entries
        self.res, self.mws = dict(res or {}), list(mws)
        self.slash, self.rf, self.eh = slash, rf, eh


class R(object):
    def __init__(self, pattern, ep, render=None, mws=(), methods=None):
        self.pattern, self.ep, self.render = pattern, ep, render
        self.mws, self.methods = list(mws), methods


class Sub(object):
    def __init__(self, prefix, lvl, rebind_render=False, inherit_slashes=True,
                 as_tuple=False):
        self.prefix, self.lvl = prefix, lvl
        self.rebind_render, self.inherit_slashes = rebind_render, inherit_slashes
        self.as_tuple = as_tuple


def build_nested(lvl):
    routes = []
    for e in lvl.entries:
        if isinstance(e, R):
            kw = {}
            if e.methods:
                kw['methods'] = e.methods
            routes.append(Route(e.pattern, e.ep, e.render,
                                middlewares=e.mws, **kw))
        else:
            inner = build_nested(e.lvl)
            if e.as_tuple:
                assert not e.rebind_render and e.inherit_slashes
                routes.append((e.prefix, inner))
            else:
                routes.append(SubApplication(e.prefix, inner,
                                             rebind_render=e.rebind_render,
                                             inherit_slashes=e.inherit_slashes))
    kw = {}
    if lvl.eh is not None:
        kw['error_handler'] = TagErrorHandler(lvl.eh)
    return Application(routes, resources=lvl.res, middlewares=lvl.mws,
                       render_factory=make_rf(lvl.rf) if lvl.rf else None,
                       slash_mode=lvl.slash, **kw)


def _dedupe(mws):
    out = []
    for mw in mws:
        if not any(type(o) is type(mw) for o in out):
            out.append(mw)
    return out


def flatten(top):
    """Independent flattening: one record per leaf route, in order."""
    recs = []

    def walk(lvl, prefix, levels, links):
        for e in lvl.entries:
            if isinstance(e, Sub):
                walk(e.lvl, prefix + e.prefix.rstrip('/'),
                     levels + [e.lvl], links + [e])
                continue
            # slash mode: innermost first, outward while inheriting
            slash = levels[-1].slash
            for parent, link in reversed(list(zip(levels[:-1], links))):
                if link.inherit_slashes:
                    slash = parent.slash
            # render: the most recent factory at the time of a (re)binding
            render, bound = None, False
            if callable(e.render):
                render = e.render
            elif e.render is not None:
                rebinds = [True] + [l.rebind_render for l in reversed(links)]
                seen = []
                for cur, rebind in zip(reversed(levels), rebinds):
                    seen.append(cur.rf)
                    facs = [f for f in seen if f]
                    if (rebind or not bound) and facs:
                        render, bound = make_rf(facs[-1])(e.render), True
            inner_mws, inner_res = [], {}
            for cur in levels[1:]:
                inner_mws.extend(cur.mws)
                inner_res.update(cur.res)
            inner_mws.extend(e.mws)
            all_mws = _dedupe(list(top.mws) + inner_mws)
            recs.append(dict(pattern=prefix + e.pattern, ep=e.ep, render=render,
                             mws=_dedupe(inner_mws), res=inner_res, slash=slash,
                             methods=e.methods, all_mws=all_mws))

    walk(top, '', [top], [])
    return recs


def build_flat(top):
    kw = {}
    if top.eh is not None:
        kw['error_handler'] = TagErrorHandler(top.eh)
    app = Application([], resources=top.res, middlewares=top.mws,
                      slash_mode=top.slash, **kw)
    for rec in flatten(top):
        rkw = {}
        if rec['methods']:
            rkw['methods'] = rec['methods']
        rt = Route(rec['pattern'], rec['ep'], rec['render'],
                   middlewares=rec['mws'], resources=rec['res'],
                   slash_mode=rec['slash'], **rkw)
        app.add(rt, inherit_slashes=False)
    return app


# ------------------------------------------------------------------- requests
def catalogue(patterns):
    paths = ['/', '/nope', '/nope/', '//', '/x/../y']
    for patt in patterns:
        base = (patt.replace('<num:int>', '42').replace('<parts*>', 'a/b')
                .replace('<name>', 'zed'))
        stripped = base.rstrip('/') or '/'
        paths += [base, stripped, stripped + '/', stripped + '//',
                  '/' + base, base.replace('/', '//'), stripped + '/extra',
                  stripped + 'x']
        if '42' in base:
            paths += [base.replace('42', 'notint'), base.replace('42', '-7'),
                      base.replace('42', '')]
        if 'a/b' in base:
            paths += [base.replace('a/b', ''), base.replace('/a/b', ''),
                      base.replace('a/b', 'a//b/')]
    seen, out = set(), []
    for p in paths:
        if p not in seen:
            seen.add(p)
            out.append(p)
    reqs = []
    for p in out:
        reqs.append(('GET', p, ''))
        reqs.append(('POST', p, ''))
    for p in out[::3]:
        reqs.append(('HEAD', p, ''))
        reqs.append(('GET', p, 'q=1&r=%20x'))
    return reqs


def observe(app, method, path, query):
    del TRACE[:]
    cl = app.get_local_client()
    try:
        resp = cl.open(path=path, method=method, query_string=query,
                       headers={'Accept': 'text/plain'})
        out = (resp.status_code, resp.get_data(True),
               resp.headers.get('Location'), resp.headers.get('Allow'))
    except Exception as e:  # must not happen, but must then be the same
        out = ('EXC', type(e).__name__, str(e), None)
    return out + (tuple(TRACE),)


def compare(top, min_ok=1):
    nested, flat = build_nested(top), build_flat(top)
    recs = flatten(top)
    assert len(nested.routes) == len(flat.routes) == len(recs)
    for nbr, fbr, rec in zip(nested.routes, flat.routes, recs):
        assert nbr.pattern == fbr.pattern == rec['pattern'], (nbr.pattern, rec)
        assert nbr.slash_mode == fbr.slash_mode == rec['slash'], (nbr.pattern,)
        assert nbr.methods == fbr.methods
        want = [repr(m) for m in rec['all_mws']]
        assert [repr(m) for m in nbr.middlewares] == want, (nbr.middlewares, want)
        assert [repr(m) for m in fbr.middlewares] == want, (fbr.middlewares, want)
        assert type(nbr.middlewares) is tuple
        assert set(nbr.resources) == set(fbr.resources)
        assert nbr.bound_apps[-1] is nested and fbr.bound_apps[-1] is flat
        assert nbr.get_required_args() == fbr.get_required_args()
    n_ok = 0
    for method, path, query in catalogue([r['pattern'] for r in recs]):
        got_n = observe(nested, method, path, query)
        got_f = observe(flat, method, path, query)
        assert got_n == got_f, (top.name, method, path, query, got_n, got_f)
        assert got_n[0] != 'EXC', got_n
        if got_n[0] == 200:
            n_ok += 1
    assert n_ok >= min_ok, (top.name, n_ok)
    return nested, flat


def expect_same_error(top, exc_type, *needles):
    errs = []
    for build in (build_nested, build_flat):
        try:
            build(top)
        except Exception as e:
            errs.append(e)
        else:
            raise AssertionError('%s: %s did not raise' % (top.name, build.__name__))
    for e in errs:
        assert type(e) is exc_type, (top.name, e)
        for needle in needles:
            assert needle in str(e), (top.name, needle, str(e))


def body(app, path, method='GET'):
    return observe(app, method, path, '')[:2]


# ------------------------------------------------------------------ scenarios
def scenario_mw_depth3():
    inner = Lvl('I', [R('/leaf', ep_deep, 'leaf.tmpl', methods=['GET']),
                      R('/who', ep_who, 'who.tmpl', mws=[MwWho('route')]),
                      R('/dir/', ep_shared, 'dir.tmpl')],
                res={'shared': 'I', 'own': 'I', 'deep': 'I'},
                mws=[MwC('I'), MwA('I')], rf='I')
    mid = Lvl('M', [R('/m', ep_mid),
                    Sub('/in/', inner),
                    R('/after/<num:int>', ep_num, callable_render)],
              res={'shared': 'M', 'own': 'M', 'mid_only': 'M'},
              mws=[MwB('M'), MwA('M')], eh='M')
    top = Lvl('O', [R('/', ep_top, 'top.tmpl'),
                    Sub('/mid', mid, as_tuple=True),
                    R('/app', ep_app),
                    Sub('/again', inner, rebind_render=True),
                    R('/boom', ep_boom), R('/forbidden', ep_forbidden)],
              res={'shared': 'O', 'own': 'O', 'top_only': 'O'},
              mws=[MwA('O'), MwEp('O')], rf='O', eh='O')
    nested, flat = compare(top, min_ok=10)
    for app in (nested, flat):
        # outermost instance of a shared unique type wins, at its position
        assert observe(app, 'GET', '/mid/in/leaf', '') == (
            200, 'RF[I](leaf.tmpl) ep_deep(shared=O, deep=I)', None, None,
            ('>MwA@O', '>MwB@M', '>MwC@I', 'eMwEp@O', '<MwC@I', '<MwB@M', '<MwA@O'))
        assert observe(app, 'GET', '/again/who', '')[:2] == (
            200, 'RF[O](who.tmpl) ep_who(route, shared=O)')
        assert observe(app, 'GET', '/again/who', '')[4] == (
            '>MwA@O', '>MwC@I', '>MwWho@route', 'eMwEp@O', '<MwC@I', '<MwA@O')
        assert body(app, '/mid/m') == (200, 'ep_mid(shared=O, mid_only=M)')
        assert body(app, '/mid/after/7') == (200, "CALLABLE ep_num(7, shared=O)")
        assert body(app, '/boom')[0] == 500
        assert body(app, '/mid/in/nope') == (404, 'EH[O] 404 shared=O')
        assert body(app, '/forbidden') == (403, 'EH[O] 403 shared=O')
        assert body(app, '/mid/in/leaf', 'POST') == (405, 'EH[O] 405 shared=O')
        red = observe(app, 'GET', '/mid/in/dir', '')
        assert red[0] in (301, 302, 308) and '/mid/in/dir/' in red[2], red


def scenario_provides_levels():
    inner = Lvl('I', [R('/ep', ep_val_ep, 'ep.tmpl'),
                      R('/rn', ep_shared, rn_render),
                      R('/who', ep_who, 'w.tmpl')],
                res={'shared': 'I', 'own': 'I'},
                mws=[MwEp('I'), MwRn('I'), MwWho('I')], rf='I')
    top = Lvl('O', [Sub('/p', inner), Sub('/', inner, rebind_render=True),
                    R('/topwho', ep_who, 'tw.tmpl')],
              res={'shared': 'O', 'own': 'O'},
              mws=[MwWho('O'), MwB('O')], rf='O')
    nested, flat = compare(top, min_ok=8)
    for app in (nested, flat):
        assert body(app, '/p/ep') == (200, 'RF[I](ep.tmpl) ep_val_ep(ep-I)')
        assert body(app, '/ep') == (200, 'RF[O](ep.tmpl) ep_val_ep(ep-I)')
        assert body(app, '/p/rn') == (200, 'RN rn-I ep_shared(shared=O, own=O)')
        assert body(app, '/p/who') == (200, 'RF[I](w.tmpl) ep_who(O, shared=O)')
        assert body(app, '/topwho') == (200, 'RF[O](tw.tmpl) ep_who(O, shared=O)')


def scenario_conflicts():
    def inner_with(mws, res=None):
        base = {'shared': 'I', 'own': 'I'}
        base.update(res or {})
        return Lvl('I', [R('/who', ep_who)], res=base, mws=mws)

    # two different types providing 'who' at different levels
    top = Lvl('conflict-types', [Sub('/p', inner_with([MwWho('I')]))],
              res={'shared': 'O'}, mws=[MwWho2('O')])
    expect_same_error(top, NameError, 'found conflicting provides', "'who'",
                      'MwWho2@O', 'MwWho@I')
    # the outer application's resource collides with an inner provides
    top = Lvl('conflict-resource', [Sub('/p', inner_with([MwWho('I')]))],
              res={'shared': 'O', 'who': 'resource'})
    expect_same_error(top, NameError, 'found conflicting provides', "'who'",
                      "'resources'", 'MwWho@I')
    # endpoint_provides of the outer vs a url binding of the inner
    inner = Lvl('I', [R('/<ep_val>', ep_val_ep)], res={'shared': 'I'})
    top = Lvl('conflict-url', [Sub('/p', inner)], res={'shared': 'O'},
              mws=[MwEp('O')])
    expect_same_error(top, NameError, 'found conflicting provides', "'ep_val'",
                      "'url'", 'MwEp@O')
    # non-reorderable unique middleware on two levels
    top = Lvl('fixed-twice', [Sub('/p', inner_with([MwWho('I'), MwFixed('I')]))],
              res={'shared': 'O'}, mws=[MwFixed('O')])
    expect_same_error(top, ValueError, 'multiple inclusion of unique middleware',
                      'MwFixed')


def scenario_check_middlewares_unit():
    """Exact outcome of check_middlewares for hand-made provider lists."""
    class M1(_TraceMW):
        provides = ('a', 'b')
        endpoint_provides = ('c',)
        render_provides = ['d']

    class M2(_TraceMW):
        provides = ('c',)
        endpoint_provides = ()
        render_provides = ('a',)

    class M3(_TraceMW):
        provides = ('x',)
        endpoint_provides = ('x',)
        render_provides = ('x', 'y')

    class BadFirstArg(_TraceMW):
        def request(self, nxt):
            return nxt()

    class Gen(_TraceMW):
        request = None

        @property
        def provides(self):
            return iter(['g1', 'g2'])

    def message(mws, args_dict=None):
        try:
            res = check_middlewares(mws, args_dict)
        except NameError as e:
            return str(e)
        assert res is True
        return None

    m1, m2, m3 = M1('1'), M2('2'), M3('3')
    assert message([]) is None
    assert message([], {}) is None
    assert message((), {'url': set(), 'builtins': ()}) is None
    assert message([m1]) is None
    assert message([m1, m3]) == ("found conflicting provides: "
                                 "[('x', (M3@3, M3@3, M3@3))]")
    assert message([m1, m2]) == ("found conflicting provides: "
                                 "[('a', (M1@1, M2@2)), ('c', (M1@1, M2@2))]")
    assert message([m2, m1]) == ("found conflicting provides: "
                                 "[('c', (M2@2, M1@1)), ('a', (M2@2, M1@1))]")
    assert message(iter([m2, m1, m3])) == (
        "found conflicting provides: [('c', (M2@2, M1@1)), ('a', (M2@2, M1@1)),"
        " ('x', (M3@3, M3@3, M3@3))]")
    assert message([m1], {'resources': ['d', 'q'], 'url': ['q']}) == (
        "found conflicting provides: [('d', ('resources', M1@1)),"
        " ('q', ('resources', 'url'))]")
    assert message([m1], {'resources': ['zz']}) is None
    assert message([Gen('g')], {'url': ['g3']}) is None
    assert message([Gen('g')], {'url': ['g2']}) == (
        "found conflicting provides: [('g2', ('url', Gen@g))]")
    # the per-middleware signature check still runs first, in list order
    try:
        check_middlewares([m1, BadFirstArg('bad'), m2])
    except TypeError as e:
        assert "'next' as the first parameter (BadFirstArg.request)" in str(e)
    else:
        raise AssertionError('expected TypeError')

    class NoProvides(object):
        name = 'NoProvides'
        request = endpoint = render = None
        provides = ('np',)
        # endpoint_provides / render_provides missing altogether

    try:
        check_middlewares([NoProvides()])
    except AttributeError as e:
        assert 'endpoint_provides' in str(e), e
    else:
        raise AssertionError('expected AttributeError')

    class NoneProvides(_TraceMW):
        render_provides = None

    try:
        check_middlewares([NoneProvides('n')])
    except TypeError as e:
        assert 'not iterable' in str(e), e
    else:
        raise AssertionError('expected TypeError')


def main():
    scenario_mw_depth3()
    scenario_provides_levels()
    scenario_conflicts()
    scenario_check_middlewares_unit()
    print('PASS')
    return 0


if __name__ == '__main__':
    sys.exit(main())
