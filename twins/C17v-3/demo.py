# -*- coding: utf-8 -*-
"""demo3: ClasticJSONEncoder.default -- what non-native objects degrade to."""
import sys
import json
import datetime
import collections
from collections.abc import Mapping

from werkzeug.test import EnvironBuilder
from werkzeug.wrappers import Request

from clastic.render import render_json, render_json_dev, render_basic
from clastic.render.simple import ClasticJSONEncoder


def req(path='/', **kw):
    return Request(EnvironBuilder(path=path, **kw).get_environ())


strict = ClasticJSONEncoder()
dev = ClasticJSONEncoder(dev_mode=True)
assert strict.dev_mode is False and dev.dev_mode is True
assert (strict.skipkeys, strict.ensure_ascii, strict.indent, strict.sort_keys) \
    == (True, True, 2, True)


class GoodMapping(Mapping):
    def __init__(self, **kw):
        self._d = kw

    def __getitem__(self, k):
        return self._d[k]

    def __iter__(self):
        return iter(self._d)

    def __len__(self):
        return len(self._d)

    def to_dict(self):           # never consulted: Mapping comes first
        return {'wrong': True}


class HalfBrokenMapping(GoodMapping):
    "dict() fails (lookup raises) but list() works: degrades to its keys"
    def __getitem__(self, k):
        raise RuntimeError('no values today')


class BrokenMapping(GoodMapping):
    "neither dict() nor list() work: falls through to to_dict()"
    def __iter__(self):
        raise RuntimeError('no iteration today')

    def keys(self):
        raise RuntimeError('no keys today')

    def to_dict(self):
        return {'via': 'to_dict'}

    def __repr__(self):
        return '<BrokenMapping>'


class VeryBrokenMapping(BrokenMapping):
    to_dict = None

    def __repr__(self):
        return '<VeryBrokenMapping>'


class SizedOnly(object):
    def __len__(self):
        return 3

    def __repr__(self):
        return '<SizedOnly>'


class SizedIterable(object):
    def __len__(self):
        return 2

    def __iter__(self):
        return iter(['x', 'y'])

    def to_dict(self):           # never consulted: Sized+Iterable comes first
        return {'wrong': True}


class BrokenSizedIterable(SizedIterable):
    def __iter__(self):
        raise ValueError('cannot iterate')

    def to_dict(self):
        return {'rescued': 'by to_dict'}


class AllThree(object):
    def to_dict(self):
        return {'m': 'to_dict'}

    def asdict(self):
        return {'m': 'asdict'}

    def isoformat(self):
        return 'isoformat'


class AsdictAndIso(object):
    to_dict = 'not callable'

    def asdict(self):
        return {'m': 'asdict'}

    def isoformat(self):
        return 'isoformat'


class IsoOnly(object):
    to_dict = None
    asdict = 0

    def isoformat(self):
        return 'iso!'


class NoneCallable(object):
    to_dict = asdict = isoformat = ''

    def __repr__(self):
        return '<NoneCallable>'


class Plain(object):
    def __repr__(self):
        return '<Plain>'


class Raising(object):
    def to_dict(self):
        raise KeyError('boom')

    def asdict(self):
        return {'never': 'reached'}


class Nested(object):
    def to_dict(self):
        return {'inner': AllThree(), 'when': datetime.date(2001, 2, 3),
                'items': {3, }, 'deep': (IsoOnly(),)}


class FalsyResult(object):
    "a falsy conversion result is still a result"
    def to_dict(self):
        return {}

    def asdict(self):
        return {'wrong': True}


class NoneResult(object):
    def to_dict(self):
        return None

    def asdict(self):
        return {'wrong': True}


class Recorder(object):
    "records which attributes default() looks up, and in what order"
    def __init__(self, have):
        self.__dict__['have'] = have
        self.__dict__['seen'] = []

    def __getattr__(self, name):
        self.seen.append(name)
        if name in self.have:
            return lambda: 'from ' + name
        raise AttributeError(name)

    def __repr__(self):
        return '<Recorder>'


class ExplodingAttr(object):
    @property
    def to_dict(self):
        raise ZeroDivisionError('property exploded')


# --- default() itself: (obj, expected) for both encoders
SAME_FOR_BOTH = [
    (GoodMapping(a=1, b=2), {'a': 1, 'b': 2}),
    (GoodMapping(), {}),
    (HalfBrokenMapping(a=1, b=2), ['a', 'b']),
    (HalfBrokenMapping(), {}),      # dict() of an empty mapping never looks up
    (BrokenMapping(a=1), {'via': 'to_dict'}),
    (SizedIterable(), ['x', 'y']),
    (BrokenSizedIterable(), {'rescued': 'by to_dict'}),
    (set(), []),
    ({7}, [7]),
    (frozenset(['z']), ['z']),
    (collections.deque([1, 2]), [1, 2]),
    (range(3), [0, 1, 2]),
    (bytearray(b'hi'), [104, 105]),
    (b'hi', [104, 105]),
    (collections.OrderedDict(a=1).keys(), ['a']),
    (AllThree(), {'m': 'to_dict'}),
    (AsdictAndIso(), {'m': 'asdict'}),
    (IsoOnly(), 'iso!'),
    (FalsyResult(), {}),
    (NoneResult(), None),
    (datetime.datetime(2020, 5, 6, 7, 8, 9), '2020-05-06T07:08:09'),
    (datetime.date(2020, 5, 6), '2020-05-06'),
    (datetime.time(1, 2, 3), '01:02:03'),
]
for obj, expected in SAME_FOR_BOTH:
    for enc in (strict, dev):
        got = enc.default(obj)
        assert got == expected and type(got) is type(expected), (obj, got)

# a converted mapping / sequence is a fresh copy, not the object itself
src = GoodMapping(a=[1])
out = strict.default(src)
assert type(out) is dict and out is not src._d and out['a'] is src._d['a']

gen = (i for i in range(3))
UNKNOWN = [Plain(), SizedOnly(), NoneCallable(), VeryBrokenMapping(a=1), gen,
           object, AllThree, datetime.datetime, GoodMapping, 1j, Ellipsis,
           len, iter([])]
for obj in UNKNOWN:
    assert dev.default(obj) == repr(obj), obj
    try:
        strict.default(obj)
    except TypeError as e:
        assert str(e) == 'cannot serialize to JSON: %r' % (obj,), str(e)
    else:
        raise AssertionError('expected TypeError for %r' % (obj,))
assert list(gen) == [0, 1, 2]    # the generator was not consumed

# exceptions of conversion methods / attribute lookups pass through, dev or not
for enc in (strict, dev):
    try:
        enc.default(Raising())
    except KeyError as e:
        assert e.args == ('boom',)
    else:
        raise AssertionError('expected KeyError')
    try:
        enc.default(ExplodingAttr())
    except ZeroDivisionError:
        pass
    else:
        raise AssertionError('expected ZeroDivisionError')

# lookup order: to_dict, then asdict, then isoformat; stops at the first hit
for have, result, seen in [
    (('to_dict', 'asdict', 'isoformat'), 'from to_dict', ['to_dict', 'to_dict']),
    (('asdict', 'isoformat'), 'from asdict', ['to_dict', 'asdict', 'asdict']),
    (('isoformat',), 'from isoformat',
     ['to_dict', 'asdict', 'isoformat', 'isoformat']),
    ((), '<Recorder>', ['to_dict', 'asdict', 'isoformat']),
]:
    rec = Recorder(have)
    assert dev.default(rec) == result
    assert rec.seen == seen, (have, rec.seen)

# --- through encode / the renderers
assert json.loads(strict.encode(Nested())) == {
    'inner': {'m': 'to_dict'}, 'when': '2001-02-03', 'items': [3],
    'deep': ['iso!']}
assert json.loads(dev.encode([Plain(), {'k': Plain}, SizedOnly()])) == \
    ['<Plain>', {'k': repr(Plain)}, '<SizedOnly>']
assert json.loads(''.join(dev.iterencode({'g': GoodMapping(x=Plain())}))) == \
    {'g': {'x': '<Plain>'}}

for value, expected in [
    ({'m': GoodMapping(a=1), 's': {1}, 'o': AllThree()},
     {'m': {'a': 1}, 's': [1], 'o': {'m': 'to_dict'}}),
    ([datetime.date(1999, 12, 31), AsdictAndIso(), IsoOnly()],
     ['1999-12-31', {'m': 'asdict'}, 'iso!']),
    (GoodMapping(n=Nested()),
     {'n': {'inner': {'m': 'to_dict'}, 'when': '2001-02-03', 'items': [3],
            'deep': ['iso!']}}),
]:
    for resp in (render_json(value), render_json_dev(value),
                 render_basic(value, req('/'), None),
                 render_basic(value, req('/?format=json'), None)):
        assert resp.status_code == 200
        assert resp.mimetype == 'application/json'
        assert json.loads(resp.get_data(as_text=True)) == expected

# render_basic is dev mode: unknown objects inside containers become reprs
resp = render_basic({'p': Plain(), 'cls': Plain, 'z': 1j}, req('/'), None)
assert resp.status_code == 200
assert json.loads(resp.get_data(as_text=True)) == \
    {'p': '<Plain>', 'cls': repr(Plain), 'z': '1j'}
# Sized top-level objects are serialized, too
resp = render_basic(SizedOnly(), req('/'), None)
assert resp.mimetype == 'application/json'
assert json.loads(resp.get_data(as_text=True)) == '<SizedOnly>'
resp = render_basic(SizedIterable(), req('/'), None)
assert json.loads(resp.get_data(as_text=True)) == ['x', 'y']
# render_json is not
try:
    render_json({'p': Plain()})
except TypeError as e:
    assert str(e) == 'cannot serialize to JSON: <Plain>'
else:
    raise AssertionError('expected TypeError')

print('PASS')
sys.exit(0)
