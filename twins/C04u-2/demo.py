# -*- coding: utf-8 -*-
"""demo2: misplaced next/context and unprovided names are rejected at construction
(focus: sinter.get_arg_names / chain_argspec / make_chain, the helpers that compute
which names each phase's chain requires, may use and cannot resolve)."""
import warnings
warnings.simplefilter('ignore')

from werkzeug.test import Client

from clastic import Application, Route, Response
from clastic.middleware import Middleware
from clastic.sinter import get_arg_names, chain_argspec, make_chain


def raises(exc_type, func, *a, **kw):
    try:
        func(*a, **kw)
    except Exception as e:
        assert type(e) is exc_type, 'expected %s, got %r' % (exc_type.__name__, e)
        return e
    raise AssertionError('expected %s, nothing raised' % exc_type.__name__)


# --- get_arg_names ------------------------------------------------------------
def f0():
    pass


def f1(next, a, b=2, *args, **kwargs):
    pass


class C(object):
    def meth(self, next, x, y=None):
        pass

    def __call__(self, request, z=0):
        pass


assert get_arg_names(f0) == ()
assert get_arg_names(f1) == ('next', 'a', 'b')
assert get_arg_names(f1, True) == ('next', 'a')
assert get_arg_names(f1, only_required=True) == ('next', 'a')
assert get_arg_names(C().meth) == ('next', 'x', 'y')
assert get_arg_names(C().meth, True) == ('next', 'x')
assert get_arg_names(C()) == ('request', 'z')
raises(TypeError, get_arg_names, 3)


# --- chain_argspec --------------------------------------------------------------
def mw_a(next, request, opt=1):
    return next(a=1)


def mw_b(next, a, res, opt):
    return next(b=a)


def final(a, b, q, dflt='d', next=None):
    return (a, b, q, dflt)


reqs, opts = chain_argspec([mw_a, mw_b, final], [('a',), ('b',), ()], 'next')
assert type(reqs) is set and type(opts) is set
# 'next' is pre-provided to everybody, 'a'/'b' come from an outer link;
# 'opt' is both optional (mw_a) and required (mw_b)
assert reqs == {'request', 'res', 'opt', 'q'}, reqs
assert opts == {'opt', 'dflt', 'next'}, opts
# a name provided only by a *later* link does not help an earlier one
reqs, opts = chain_argspec([mw_b, mw_a], [('b',), ('a',)], 'next')
assert reqs == {'a', 'res', 'opt', 'request'} and opts == {'opt'}
# a link does not see its own provides
reqs, opts = chain_argspec([mw_b], [('a',)], 'next')
assert 'a' in reqs
# other inner name: then 'next' is an ordinary required argument
reqs, opts = chain_argspec([mw_a], [()], 'inner')
assert reqs == {'next', 'request'} and opts == {'opt'}
assert chain_argspec([], [], 'next') == (set(), set())
# zip semantics: surplus provides are ignored
assert chain_argspec([f0], [(), ('zzz',)], 'next') == (set(), set())

# --- make_chain -------------------------------------------------------------------
chain, args, unres = make_chain([mw_a, mw_b], [('a',), ('b',)], final,
                                ['request', 'res', 'opt', 'dflt', 'unused'], 'next')
assert type(args) is set and type(unres) is set
assert unres == {'q'}
# required ones plus those optional ones that are available ('next' is not available)
assert args == {'request', 'res', 'opt', 'q', 'dflt'}, args
assert get_arg_names(chain) == tuple(get_arg_names(chain))  # compiled, introspectable
assert set(get_arg_names(chain)) == args
assert chain(request=1, res=2, opt=3, q=4, dflt=5) == (1, 1, 4, 5)

chain, args, unres = make_chain([], [], f0, iter(['x']), 'next')
assert (args, unres) == (set(), set()) and chain() is None
# inputs may be tuples / iterators and are not mutated
fl, pl = [mw_a], [('a',)]
chain, args, unres = make_chain(fl, pl, lambda a, request: (a, request), ('request',), 'next')
assert fl == [mw_a] and pl == [('a',)] and unres == set() and args == {'request'}
assert chain(request='r') == (1, 'r')
chain, args, unres = make_chain(iter(fl), iter(pl), lambda a: a, (), 'next')
assert unres == {'request'} and args == {'request'}


# --- the property, through Application ---------------------------------------------
def ep(request):
    return Response('ok')


def ep_ctx():
    return {'k': 'v'}


def render_ok(context):
    return Response(repr(sorted(context.items())))


# next as first parameter of every middleware function
class BadReq(Middleware):
    def request(self, request, next):
        return next()


class BadEp(Middleware):
    def endpoint(self, request, next):
        return next()


class BadRn(Middleware):
    def render(self, context, next):
        return next()


class NoNextReq(Middleware):
    def request(self, request):
        return None


class NotCallable(Middleware):
    endpoint = 'nope'


for mw_type in (BadReq, BadEp, BadRn, NoNextReq, NotCallable):
    raises(TypeError, Application, [Route('/', ep)], middlewares=[mw_type()])
    raises(TypeError, Application, [Route('/', ep, middlewares=[mw_type()])])


# next in endpoint / render
def ep_next(next):
    return Response('x')


def ep_next_dflt(request, next=None):
    return Response('x')


def rn_next(context, next):
    return Response('x')


def rn_next_dflt(context, next=None):
    return Response('x')


for e_, r_ in [(ep_next, None), (ep_next_dflt, None), (ep_ctx, rn_next), (ep_ctx, rn_next_dflt)]:
    err = raises(NameError, Application, [Route('/', e_, r_)])
    assert 'reserved for middleware use only' in str(err)


# context outside the render phase
def ep_context(context):
    return Response('x')


class ReqCtx(Middleware):
    def request(self, next, context):
        return next()


class EpCtx(Middleware):
    def endpoint(self, next, context):
        return next()


class RnCtx(Middleware):
    def render(self, next, context):
        return next()


raises(NameError, Application, [Route('/', ep_context)])
err = raises(NameError, Application, [Route('/', ep)], middlewares=[ReqCtx()])
assert 'unresolved request middleware arguments' in str(err) and 'context' in str(err)
err = raises(NameError, Application, [Route('/', ep)], middlewares=[EpCtx()])
assert 'unresolved endpoint middleware arguments' in str(err) and 'context' in str(err)
Application([Route('/', ep_ctx, render_ok)], middlewares=[RnCtx()])  # render phase: fine
# 'context' as a resource does not rescue it: reserved
raises(NameError, Application, [Route('/', ep_context)], {'context': 1})


# phase visibility of provides: endpoint_provides is not visible to request mw,
# render_provides is not visible to the endpoint
class EpProv(Middleware):
    endpoint_provides = ('e',)

    def endpoint(self, next):
        return next(e='E')


class RnProv(Middleware):
    render_provides = ('r',)

    def render(self, next, context):
        return next(r='R')


class ReqProv(Middleware):
    provides = ('q',)

    def request(self, next):
        return next(q='Q')


class ReqNeedsE(Middleware):
    def request(self, next, e):
        return next()


class ReqNeedsQ(Middleware):
    def request(self, next, q):
        return next()


class ReqOptQ(Middleware):
    def request(self, next, q='dq'):
        return next()


raises(NameError, Application, [Route('/', ep)], middlewares=[EpProv(), ReqNeedsE()])
raises(NameError, Application, [Route('/', lambda r: Response(r))], middlewares=[RnProv()])
# order matters in the request phase: consumer before provider is unresolved
raises(NameError, Application, [Route('/', ep)], middlewares=[ReqNeedsQ(), ReqProv()])
Application([Route('/', ep)], middlewares=[ReqProv(), ReqNeedsQ()])
Application([Route('/', ep)], middlewares=[ReqOptQ(), ReqProv()])  # defaulted: fine
raises(NameError, Application, [Route('/', lambda nope: Response('x'))])


def ep_all(request, q, e, res, _route, _application, dflt='D'):
    return {'q': q, 'e': e, 'res': res, 'dflt': dflt}


def rn_all(context, r, q, request):
    return Response(repr((sorted(context.items()), r, q)))


def rn_needs_e(context, e):
    return Response('x')


# endpoint_provides is not visible in the render phase either
raises(NameError, Application, [Route('/', ep_ctx, rn_needs_e)], middlewares=[EpProv()])


app = Application([Route('/', ep_all, rn_all)], {'res': 'RES'},
                  middlewares=[ReqProv(), EpProv(), RnProv()])
resp = Client(app, Response).get('/')
assert resp.status_code == 200
assert resp.get_data(True) == repr(
    ([('dflt', 'D'), ('e', 'E'), ('q', 'Q'), ('res', 'RES')], 'R', 'Q')), resp.get_data(True)

print('PASS')
