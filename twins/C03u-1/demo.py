import itertools
import os
import sys

sys.path.insert(0, os.path.dirname(os.path.abspath(__file__)))

from werkzeug.test import EnvironBuilder
from werkzeug.wrappers import Request, Response, BaseResponse

import clastic
from clastic import Application, Route
from clastic.middleware import Middleware

assert os.path.dirname(os.path.abspath(clastic.__file__)).startswith(
    os.path.dirname(os.path.abspath(__file__))), clastic.__file__

TRACE = []
STAGES = ('request', 'endpoint', 'render')
# what a layer can do
ACTIONS = ('pass', 'raise_before', 'raise_after', 'short', 'short_ctx', 'swallow')


class Boom(Exception):
    pass


def describe(value):
    if isinstance(value, BaseResponse):
        return ('R', value.get_data(as_text=True))
    return ('C', repr(value))


_CLS_COUNTER = itertools.count()


def _make_stage_func(stage):
    def body(self, next):
        tag, act = self.tag, self.actions.get(stage, 'pass')
        TRACE.append(('enter', stage, tag))
        if act == 'raise_before':
            raise Boom('%s.%s before' % (tag, stage))
        if act == 'short':
            return Response('short %s.%s' % (tag, stage))
        if act == 'short_ctx':
            return {'short_ctx': '%s.%s' % (tag, stage)}
        try:
            ret = next()
        except Exception as e:
            TRACE.append(('exc', stage, tag, type(e).__name__, str(e)))
            if act == 'swallow':
                return Response('swallowed by %s.%s' % (tag, stage))
            raise
        TRACE.append(('leave', stage, tag, describe(ret)))
        if act == 'raise_after':
            raise Boom('%s.%s after' % (tag, stage))
        return ret

    if stage == 'render':
        def func(self, next, context):
            return body(self, next)
    elif stage == 'request':
        def func(self, next, request):
            return body(self, next)
    else:
        def func(self, next):
            return body(self, next)
    func.__name__ = stage
    return func


def make_mw(tag, stages=STAGES, actions=None, unique=True, reorderable=True, cls=None):
    """A tracing middleware; actions: {stage: action}. Passing cls= makes another instance of an
    existing type (equal to the first as far as clastic is concerned)."""
    if cls is None:
        attrs = dict((stage, _make_stage_func(stage)) for stage in stages)
        attrs.update(unique=unique, reorderable=reorderable, stage_names=tuple(stages))
        cls = type('MW%d_%s' % (next(_CLS_COUNTER), tag), (Middleware,), attrs)
    inst = cls()
    inst.tag = tag
    inst.actions = dict(actions or {})
    return inst


def make_endpoint(kind='ctx'):
    def endpoint():
        TRACE.append(('enter', 'EP'))
        if kind == 'raise':
            raise Boom('endpoint')
        if kind == 'resp':
            ret = Response('endpoint response')
        elif kind == 'ctx':
            ret = {'from': 'endpoint'}
        else:
            ret = kind  # any literal context
        TRACE.append(('leave', 'EP', describe(ret)))
        return ret
    return endpoint


def make_render(kind='ok'):
    def render(context):
        TRACE.append(('enter', 'RN', describe(context)))
        if kind == 'raise':
            raise Boom('render')
        ret = Response('rendered %r' % (context,))
        TRACE.append(('leave', 'RN', describe(ret)))
        return ret
    return render


def new_request(path='/'):
    return Request(EnvironBuilder(path=path).get_environ())


def run_route(app, path='/'):
    """Execute the (single) matching bound route directly, so the exact object returned / exception
    raised by the outermost layer is visible. Returns (outcome, trace)."""
    broutes = [br for br in app.routes if br.match_path(path) is not None]
    assert len(broutes) == 1, (path, broutes)
    del TRACE[:]
    try:
        ret = broutes[0].execute(new_request(path))
    except Boom as e:
        outcome = ('exc', type(e).__name__, str(e))
    else:
        outcome = ('ret', describe(ret))
    return outcome, list(TRACE)


# ---------------------------------------------------------------------------------------------
# An independent model of the documented behaviour.

def model(layers, ep_kind='ctx', rn_kind='ok'):
    """layers: the merged middleware list as [(tag, stages, actions)] outermost first."""
    trace = []

    def run_stage(stage, innermost):
        stage_layers = [(tag, acts.get(stage, 'pass')) for tag, stages, acts in layers
                        if stage in stages]

        def go(i):
            if i == len(stage_layers):
                return innermost()
            tag, act = stage_layers[i]
            trace.append(('enter', stage, tag))
            if act == 'raise_before':
                return ('exc', 'Boom', '%s.%s before' % (tag, stage))
            if act == 'short':
                return ('ret', ('R', 'short %s.%s' % (tag, stage)))
            if act == 'short_ctx':
                return ('ret', ('C', repr({'short_ctx': '%s.%s' % (tag, stage)})))
            res = go(i + 1)
            if res[0] == 'exc':
                trace.append(('exc', stage, tag, res[1], res[2]))
                if act == 'swallow':
                    return ('ret', ('R', 'swallowed by %s.%s' % (tag, stage)))
                return res
            trace.append(('leave', stage, tag, res[1]))
            if act == 'raise_after':
                return ('exc', 'Boom', '%s.%s after' % (tag, stage))
            return res
        return go(0)

    def endpoint():
        trace.append(('enter', 'EP'))
        if ep_kind == 'raise':
            return ('exc', 'Boom', 'endpoint')
        if ep_kind == 'resp':
            val = ('R', 'endpoint response')
        elif ep_kind == 'ctx':
            val = ('C', repr({'from': 'endpoint'}))
        else:
            val = ('C', repr(ep_kind))
        trace.append(('leave', 'EP', val))
        return ('ret', val)

    def process_request():
        res = run_stage('endpoint', endpoint)
        if res[0] == 'exc' or res[1][0] == 'R':
            return res  # exception, or the endpoint side produced a Response: no render
        ctx = res[1]

        def render():
            trace.append(('enter', 'RN', ctx))
            if rn_kind == 'raise':
                return ('exc', 'Boom', 'render')
            # repr of the context object itself
            val = ('R', 'rendered %s' % ctx[1])
            trace.append(('leave', 'RN', val))
            return ('ret', val)
        return run_stage('render', render)

    outcome = run_stage('request', process_request)
    return outcome, trace


def merged_model(outer_to_inner_lists):
    """Expected merge: concatenate outermost application's list first; a unique type appears once,
    at its outermost position."""
    merged = []
    for mw_list in outer_to_inner_lists:
        for mw in mw_list:
            if mw.unique and any(type(m) is type(mw) for m in merged):
                continue
            merged.append(mw)
    return merged


def as_layers(mws):
    return [(mw.tag, mw.stage_names, mw.actions) for mw in mws]


def check(app, expected_mws, ep_kind='ctx', rn_kind='ok', path='/', label=''):
    got = run_route(app, path)
    want = model(as_layers(expected_mws), ep_kind, rn_kind)
    assert got == want, '%s\n got: %r\nwant: %r' % (label, got, want)
    return got


def onion_cross_product():
    """Every single deviating function in a 3-middleware stack placed at app / sub-app / route level."""
    n = 0
    for ep_kind, rn_kind in (('ctx', 'ok'), ('resp', 'ok'), ('raise', 'ok'), ('ctx', 'raise')):
        for pos in range(3):
            for stage in STAGES:
                for act in ACTIONS:
                    acts = [{}, {}, {}]
                    acts[pos] = {stage: act}
                    a = make_mw('A', actions=acts[0])
                    b = make_mw('B', actions=acts[1], stages=('request', 'render'))
                    c = make_mw('C', actions=acts[2], stages=('endpoint', 'render', 'request'))
                    ep, rn = make_endpoint(ep_kind), make_render(rn_kind)
                    inner = Application([Route('/x', ep, rn, middlewares=[c])], middlewares=[b])
                    outer = Application([('/sub', inner)], middlewares=[a])
                    check(outer, [a, b, c], ep_kind, rn_kind, path='/sub/x',
                          label='%s/%s pos=%s %s=%s' % (ep_kind, rn_kind, pos, stage, act))
                    n += 1
    return n


def merge_scenarios():
    ep, rn = make_endpoint(), make_render()
    # the same unique type at app, sub-app and route level: kept once, outermost
    u_outer = make_mw('U-outer')
    u_mid = make_mw('U-mid', cls=type(u_outer))
    u_route = make_mw('U-route', cls=type(u_outer))
    x, y, z = make_mw('X'), make_mw('Y'), make_mw('Z')
    inner = Application([Route('/x', ep, rn, middlewares=[z, u_route])], middlewares=[u_mid, y])
    outer = Application([('/sub', inner)], middlewares=[x, u_outer])
    exp = merged_model([[x, u_outer], [u_mid, y], [z, u_route]])
    assert [m.tag for m in exp] == ['X', 'U-outer', 'Y', 'Z']
    check(outer, exp, path='/sub/x', label='unique dedupe')
    assert [m.tag for m in outer.routes[0].middlewares] == ['X', 'U-outer', 'Y', 'Z']
    # the sub application on its own keeps its own instance
    check(inner, merged_model([[u_mid, y], [z, u_route]]), path='/x', label='inner alone')

    # non-unique types are all kept, in order
    n1 = make_mw('N1', unique=False, stages=('request', 'render'))
    n2 = make_mw('N2', cls=type(n1), actions={'render': 'raise_after'})
    n3 = make_mw('N3', cls=type(n1), actions={'render': 'swallow'})
    n4 = make_mw('N4', cls=type(n1))
    inner = Application([Route('/x', ep, rn, middlewares=[n3, n4])], middlewares=[n2])
    outer = Application([('/sub', inner)], middlewares=[n1])
    exp = merged_model([[n1], [n2], [n3, n4]])
    assert [m.tag for m in exp] == ['N1', 'N2', 'N3', 'N4']
    check(outer, exp, path='/sub/x', label='non-unique kept')

    # unique and not reorderable: second inclusion rejected at bind time
    f1 = make_mw('F1', reorderable=False)
    f2 = make_mw('F2', cls=type(f1))
    try:
        Application([Route('/x', ep, rn, middlewares=[f2])], middlewares=[f1])
    except ValueError as e:
        assert 'multiple inclusion of unique middleware' in str(e), e
    else:
        raise AssertionError('non-reorderable duplicate accepted')
    return True


def client_level():
    """End to end through WSGI: a 200 from the onion, a 500 when an exception escapes it."""
    a = make_mw('A')
    app = Application([Route('/', make_endpoint(), make_render(), middlewares=[make_mw('B')])],
                      middlewares=[a])
    resp = app.get_local_client().get('/')
    assert resp.status_code == 200 and resp.get_data(as_text=True) == "rendered {'from': 'endpoint'}"
    a = make_mw('A', actions={'render': 'raise_after'})
    app = Application([Route('/', make_endpoint(), make_render())], middlewares=[a])
    del TRACE[:]
    resp = app.get_local_client().get('/')
    assert resp.status_code == 500
    assert [t[:3] for t in TRACE] == [('enter', 'request', 'A'), ('enter', 'endpoint', 'A'), ('enter', 'EP'),
                                      ('leave', 'EP', ('C', "{'from': 'endpoint'}")),
                                      ('leave', 'endpoint', 'A'), ('enter', 'render', 'A'),
                                      ('enter', 'RN', ('C', "{'from': 'endpoint'}")),
                                      ('leave', 'RN', ('R', "rendered {'from': 'endpoint'}")),
                                      ('leave', 'render', 'A'),
                                      ('exc', 'request', 'A')], TRACE
    return True


# ---------------------------------------------------------------------------------------------
# demo1 focus: process_request (generated from _REQ_INNER_TMPL) -- render is skipped exactly when
# the endpoint side produced a Response, and everything is passed through untouched.

def process_request_direct():
    from clastic.middleware.core import _create_request_inner

    class MyResponse(Response):
        pass

    calls = []

    def run(ep_result, ep_exc=None, rn_exc=None):
        del calls[:]
        rendered = Response('rendered')

        def endpoint(a, b):
            calls.append(('endpoint', a, b))
            if ep_exc is not None:
                raise ep_exc
            return ep_result

        def render(context, b):
            calls.append(('render', context, b))
            if rn_exc is not None:
                raise rn_exc
            return rendered

        pr = _create_request_inner(endpoint, render, {'a', 'b'}, {'a', 'b'}, {'context', 'b'})
        assert pr.__name__ == 'process_request'
        assert '__traceback_hide__' in pr.__code__.co_varnames
        return pr, rendered

    # Responses of any flavour come back as the very same object, render untouched
    for resp in (Response('x'), MyResponse('y'), BaseResponse('z'), Response('', status=404), Response(b'')):
        pr, rendered = run(resp)
        assert pr(a=1, b=2) is resp
        assert pr(b=2, a=1) is resp
        assert calls == [('endpoint', 1, 2), ('endpoint', 1, 2)], calls

    # anything else -- including falsy contexts and Response look-alikes -- is rendered, and the
    # render function sees the identical context object
    class Lookalike(object):
        status_code = 200

    for ctx in (None, 0, '', {}, [], False, (), {'k': 'v'}, 'text', 3.5, Lookalike(), Response):
        pr, rendered = run(ctx)
        assert pr(a='A', b='B') is rendered
        assert len(calls) == 2 and calls[0] == ('endpoint', 'A', 'B')
        assert calls[1][0] == 'render' and calls[1][1] is ctx and calls[1][2] == 'B', calls

    # exceptions are passed through as the same object; an endpoint exception skips render
    boom = Boom('ep')
    pr, _ = run(None, ep_exc=boom)
    try:
        pr(a=1, b=2)
    except Boom as e:
        assert e is boom
    else:
        raise AssertionError('no exception')
    assert calls == [('endpoint', 1, 2)]

    boom = KeyError('rn')
    pr, _ = run({'c': 1}, rn_exc=boom)
    try:
        pr(a=1, b=2)
    except KeyError as e:
        assert e is boom
    else:
        raise AssertionError('no exception')
    assert [c[0] for c in calls] == ['endpoint', 'render']

    # a Response from the endpoint wins even if render would raise
    resp = Response('early')
    pr, _ = run(resp, rn_exc=Boom('never'))
    assert pr(a=1, b=2) is resp

    # no arguments at all
    r = Response('r')
    pr = _create_request_inner(lambda: {'c': 1}, lambda context: r, set(), set(), {'context'})
    assert pr() is r
    pr = _create_request_inner(lambda: r, None, set(), set(), set())
    assert pr() is r  # render never touched, not even looked at
    return True


def render_skip_in_routes():
    """All the ways the endpoint side can produce a Response (render + render middleware skipped) or
    not (they run)."""
    n = 0
    for ep_kind in ('ctx', 'resp', 'raise', None, 0, '', 'plain text', (), 7):
        for act in ACTIONS:
            for rn_kind in ('ok', 'raise'):
                a = make_mw('A', actions={'endpoint': act})
                b = make_mw('B', stages=('render', 'endpoint'))
                app = Application([Route('/', make_endpoint(ep_kind), make_render(rn_kind), middlewares=[b])],
                                  middlewares=[a])
                got = check(app, [a, b], ep_kind, rn_kind, label='%r %s %s' % (ep_kind, act, rn_kind))
                render_ran = any(t[1] in ('render', 'RN') for t in got[1])
                endpoint_side_resp = [t for t in got[1] if t[:3] == ('leave', 'endpoint', 'A')]
                if act in ('short', 'swallow') and (act == 'short' or ep_kind == 'raise'):
                    assert not render_ran, got
                if ep_kind == 'resp' and act in ('pass', 'swallow'):
                    assert not render_ran, got
                if ep_kind == 'ctx' and act == 'pass':
                    assert render_ran, got
                n += 1
    return n


if __name__ == '__main__':
    assert process_request_direct()
    n1 = render_skip_in_routes()
    n2 = onion_cross_product()
    assert merge_scenarios()
    assert client_level()
    print('checked %d + %d stacks' % (n1, n2))
    print('PASS')
