# -*- coding: utf-8 -*-
"""C13 demo 3: however an Application is constructed (options, resources,
middlewares, error handler, routes given up front or added later, embedded
applications), it is a conforming WSGI callable for all kinds of responses, the
error handler's WSGI wrapper is innermost and the middlewares' wrap it in list
order, and a RerouteWSGI endpoint hands over the request's own environ."""
import io
import sys
import warnings
from wsgiref.util import setup_testing_defaults
from wsgiref.validate import validator

warnings.simplefilter('ignore')

from clastic import (Application, Middleware, Response, RerouteWSGI, GET, POST,
                     redirect, render_basic, MetaApplication, S_REDIRECT,
                     S_STRICT, S_REWRITE)
from clastic.errors import (ErrorHandler, ContextualErrorHandler, BadRequest,
                            NotFound)
from clastic.middleware.compress import GzipMiddleware
from clastic.route import NullRoute

TRACE = []
BUILD = []


def make_wrapper(tag):
    def wsgi_wrapper(inner):
        BUILD.append(tag)

        def wrapped(environ, start_response):
            TRACE.append(tag)
            return inner(environ, start_response)
        return wrapped
    return wsgi_wrapper


class AMW(Middleware):
    wsgi_wrapper = staticmethod(make_wrapper('A'))


class BMW(Middleware):
    wsgi_wrapper = staticmethod(make_wrapper('B'))


class TaggedErrorHandler(ErrorHandler):
    wsgi_wrapper = staticmethod(make_wrapper('EH'))


class ProvidingMW(Middleware):
    provides = ('greeting',)

    def request(self, next):
        return next(greeting='hi')


def call_wsgi(app, path='/', method='GET', query='', headers=None,
              extra_environ=None):
    environ = {}
    setup_testing_defaults(environ)
    environ['REQUEST_METHOD'] = method
    environ['PATH_INFO'] = path
    environ['QUERY_STRING'] = query
    if method == 'POST':
        environ['CONTENT_LENGTH'] = '0'
        environ['wsgi.input'] = io.BytesIO(b'')
    for key, value in (headers or {}).items():
        environ['HTTP_' + key.upper().replace('-', '_')] = value
    environ.update(extra_environ or {})
    calls = []

    def start_response(status, response_headers, exc_info=None):
        calls.append((status, list(response_headers)))
        return lambda data: None

    del TRACE[:]
    app_iter = validator(app)(environ, start_response)
    chunks = []
    try:
        for chunk in app_iter:
            assert len(calls) == 1, 'body before start_response'
            assert isinstance(chunk, bytes)
            chunks.append(chunk)
    finally:
        app_iter.close()
    assert len(calls) == 1, calls
    status, response_headers = calls[0]
    for name, value in response_headers:
        assert type(name) is str and type(value) is str
    return status, response_headers, b''.join(chunks)


CLOSED = []


class ClosingIter(object):
    def __init__(self, chunks):
        self.chunks = iter(chunks)

    def __iter__(self):
        return self

    def __next__(self):
        return next(self.chunks)

    def close(self):
        CLOSED.append(self)


def hello():
    return Response('hello')


def streamed():
    return Response(ClosingIter([b'a', b'bc', b'', b'def']),
                    mimetype='text/plain')


def context(db):
    return {'db': db, 'n': 0, 'empty': '', 'none': None}


def moved():
    return redirect('/elsewhere')


def boom():
    raise ValueError('boom')


def bad_request():
    raise BadRequest('nope')


def not_a_response():
    return 42


def greet(greeting):
    return Response(greeting)


SEEN_ENVIRONS = []


def target_wsgi(environ, start_response):
    SEEN_ENVIRONS.append(environ)
    start_response('202 Accepted', [('Content-Type', 'text/x-target'),
                                    ('X-One', '1'), ('X-One', '2')])
    if environ['REQUEST_METHOD'] == 'HEAD':
        return []
    return [b'target ', environ['PATH_INFO'].encode('ascii')]


def raise_reroute():
    raise RerouteWSGI(target_wsgi)


def build_routes():
    return [('/', hello),
            ('/stream', streamed),
            ('/ctx', context, render_basic),
            ('/moved', moved),
            ('/boom', boom),
            ('/bad', bad_request),
            ('/notresp', not_a_response),
            GET('/getonly', hello),
            POST('/postonly', hello),
            ('/branch/', hello),
            ('/reroute', RerouteWSGI(target_wsgi)),
            ('/reroute_raised', raise_reroute)]


EXPECTED = [('/', 'GET', '200'), ('/', 'POST', '200'), ('/', 'OPTIONS', '200'),
            ('/stream', 'GET', '200'), ('/ctx', 'GET', '200'),
            ('/moved', 'GET', '302'), ('/boom', 'GET', '500'),
            ('/bad', 'GET', '400'), ('/notresp', 'GET', '500'),
            ('/getonly', 'GET', '200'), ('/getonly', 'POST', '405'),
            ('/postonly', 'GET', '405'), ('/postonly', 'POST', '200'),
            ('/branch', 'GET', '302'), ('/branch/', 'GET', '200'),
            ('/missing', 'GET', '404'), ('/missing', 'POST', '404'),
            ('/reroute', 'GET', '202'), ('/reroute', 'POST', '202'),
            ('/reroute_raised', 'GET', '202')]


def check_conformance(app, expected=EXPECTED, accept=None):
    headers = {'Accept': accept} if accept else None
    for path, method, code in expected:
        for meth in ((method, 'HEAD') if method == 'GET' else (method,)):
            del SEEN_ENVIRONS[:]
            del CLOSED[:]
            marker = object()
            status, rheaders, body = call_wsgi(
                app, path, meth, headers=headers,
                extra_environ={'demo.marker': marker, 'HTTP_X_KEEP': 'kept'})
            if meth == 'HEAD' and code == '405':
                continue
            assert status.startswith(code), (path, meth, status)
            if meth == 'HEAD':
                assert body == b'', (path, body)
            if path == '/stream':
                assert len(CLOSED) == 1
                if meth == 'GET':
                    assert body == b'abcdef'
            if path.startswith('/reroute'):
                assert status == '202 Accepted'
                assert [h for h in rheaders if h[0] != 'Content-Length'] == \
                    [('Content-Type', 'text/x-target'), ('X-One', '1'),
                     ('X-One', '2')], rheaders
                assert len(SEEN_ENVIRONS) == 1
                seen = SEEN_ENVIRONS[0]
                assert seen['demo.marker'] is marker
                assert seen['HTTP_X_KEEP'] == 'kept'
                assert seen['PATH_INFO'] == path
                assert seen['REQUEST_METHOD'] == meth
                if meth != 'HEAD':
                    assert body == b'target ' + path.encode('ascii')


def expect_raises(exc_type, fragment, func, *a, **kw):
    try:
        func(*a, **kw)
    except exc_type as e:
        assert fragment in str(e), (fragment, str(e))
        return e
    raise AssertionError('expected %s' % exc_type.__name__)


def main():
    # --- construction: options, defaults, copies -------------------------
    app = Application()
    assert app.debug is None and app.slash_mode == S_REDIRECT
    assert app.resources == {} and app.middlewares == [] and app.routes == []
    assert app.render_factory is None
    assert type(app.error_handler) is ErrorHandler
    assert app._null_route is not None and app._null_route not in app.routes
    assert call_wsgi(app, '/')[0].startswith('404')

    for falsy in (None, [], ()):
        app = Application(falsy, falsy and {} or None, falsy)
        assert app.routes == [] and app.resources == {}
        assert app.middlewares == []

    resources = {'db': 'the-db'}
    mws = [AMW(), BMW()]
    routes = build_routes()
    factory = object()
    app = Application(routes, resources, mws, debug=0, slash_mode=S_STRICT)
    assert app.debug == 0 and app.debug is not None
    assert app.slash_mode == S_STRICT
    assert app.resources == resources and app.resources is not resources
    assert app.middlewares == mws and app.middlewares is not mws
    assert len(routes) == len(build_routes())  # argument untouched
    assert len(app.routes) == len(routes)
    assert [r.pattern for r in app.routes] == \
        [r[0] if isinstance(r, tuple) else r.pattern for r in routes]
    assert type(app.error_handler) is ErrorHandler
    resources['later'] = 1
    mws.append(ProvidingMW())
    assert 'later' not in app.resources and len(app.middlewares) == 2

    dbg = Application(routes, resources, debug=True)
    assert dbg.debug is True
    assert type(dbg.error_handler) is ContextualErrorHandler
    custom_eh = TaggedErrorHandler()
    assert Application(debug=True, error_handler=custom_eh).error_handler \
        is custom_eh

    # argument errors, in the order they are detected
    e = expect_raises(TypeError, 'unexpected keyword args', Application,
                      [], None, None, bogus=1, debug=True)
    assert 'bogus' in str(e) and 'debug' not in str(e)
    expect_raises(TypeError, 'unexpected keyword args', Application,
                  resources={'request': 1}, bogus=1)
    expect_raises(NameError, 'resource names conflict with builtins',
                  Application, resources={'request': 1, 'ok': 2},
                  middlewares=[object()])
    expect_raises(NameError, 'found conflicting provides', Application,
                  [('/', boom, 'not a render')],
                  middlewares=[ProvidingMW(), ProvidingMW()])
    expect_raises(NameError, '', Application, [('/', greet)])
    expect_raises(TypeError, 'Could not create route', Application, [object()])

    class NoRenderErrorEH(object):
        pass
    expect_raises(AttributeError, 'render_error', Application,
                  [object()], error_handler=NoRenderErrorEH())

    # the render factory is in place before routes are bound
    made = []

    def render_factory(render_arg):
        made.append(render_arg)
        return lambda context: Response('rendered:%s' % render_arg)
    rf_app = Application([('/', lambda: {}, 'tmpl')],
                         render_factory=render_factory)
    assert made == ['tmpl'] and rf_app.render_factory is render_factory
    assert call_wsgi(rf_app, '/')[2] == b'rendered:tmpl'

    # resources and middleware provides are in place before routes are bound
    prov = Application([('/', greet), ('/ctx', context, render_basic)],
                       {'db': 'x'}, [ProvidingMW()])
    assert call_wsgi(prov, '/')[2] == b'hi'

    # --- wrapper order: error handler innermost --------------------------
    del BUILD[:]
    app = Application(build_routes(), {'db': 'd'}, [AMW(), BMW()],
                      error_handler=TaggedErrorHandler())
    assert BUILD == ['EH', 'B', 'A'], BUILD
    for path in ('/', '/boom', '/missing', '/reroute', '/moved'):
        call_wsgi(app, path)
        assert TRACE == ['A', 'B', 'EH'], (path, TRACE)
    # instance attribute holds the outermost callable, __call__ goes via it
    assert '_dispatch_wsgi' in vars(app)
    # a later set_error_handler wraps what is there (outermost)
    del BUILD[:]
    app.set_error_handler(TaggedErrorHandler())
    assert BUILD == ['EH']
    call_wsgi(app, '/')
    assert TRACE == ['EH', 'A', 'B', 'EH'], TRACE
    # routes added later are served, the stack is not rebuilt
    app.add(('/late', hello))
    assert call_wsgi(app, '/late')[0] == '200 OK'
    assert TRACE == ['EH', 'A', 'B', 'EH']

    # --- conformance for every kind of response --------------------------
    resources = {'db': 'the-db'}
    plain = Application(build_routes(), resources)
    check_conformance(plain)
    check_conformance(plain, accept='text/html')
    check_conformance(plain, accept='application/json')
    check_conformance(Application(build_routes(), resources, debug=True))
    check_conformance(Application(build_routes(), resources, debug=True),
                      accept='text/html')
    check_conformance(Application(build_routes(), resources,
                                  [AMW(), GzipMiddleware(), BMW()]),
                      accept='text/html')
    strict = Application(build_routes(), resources, slash_mode=S_STRICT)
    check_conformance(strict, [e if e[0] != '/branch' else
                               ('/branch', 'GET', '404') for e in EXPECTED])
    rewrite = Application(build_routes(), resources, slash_mode=S_REWRITE)
    check_conformance(rewrite, [e if e[0] != '/branch' else
                                ('/branch', 'GET', '200') for e in EXPECTED])

    # gzip really compresses and stays conforming
    gz = Application([('/', lambda: Response('x' * 5000))],
                     middlewares=[GzipMiddleware()])
    status, rheaders, body = call_wsgi(gz, '/',
                                       headers={'Accept-Encoding': 'gzip'})
    assert status == '200 OK' and ('Content-Encoding', 'gzip') in rheaders
    assert len(body) < 5000

    # embedding, plus the meta application
    inner = Application(build_routes(), resources, [BMW()])
    outer = Application([('/in', inner), ('/_meta', MetaApplication()),
                         ('/', hello)], {'db': 'outer-db'}, [AMW()])
    check_conformance(outer, [('/in' + p if p != '/' else '/in/', m, c)
                              for (p, m, c) in EXPECTED
                              if not p.startswith('/branch')])
    call_wsgi(outer, '/in/')
    assert TRACE == ['A', 'B'], TRACE
    for accept in (None, 'text/html'):
        status, rheaders, body = call_wsgi(
            outer, '/_meta/', headers={'Accept': accept} if accept else None)
        assert status == '200 OK' and body
        status, rheaders, body = call_wsgi(outer, '/_meta/', 'HEAD')
        assert status == '200 OK' and body == b''
    # the embedded one still stands alone
    check_conformance(inner)
    print('PASS')


if __name__ == '__main__':
    main()
    sys.exit(0)
