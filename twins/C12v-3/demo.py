# -*- coding: utf-8 -*-
"""demo3: C12 (concurrent requests on one Application do not interfere),
with emphasis on sinter.build_chain_str / compile_chain / make_chain --
the generator of the nested-closure source every request runs through.
The generated text is compared with literal expectations, character by
character, so is the "<sinter generated ...>" filename derived from it.

Prints PASS and exits 0 on success.
"""
import os
import sys
import hashlib
import linecache
import threading

sys.path.insert(0, os.path.dirname(os.path.abspath(__file__)))

import clastic
assert os.path.dirname(os.path.abspath(clastic.__file__)).startswith(
    os.path.dirname(os.path.abspath(__file__))), clastic.__file__

from werkzeug.test import Client
from werkzeug.wrappers import Response

from clastic import Application, Middleware, Route, GET, POST
from clastic.errors import NotFound
from clastic.sinter import build_chain_str, compile_chain, make_chain


# ---------------------------------------------------------------- part A
# the generated source

def mw_one(next, zeta, alpha, unknown_one=None):
    return next(beta=alpha + zeta)


def mw_two(next, beta, alpha):
    return next(gamma=beta * 2)


def final(gamma, alpha, beta, delta='d', epsilon='e'):
    return (gamma, alpha, beta, delta, epsilon)


class CallableFinal(object):
    def __call__(self, gamma, zeta):
        return ('callable', gamma, zeta)


EXPECTED_3 = (
    "def next(alpha, zeta):\n"
    "    def next(beta):\n"
    "        def next(gamma):\n"
    "            __traceback_hide__ = True\n"
    "            return funcs[2](alpha=alpha, beta=beta, gamma=gamma)\n"
    "        __traceback_hide__ = True\n"
    "        return funcs[1](alpha=alpha, beta=beta, next=next)\n"
    "    __traceback_hide__ = True\n"
    "    return funcs[0](alpha=alpha, next=next, zeta=zeta)\n")

EXPECTED_OFFSET = (
    "        def inner(a):\n"
    "            def inner():\n"
    "                __traceback_hide__ = True\n"
    "                return funcs[3](alpha=alpha, gamma=gamma)\n"
    "            __traceback_hide__ = True\n"
    "            return funcs[2](alpha=alpha, inner=inner)\n")


def check_chain_source():
    funcs = [mw_one, mw_two, final]
    params = [['alpha', 'zeta'], ('beta',), ['gamma']]

    assert build_chain_str(funcs, params, 'next') == EXPECTED_3
    assert build_chain_str(tuple(funcs), tuple(params), 'next') == EXPECTED_3
    # surplus params are ignored
    assert build_chain_str(funcs, params + [['extra']], 'next') == EXPECTED_3

    # stopping case
    assert build_chain_str([], [], 'next') == ''
    assert build_chain_str((), [['ignored']], 'next', set(), 7) == ''

    # single level; the inner name is only passed when asked for
    assert build_chain_str([final], [[]], 'next') == (
        "def next():\n"
        "    __traceback_hide__ = True\n"
        "    return funcs[0]()\n")
    assert build_chain_str([mw_two], [['alpha']], 'nxt') == (
        "def nxt(alpha):\n"
        "    __traceback_hide__ = True\n"
        "    return funcs[0](alpha=alpha)\n")

    # explicit params_sofar (updated in place, inner name NOT added) and
    # a starting level
    sofar = set(['gamma', 'alpha'])

    def wants_inner(inner, alpha, beta):
        pass
    out = build_chain_str([wants_inner, final], [['a'], []], 'inner', sofar, 2)
    assert out == (
        "        def inner(a):\n"
        "            def inner():\n"
        "                __traceback_hide__ = True\n"
        "                return funcs[3](alpha=alpha, gamma=gamma)\n"
        "            __traceback_hide__ = True\n"
        "            return funcs[2](alpha=alpha)\n"), out
    assert sofar == set(['gamma', 'alpha', 'a']), sofar
    sofar2 = set(['inner', 'alpha', 'gamma'])
    out = build_chain_str([wants_inner, final], [['a'], []], 'inner',
                          params_sofar=sofar2, level=2)
    assert out == EXPECTED_OFFSET, out
    # an empty set passed in is used, not replaced
    empty = set()
    build_chain_str([final], [['gamma']], 'next', empty)
    assert empty == set(['gamma'])

    # errors: too few params, params that are not strings, non-callables
    for bad_params, exc_type in (([['alpha', 'zeta'], ['beta']], IndexError),
                                 ([['alpha', 'zeta'], [1], ['gamma']], TypeError),
                                 ([['alpha'], None, ['gamma']], TypeError)):
        sofar = set()
        try:
            build_chain_str(funcs, bad_params, 'next', sofar)
        except exc_type as e:
            assert type(e) is exc_type
        else:
            raise AssertionError('expected %s' % exc_type.__name__)
        # the levels before the bad one were processed
        assert set(bad_params[0]) <= sofar, sofar
    try:
        build_chain_str([mw_one, 3], [['alpha'], ['beta']], 'next')
    except TypeError:
        pass
    else:
        raise AssertionError('expected TypeError')

    # compiled: closures over funcs, values live in the call frames
    chain = compile_chain(funcs, params, 'next')
    assert chain(alpha=2, zeta=3) == (10, 2, 5, 'd', 'e')
    assert chain(zeta='z', alpha='a') == ('azaz', 'a', 'az', 'd', 'e')
    code_hash = hashlib.sha1(EXPECTED_3.encode('utf8')).hexdigest()[:16]
    filename = '<sinter generated next %s>' % code_hash
    assert chain.__code__.co_filename == filename
    assert chain.__name__ == 'next'
    assert linecache.cache[filename] == (len(EXPECTED_3), None,
                                         EXPECTED_3.splitlines(True), filename)
    assert linecache.getline(filename, 9) == \
        "    return funcs[0](alpha=alpha, next=next, zeta=zeta)\n"

    # make_chain: argspec + compile
    chain, args, unresolved = make_chain([mw_one, mw_two], [('beta',), ('gamma',)],
                                         final, ['alpha', 'zeta', 'delta', 'other'],
                                         'next')
    assert args == set(['alpha', 'zeta', 'delta']) and unresolved == set()
    assert chain(alpha=1, zeta=1, delta='D') == (4, 1, 2, 'D', 'e')
    chain, args, unresolved = make_chain([mw_two], [('gamma',)], CallableFinal(),
                                         ['alpha'], 'next')
    assert args == set(['alpha', 'beta', 'zeta']), args
    assert unresolved == set(['beta', 'zeta']), unresolved
    assert chain(alpha=0, beta=4, zeta='Z') == ('callable', 8, 'Z')
    chain, args, unresolved = make_chain((), (), final, ['gamma', 'alpha', 'beta'],
                                         'next')
    assert chain(gamma=1, alpha=2, beta=3) == (1, 2, 3, 'd', 'e')


# ---------------------------------------------------------------- part B
# concurrent requests on one application

class TokenMW(Middleware):
    provides = ('token',)

    def request(self, next, request):
        return next(token='tok-' + request.args.get('t', 'none'))


class StampMW(Middleware):
    endpoint_provides = ('stamp',)
    render_provides = ('suffix',)

    def endpoint(self, next, request):
        return next(stamp=request.path.upper())

    def render(self, next, context, request):
        return next(suffix='/' + request.method.lower())


class CallableEndpoint(object):
    def __call__(self, request, name, token, greeting):
        return {'kind': 'callable', 'name': name, 'token': token,
                'greeting': greeting}


class Endpoints(object):
    def echo(self, request, name, num, token, stamp, _route, _dispatch_state):
        assert request.path_params == {'name': name, 'num': num}
        assert not _dispatch_state.exceptions
        return {'kind': 'echo', 'name': name, 'num': num, 'token': token,
                'stamp': stamp, 'pattern': _route.pattern}


def post_ep(request, token):
    return {'kind': 'post', 'body': request.get_data(as_text=True),
            'token': token}


def fall_first(x):
    raise NotFound(is_breaking=False, detail='first:' + x)


def fall_second(x, _dispatch_state, token):
    excs = _dispatch_state.exceptions
    assert len(excs) == 1 and excs[0].detail == 'first:' + x, excs
    return {'kind': 'fall', 'x': x, 'token': token}


def boom(x):
    raise ValueError('boom-' + x)


def direct(x, stamp):
    return Response('direct:%s:%s' % (x, stamp), status=202,
                    mimetype='text/plain')


def branch(token):
    return {'kind': 'branch', 'token': token}


def render_ctx(context, suffix, request):
    body = ';'.join('%s=%s' % kv for kv in sorted(context.items()))
    resp = Response(body + suffix, mimetype='text/plain')
    resp.headers['X-Req-Id'] = str(request.request_id)
    resp.headers['X-Req-Guid'] = request.request_guid
    return resp


def make_app():
    eps = Endpoints()
    routes = [GET('/echo/<name>/<num:int>', eps.echo, render_ctx),
              POST('/post', post_ep, render_ctx),
              Route('/call/<name>', CallableEndpoint(), render_ctx),
              Route('/fall/<x>', fall_first, render_ctx),
              Route('/fall/<x>', fall_second, render_ctx),
              Route('/boom/<x>', boom, render_ctx),
              Route('/direct/<x>', direct, render_ctx),
              Route('/dir/', branch, render_ctx)]
    return Application(routes, resources={'greeting': 'hi'},
                       middlewares=[TokenMW(), StampMW()])


def fetch(client, spec):
    method, path, data = spec
    resp = client.open(path, method=method, data=data)
    headers = dict(resp.headers)
    req_id = headers.pop('X-Req-Id', None)
    guid = headers.pop('X-Req-Guid', None)
    headers.pop('Content-Length', None)
    return (resp.status_code, sorted(headers.items()),
            resp.get_data(as_text=True)), req_id, guid


def specs_for(i):
    n = 'n%d' % i
    return [('GET', '/echo/%s/%d?t=%s' % (n, i, n), None),
            ('POST', '/post?t=p%d' % i, 'payload-%d' % i),
            ('POST', '/echo/%s/%d' % (n, i), None),          # 405
            ('GET', '/call/%s?t=c%d' % (n, i), None),
            ('GET', '/fall/f%d?t=%s' % (i, n), None),        # fallthrough
            ('GET', '/boom/b%d' % i, None),                  # 500
            ('GET', '/direct/d%d' % i, None),
            ('GET', '/dir?t=%d&x=%s' % (i, n), None),        # redirect
            ('GET', '/dir/?t=%d' % i, None),
            ('GET', '/missing/%s' % n, None),                # 404
            ('GET', '/echo/%s/notanint' % n, None)]          # 404


def check_concurrent(n_threads=4, rounds=40):
    app = make_app()
    expected = {}
    seen_ids = []
    for i in range(n_threads):
        for spec in specs_for(i):
            first, rid, guid = fetch(Client(app, Response), spec)
            again, rid2, guid2 = fetch(Client(app, Response), spec)
            assert first == again, (spec, first, again)
            expected[spec] = first
            seen_ids.extend([x for x in (rid, rid2) if x is not None])
            assert (rid is None) == (guid is None)
            if rid is not None:
                assert guid != guid2 and len(guid) == 24

    statuses = sorted(set(v[0] for v in expected.values()))
    assert statuses == [200, 202, 302, 404, 405, 500] or \
        statuses == [200, 202, 301, 404, 405, 500], statuses
    sample = expected[('GET', '/echo/n1/1?t=n1', None)]
    assert sample[2] == ('kind=echo;name=n1;num=1;pattern=/echo/<name>/<num:int>;'
                         'stamp=/ECHO/N1/1;token=tok-n1/get'), sample
    assert expected[('GET', '/call/n2?t=c2', None)][2] == \
        'greeting=hi;kind=callable;name=n2;token=tok-c2/get'
    assert expected[('GET', '/fall/f3?t=n3', None)][2] == \
        'kind=fall;token=tok-n3;x=f3/get'
    assert expected[('POST', '/post?t=p0', 'payload-0')][2] == \
        'body=payload-0;kind=post;token=tok-p0/post'
    assert expected[('GET', '/direct/d0', None)][2] == 'direct:d0:/DIRECT/D0'
    loc = dict(expected[('GET', '/dir?t=1&x=n1', None)][1])['Location']
    assert loc.endswith('/dir/?t=1&x=n1'), loc

    errors = []
    ids = [[] for _ in range(n_threads)]
    barrier = threading.Barrier(n_threads)

    def worker(i):
        try:
            client = Client(app, Response)
            specs = specs_for(i)
            barrier.wait()
            for r in range(rounds):
                for spec in (specs if r % 2 == 0 else reversed(specs)):
                    got, rid, guid = fetch(client, spec)
                    if got != expected[spec]:
                        errors.append((spec, got, expected[spec]))
                    if rid is not None:
                        ids[i].append(rid)
        except Exception as e:  # pragma: no cover
            errors.append(('exception', i, repr(e)))

    old = sys.getswitchinterval()
    sys.setswitchinterval(1e-6)
    try:
        threads = [threading.Thread(target=worker, args=(i,))
                   for i in range(n_threads)]
        for t in threads:
            t.start()
        for t in threads:
            t.join()
    finally:
        sys.setswitchinterval(old)

    assert not errors, errors[:3]
    all_ids = seen_ids + [x for per in ids for x in per]
    assert len(all_ids) == len(set(all_ids)), 'duplicate request ids'
    # five of the eleven specs reach render_ctx and report their id
    assert all(len(per) == rounds * 5 for per in ids), [len(p) for p in ids]
    return len(all_ids)


if __name__ == '__main__':
    check_chain_source()
    n = check_concurrent()
    assert n > 0
    print('PASS')
