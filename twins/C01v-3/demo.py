# -*- coding: utf-8 -*-
"""demo3: what a bound route records about its dependencies at bind time.

BoundRoute.__init__ builds the middleware chain (NameError for
unsatisfiable parameters) and then resolves the endpoint's transitive
requirements (RuntimeError for cyclic provides).  This demo checks
accept / reject decisions, the resolved requirement lists (order
included) and the requests that reach the accepted routes.
"""
import sys

from werkzeug.wrappers import Response

from clastic import Application, Route
from clastic.middleware import Middleware
from clastic.errors import ErrorHandler
from clastic.route import RESERVED_ARGS


class ReraisingHandler(ErrorHandler):
    reraise_uncaught = True


def expect_raises(exc_type, func, *a, **kw):
    try:
        func(*a, **kw)
    except exc_type as e:
        assert type(e) is exc_type, type(e)
        return e
    raise AssertionError('expected %s' % exc_type.__name__)


def get(app, path):
    return app.get_local_client().get(path)


class Config(Middleware):
    provides = ('config',)

    def request(self, next, request):
        return next(config={'db': 'sqlite'})


class DB(Middleware):
    provides = ('db_session',)
    endpoint_provides = ('txn',)

    def request(self, next, config):
        return next(db_session='session(%s)' % config['db'])

    def endpoint(self, next, db_session, token=None):
        return next(txn='txn[%s,%s]' % (db_session, token))


class Auth(Middleware):
    provides = ('token', 'account')
    render_provides = ('flavor',)

    def request(self, next, db_session, realm='public'):
        return next(token='tok', account='acct@' + realm)

    def render(self, next, context, account):
        return next(flavor='plain')


class OnlyAttrs(Middleware):
    """Provides names without having any function (never supplies them)."""
    provides = ('ghost',)


def ep_plain():
    return Response('plain')


def ep_cfg(config, n=0):
    return Response('%s/%s' % (config['db'], n))


def ep_full(account, txn, name, token='none', *, request, extra='x'):
    return Response('|'.join([account, txn, name, token, extra,
                              type(request).__name__]))


def ep_ctx(txn):
    return {'txn': txn}


def render_flavor(context, flavor, account='nobody'):
    return Response('%s:%s:%s' % (context['txn'], flavor, account))


class CallableEP(object):
    def __call__(self, db_session, config):
        return Response('obj:' + db_session)


class Holder(object):
    def method_ep(self, token, res):
        return Response('method:%s:%s' % (token, res))

    @staticmethod
    def static_ep(account):
        return Response('static:' + account)

    @classmethod
    def class_ep(cls, account, realm='r'):
        return Response('class:%s:%s' % (account, realm))


def main():
    mws = [Config(), DB(), Auth()]
    app = Application([('/plain', ep_plain),
                       ('/cfg/<n:int>', ep_cfg),
                       ('/full/<name>', ep_full),
                       Route('/ctx', ep_ctx, render_flavor),
                       ('/obj', CallableEP()),
                       ('/method', Holder().method_ep),
                       ('/static', Holder.static_ep),
                       ('/class', Holder.class_ep)],
                      resources={'res': 'R'},
                      middlewares=mws,
                      error_handler=ReraisingHandler())
    routes = dict((r.pattern, r) for r in app.routes)

    expected_required = {
        '/plain': [],
        '/cfg/<n:int>': ['config', 'n'],
        '/full/<name>': ['account', 'db_session', 'config', 'realm', 'txn',
                         'token', 'name'],  # (keyword-only names are not listed)
        '/ctx': ['txn', 'db_session', 'config', 'token', 'realm'],
        '/obj': ['db_session', 'config'],
        '/method': ['token', 'db_session', 'config', 'realm', 'res'],
        '/static': ['account', 'db_session', 'config', 'realm'],
        '/class': ['account', 'db_session', 'config', 'realm'],
    }
    for pattern, expected in expected_required.items():
        actual = routes[pattern].get_required_args()
        assert actual == expected, (pattern, actual)
        for name in expected:
            assert routes[pattern].is_required_arg(name) is True
        for name in RESERVED_ARGS + ('nonexistent',):
            assert routes[pattern].is_required_arg(name) is False
        # the returned list is a copy
        actual.append('junk')
        assert routes[pattern].get_required_args() == expected

    with_builtins = routes['/full/<name>']._resolve_required_args(with_builtins=True)
    assert with_builtins == ['account', 'next', 'db_session', 'config', 'request',
                             'realm', 'txn', 'token', 'name'], with_builtins
    assert routes['/plain']._resolve_required_args(with_builtins=True) == []
    # the catch-all route only depends on builtins
    assert app._null_route.get_required_args() == []
    assert app._null_route._resolve_required_args(True) == [
        'request', '_application', '_route', '_dispatch_state']

    expected_bodies = {
        '/plain': b'plain',
        '/cfg/7': b'sqlite/7',
        '/full/bob': b'acct@public|txn[session(sqlite),tok]|bob|tok|x|Request',
        '/ctx': b'txn[session(sqlite),tok]:plain:acct@public',
        '/obj': b'obj:session(sqlite)',
        '/method': b'method:tok:R',
        '/static': b'static:acct@public',
        '/class': b'class:acct@public:r',
    }
    for path, body in expected_bodies.items():
        resp = get(app, path)
        assert resp.status_code == 200, (path, resp.status_code)
        assert resp.data == body, (path, resp.data)
    assert get(app, '/cfg/notint').status_code == 404
    assert get(app, '/nowhere').status_code == 404

    # --- rejections ----------------------------------------------------------
    # wrong order: DB needs config before Config provides it
    err = expect_raises(NameError, Application, [('/p', ep_plain)],
                        middlewares=[DB(), Config(), Auth()])
    assert 'config' in str(err)
    # endpoint needs something nobody provides
    err = expect_raises(NameError, Application, [('/p', lambda nope: None)],
                        middlewares=mws)
    assert 'nope' in str(err)
    # render_provides are not available to the endpoint
    expect_raises(NameError, Application, [('/p', lambda flavor: None)],
                  middlewares=mws)
    # endpoint_provides are not available to request middlewares
    class WantsTxn(Middleware):
        def request(self, next, txn):
            return next()
    expect_raises(NameError, Application, [('/p', ep_plain)],
                  middlewares=mws + [WantsTxn()])
    # a provides without a function never supplies the name
    expect_raises(NameError, Application, [('/p', lambda ghost: None)],
                  middlewares=[OnlyAttrs()])
    a = Application([('/p', lambda ghost='dflt': Response(ghost))],
                    middlewares=[OnlyAttrs()], error_handler=ReraisingHandler())
    assert get(a, '/p').data == b'dflt'
    assert a.routes[0].get_required_args() == ['ghost']
    # keyword-only required parameter that nobody supplies
    def kwo(*, missing):
        return Response('x')
    expect_raises(NameError, Application, [('/p', kwo)], middlewares=mws)
    # a resource fills it in
    a = Application([('/p', lambda *, missing: Response(missing))],
                    resources={'missing': 'found'})
    assert get(a, '/p').data == b'found'
    assert a.routes[0].get_required_args() == []  # keyword-only: not listed

    # --- cyclic provides: either rejected (today: RuntimeError) or sound ------
    class First(Middleware):
        provides = ('one',)

        def request(self, next, two=None):
            return next(one='1(%s)' % two)

    class Second(Middleware):
        provides = ('two',)

        def request(self, next, one):
            return next(two='2(%s)' % one)

    try:
        cyc = Application([('/c', lambda one, two: Response(one + two))],
                          middlewares=[First(), Second()],
                          error_handler=ReraisingHandler())
    except RuntimeError as e:
        assert 'cycle detected' in str(e), str(e)
    else:
        assert get(cyc, '/c').data == b'1(None)2(1(None))'

    # an optional parameter shadowing a *later* provider without a cycle is fine
    class Late(Middleware):
        provides = ('late',)

        def request(self, next):
            return next(late='L')

    class Early(Middleware):
        def request(self, next, late='early-default'):
            resp = next()
            resp.headers['X-Late'] = late
            return resp

    a = Application([('/l', lambda late: Response(late))],
                    middlewares=[Early(), Late()],
                    error_handler=ReraisingHandler())
    resp = get(a, '/l')
    assert resp.data == b'L' and resp.headers['X-Late'] == 'early-default'
    assert a.routes[0].get_required_args() == ['late']

    print('PASS')
    return 0


if __name__ == '__main__':
    sys.exit(main())
