# -*- coding: utf-8 -*-
"""demo1: WSGI wrappers contributed by middlewares / error handlers.

Exercises check_valid_wsgi, _safe_wrap_wsgi, _get_all_middlewares and
the wrapping done by Application.__init__: wrapping order, duplicates,
embedding, route-level middlewares, invalid wrappers (exact error
messages), and protocol conformance of the wrapped application.
"""
import os
import sys

sys.path.insert(0, os.path.dirname(os.path.abspath(__file__)))

from io import BytesIO
from wsgiref.util import setup_testing_defaults
from wsgiref.validate import validator

import clastic
from clastic import Application, Route, Middleware, Response
from clastic.errors import ErrorHandler
from clastic import application as app_mod

assert os.path.dirname(os.path.abspath(__file__)) in os.path.abspath(clastic.__file__)


def call_wsgi(app, method='GET', path='/', validate=True):
    environ = {'REQUEST_METHOD': method, 'PATH_INFO': path,
               'SCRIPT_NAME': '', 'QUERY_STRING': '',
               'wsgi.input': BytesIO(b'')}
    setup_testing_defaults(environ)
    environ['REQUEST_METHOD'] = method
    if method == 'POST':
        environ['CONTENT_LENGTH'] = '0'
    calls = []

    def start_response(status, headers, exc_info=None):
        calls.append((status, list(headers), exc_info))
        return lambda data: None

    target = validator(app) if validate else app
    result = target(environ, start_response)
    body_started_after = len(calls)
    chunks = []
    try:
        for chunk in result:
            assert len(calls) == 1, 'start_response must precede body'
            assert isinstance(chunk, bytes)
            chunks.append(chunk)
    finally:
        if hasattr(result, 'close'):
            result.close()
    assert len(calls) == 1, 'start_response called %r times' % len(calls)
    status, headers, exc_info = calls[0]
    assert isinstance(status, str) and status[:3].isdigit() and status[3] == ' '
    for k, v in headers:
        assert type(k) is str and type(v) is str
    return status, headers, b''.join(chunks), environ


def tracing_wrapper(tag):
    def wrapper(wsgi_app):
        def wrapped(environ, start_response):
            environ.setdefault('demo.trace', []).append(tag)
            return wsgi_app(environ, start_response)
        wrapped.tag = tag
        wrapped.inner = wsgi_app
        return wrapped
    return wrapper


def make_mw(tag, **attrs):
    body = dict(attrs)
    body['wsgi_wrapper'] = staticmethod(tracing_wrapper(tag))
    return type('MW_' + tag, (Middleware,), body)


MwA, MwB, MwC, MwD = [make_mw(t) for t in 'ABCD']


class PlainMW(Middleware):
    "no wsgi_wrapper attribute at all"


class NoneMW(Middleware):
    wsgi_wrapper = None


class FalsyWrapper(object):
    "callable, but falsy: must still be applied (only None means absent)"
    def __bool__(self):
        return False
    __nonzero__ = __bool__

    def __len__(self):
        return 0

    def __call__(self, wsgi_app):
        return tracing_wrapper('F')(wsgi_app)


class FalsyMW(Middleware):
    wsgi_wrapper = FalsyWrapper()


def ep(request):
    return Response(','.join(request.environ.get('demo.trace', [])),
                    mimetype='text/plain')


def trace_of(app, path='/', method='GET'):
    status, headers, body, environ = call_wsgi(app, method, path)
    assert status.startswith('200'), status
    if method == 'HEAD':
        assert body == b''
        return environ.get('demo.trace', [])
    return body.decode('ascii').split(',') if body else []


def reference_all_middlewares(bound_routes):
    # independent restatement of the dedup spec: last route first, first
    # occurrence (by ==) wins
    out = []
    for rt in list(bound_routes)[::-1]:
        for mw in tuple(rt.middlewares):
            if not any(mw is seen or mw == seen for seen in out):
                out.append(mw)
    return out


def test_order():
    assert trace_of(Application([('/', ep)])) == []
    assert trace_of(Application([('/', ep)], middlewares=[MwA()])) == ['A']
    for method in ('GET', 'HEAD', 'POST'):
        app = Application([Route('/', ep, methods=['GET', 'HEAD', 'POST'])],
                          middlewares=[MwA(), MwB(), MwC()])
        assert trace_of(app, method=method) == ['A', 'B', 'C'], method
    app = Application([('/', ep)], middlewares=[MwC(), MwA(), MwB()])
    assert trace_of(app) == ['C', 'A', 'B']
    # middlewares without a wrapper are skipped, falsy-but-callable is kept
    app = Application([('/', ep)],
                      middlewares=[MwA(), PlainMW(), NoneMW(), FalsyMW(), MwB()])
    assert trace_of(app) == ['A', 'F', 'B']
    # app with no routes: the application's own middlewares still wrap it (since fix 30dc2da;
    # before that nothing wrapped, because wrappers were collected from the bound routes only)
    app = Application([], middlewares=[MwA()])
    status, headers, body, environ = call_wsgi(app)
    assert status.startswith('404')
    assert environ.get('demo.trace') == ['A']


def test_structure():
    a, b, c = MwA(), MwB(), MwC()
    app = Application([('/', ep)], middlewares=[a, b, c])
    outer = app._dispatch_wsgi
    tags = []
    while hasattr(outer, 'tag'):
        tags.append(outer.tag)
        outer = outer.inner
    assert tags == ['A', 'B', 'C']
    # innermost is the bound Application._dispatch_wsgi method
    assert outer.__self__ is app
    assert outer.__func__ is Application.__dict__['_dispatch_wsgi']
    assert app_mod._get_all_middlewares(app.routes) == [a, b, c]
    got = app_mod._get_all_middlewares(app.routes)
    assert [x is y for x, y in zip(got, [a, b, c])] == [True] * 3
    assert app_mod._get_all_middlewares([]) == []
    assert type(app_mod._get_all_middlewares([])) is list
    # fresh list every time, input untouched
    routes_before = list(app.routes)
    assert app_mod._get_all_middlewares(app.routes) is not got
    assert app.routes == routes_before


def test_embedding_and_dedup():
    # embedding app's wrappers before the embedded one's
    inner = Application([('/', ep)], middlewares=[MwC()])
    app = Application([('/', inner)], middlewares=[MwA(), MwB()])
    assert trace_of(app) == ['A', 'B', 'C']
    assert trace_of(inner) == ['C']
    # same instance in both: applied once
    a = MwA()
    inner = Application([('/', ep)], middlewares=[a])
    app = Application([('/', inner)], middlewares=[a, MwB()])
    assert trace_of(app) == ['A', 'B']
    # separate instances of the same unique type: applied once
    inner = Application([('/', ep)], middlewares=[MwA(), MwC()])
    app = Application([('/sub', inner), ('/', ep)], middlewares=[MwB(), MwA()])
    assert trace_of(app, '/sub/') == trace_of(app, '/')
    assert trace_of(app) == ['B', 'A', 'C']
    # two levels of embedding
    innermost = Application([('/', ep)], middlewares=[MwD()])
    middle = Application([('/m', innermost)], middlewares=[MwC()])
    app = Application([('/o', middle)], middlewares=[MwA()])
    assert trace_of(app, '/o/m/') == ['A', 'C', 'D']


def test_route_level_middlewares():
    a, b, c, d = MwA(), MwB(), MwC(), MwD()
    routes = [Route('/one', ep, middlewares=[c]),
              Route('/two', ep, middlewares=[d]),
              Route('/three', ep, middlewares=[c, d]),
              Route('/four', ep)]
    app = Application(routes, middlewares=[a, b])
    expected = reference_all_middlewares(app.routes)
    got = app_mod._get_all_middlewares(app.routes)
    assert len(got) == len(expected)
    assert all(x is y for x, y in zip(got, expected))
    exp_tags = [type(m).__name__[-1] for m in expected]
    for path in ('/one', '/two', '/three', '/four'):
        assert trace_of(app, path) == exp_tags, (path, exp_tags)
    assert exp_tags[:2] == ['A', 'B'] and sorted(exp_tags) == list('ABCD')

    # non-unique-looking duplicates by equality: custom __eq__ always True
    class Same(Middleware):
        def __init__(self, tag):
            self.wsgi_wrapper = tracing_wrapper(tag)
            self.tag = tag

        def __eq__(self, other):
            return isinstance(other, Same)

        def __ne__(self, other):
            return not self.__eq__(other)
        __hash__ = None

    s1, s2 = Same('1'), Same('2')
    app = Application([Route('/x', ep, middlewares=[s1]),
                       Route('/y', ep, middlewares=[s2])])
    got = app_mod._get_all_middlewares(app.routes)
    assert len(got) == 1 and got[0] is s2  # last route is visited first
    assert trace_of(app, '/x') == ['2'] and trace_of(app, '/y') == ['2']


def expect_type_error(func, expected_msg=None, context_type=None):
    try:
        func()
    except TypeError as te:
        assert type(te) is TypeError
        if expected_msg is not None:
            assert str(te) == expected_msg, (str(te), expected_msg)
        if context_type is not None:
            assert type(te.__context__) is context_type, te.__context__
        return te
    raise AssertionError('TypeError not raised')


def test_check_valid_wsgi():
    cvw = app_mod.check_valid_wsgi

    def good(environ, start_response):
        pass

    def good_extra(environ, start_response, more=None, *a, **kw):
        pass

    class GoodObj(object):
        def __call__(self, environ, start_response):
            pass

    class GoodMeth(object):
        def meth(self, environ, start_response):
            pass

    for ok in (good, good_extra, GoodObj(), GoodMeth().meth,
               lambda environ, start_response: None, Application()):
        assert cvw(ok) is None

    for bad in (42, None, 'app', 0, '', [], object()):
        expect_type_error(lambda: cvw(bad),
                          'expected WSGI application (%r) to be callable' % (bad,))

    def no_args():
        pass

    def one_arg(environ):
        pass

    def swapped(start_response, environ):
        pass

    def wrong_second(environ, nope):
        pass

    def wrong_first(env, start_response):
        pass

    def shifted(x, environ, start_response):
        pass

    def varargs_only(*args):
        pass

    bads = [(no_args, ()), (one_arg, ('environ',)),
            (swapped, ('start_response', 'environ')),
            (wrong_second, ('environ', 'nope')),
            (wrong_first, ('env', 'start_response')),
            (shifted, ('x', 'environ')),
            (varargs_only, ())]
    for bad, leading in bads:
        te = expect_type_error(lambda: cvw(bad))
        prefix = ('expected WSGI callable (%r) to accept two arguments, '
                  '`environ` and `start_response`, respectively, not ' % (bad,))
        assert str(te).startswith(prefix), str(te)
        shown = str(te)[len(prefix):]
        assert shown in (repr(tuple(leading)), repr(list(leading))), shown


def test_invalid_wrappers():
    swn = app_mod._safe_wrap_wsgi

    def inner(environ, start_response):
        pass

    class Src(object):
        def __repr__(self):
            return '<Src>'

    # no wrapper / None wrapper: inner returned unchanged (identity)
    assert swn('middleware', Src(), inner) is inner
    src = Src()
    src.wsgi_wrapper = None
    assert swn('error_handler', src, inner) is inner

    # non-callable, non-None wrappers (including falsy ones)
    for name in ('middleware', 'error_handler'):
        for bad in ('nope', 0, '', 1.5, [], {}, False):
            src = Src()
            src.wsgi_wrapper = bad
            expect_type_error(
                lambda: swn(name, src, inner),
                'expected %s.wsgi_wrapper to be callable or None, not %r'
                % (name, bad))

    # valid wrapper: result of the wrapper returned as is, wrapper gets inner
    seen = []

    def outer(environ, start_response):
        pass

    def wrapper(app):
        seen.append(app)
        return outer
    src = Src()
    src.wsgi_wrapper = wrapper
    assert swn('middleware', src, inner) is outer
    assert seen == [inner] and seen[0] is inner

    # wrapper returning something that is not WSGI
    def bad_sig(environ, nope):
        pass
    for name in ('middleware', 'error_handler'):
        for product in (42, None, bad_sig):
            src = Src()
            src.wsgi_wrapper = wrapper_returning = (lambda p: (lambda app: p))(product)
            try:
                app_mod.check_valid_wsgi(product)
            except TypeError as exc:
                issue = exc
            expected = ('expected valid WSGI callable from %s (%r) WSGI wrapper'
                        ' (%r), instead got issue: %r'
                        % (name, src, wrapper_returning, issue))
            expect_type_error(lambda: swn(name, src, inner), expected,
                              context_type=TypeError)

    # exceptions raised by the wrapper itself propagate untouched
    class Boom(Exception):
        pass

    def raising_wrapper(app):
        raise Boom('boom')
    src = Src()
    src.wsgi_wrapper = raising_wrapper
    try:
        swn('middleware', src, inner)
    except Boom as b:
        assert str(b) == 'boom' and b.__context__ is None
    else:
        raise AssertionError('Boom not raised')

    def type_error_wrapper(app):
        raise TypeError('mine')
    src.wsgi_wrapper = type_error_wrapper
    te = expect_type_error(lambda: swn('middleware', src, inner), 'mine')
    assert te.__context__ is None

    # through the Application constructor
    class BadStrMW(Middleware):
        wsgi_wrapper = "this should be a callable but isn't"
    expect_type_error(
        lambda: Application([('/', ep)], middlewares=[BadStrMW()]),
        'expected middleware.wsgi_wrapper to be callable or None, not %r'
        % (BadStrMW.wsgi_wrapper,))
    # ... also without any route (since fix 30dc2da the application's own middlewares always wrap)
    expect_type_error(
        lambda: Application([], middlewares=[BadStrMW()]),
        'expected middleware.wsgi_wrapper to be callable or None, not %r'
        % (BadStrMW.wsgi_wrapper,))

    class BadStrEH(ErrorHandler):
        wsgi_wrapper = 'nope'
    expect_type_error(
        lambda: Application([], error_handler=BadStrEH()),
        "expected error_handler.wsgi_wrapper to be callable or None, not 'nope'")

    class BadSigMW(Middleware):
        wsgi_wrapper = staticmethod(lambda app: lambda environ, nope: 'lol')
    te = expect_type_error(lambda: Application([('/', ep)], middlewares=[MwA(), BadSigMW()]),
                           context_type=TypeError)
    assert str(te).startswith('expected valid WSGI callable from middleware (')
    assert "instead got issue: TypeError(" in str(te)

    class BadSigEH(ErrorHandler):
        wsgi_wrapper = staticmethod(lambda app: lambda environ: 'lol')
    te = expect_type_error(lambda: Application([], error_handler=BadSigEH()),
                           context_type=TypeError)
    assert str(te).startswith('expected valid WSGI callable from error_handler (')


def test_error_handler_wrapper_position():
    # the error handler's wrapper is applied first (innermost), and again
    # on every set_error_handler call
    class TracingEH(ErrorHandler):
        wsgi_wrapper = staticmethod(tracing_wrapper('EH'))

    app = Application([('/', ep)], middlewares=[MwA(), MwB()],
                      error_handler=TracingEH())
    assert trace_of(app) == ['A', 'B', 'EH']
    app.set_error_handler(TracingEH())
    assert trace_of(app) == ['EH', 'A', 'B', 'EH']
    app.set_error_handler()
    assert trace_of(app) == ['EH', 'A', 'B', 'EH']
    assert type(app.error_handler) is ErrorHandler


def test_conformance_through_wrappers():
    def boom(request):
        raise ValueError('boom')

    def ctx():
        return {'a': 1}
    routes = [Route('/', ep, methods=['GET', 'HEAD', 'POST']),
              ('/boom', boom),
              ('/ctx', ctx, clastic.render_basic),
              Route('/getonly', ep, methods=['GET'])]
    for debug in (False, True):
        app = Application(routes, middlewares=[MwA(), PlainMW(), MwB()],
                          debug=debug)
        for method in ('GET', 'HEAD', 'POST', 'OPTIONS'):
            for path, codes in (('/', ('200', '405')), ('/boom', ('500',)),
                                ('/ctx', ('200',)), ('/missing', ('404',)),
                                ('/getonly', ('200', '405'))):
                status, headers, body, environ = call_wsgi(app, method, path)
                assert status[:3] in codes, (method, path, status)
                assert environ['demo.trace'] == ['A', 'B']
                if method == 'HEAD':
                    assert body == b'', (path, body)


def main():
    test_order()
    test_structure()
    test_embedding_and_dedup()
    test_route_level_middlewares()
    test_check_valid_wsgi()
    test_invalid_wrappers()
    test_error_handler_wrapper_position()
    test_conformance_through_wrappers()
    print('PASS')


if __name__ == '__main__':
    main()
