"""Self-validation of the checker (DESIGN.md section 7).

Each variant is a small source edit of a scratch copy of ``<root>/clastic`` (under a temp dir that is
removed afterwards).  *Breaking* variants must make the named property's check exit 1 with a violation
of the expected rule; *twins* (behaviour-preserving rewrites) must leave it at exit 0.  A variant whose
anchor text is absent from the current tree is skipped (the tree moved on), never counted as a pass.
"""
import io
import json
import os
import shutil
import sys
import tempfile
import time
from concurrent.futures import ProcessPoolExecutor
from contextlib import redirect_stdout

from .variants import VARIANTS


def _copy_tree(root, dst):
    src = os.path.join(root, 'clastic')
    for dp, dn, fn in os.walk(src):
        dn[:] = [d for d in dn if d not in ('__pycache__', 'tests', 'docs')]
        rel = os.path.relpath(dp, root)
        os.makedirs(os.path.join(dst, rel), exist_ok=True)
        for f in fn:
            if f.endswith(('.py', '.html')):
                shutil.copyfile(os.path.join(dp, f), os.path.join(dst, rel, f))


def _apply(dst, edits):
    for rel, old, new in edits:
        p = os.path.join(dst, rel)
        if old == '__NEW__':
            # a variant may create a module (a definition moved into a new private module of the package)
            os.makedirs(os.path.dirname(p), exist_ok=True)
            with open(p, 'w') as f:
                f.write(new)
            continue
        with open(p) as f:
            s = f.read()
        if old == '__UNPARSE__':
            # whole-file normalisation: comments dropped, quoting / line breaks / parentheses re-generated
            import ast as _ast
            s = _ast.unparse(_ast.parse(s)) + '\n'
        elif old.startswith('re:'):
            import re as _re
            s2 = _re.sub(old[3:], new, s)
            if s2 == s:
                return False
            s = s2
        else:
            if old not in s:
                return False
            s = s.replace(old, new, 1)
        with open(p, 'w') as f:
            f.write(s)
    return True


def run_variant(args):
    v, root, base = args
    from .core import Report, EXIT_ANALYSIS
    from .loader import Repo
    from . import core as core_mod
    import importlib
    dst = tempfile.mkdtemp(prefix='v_', dir=base)
    out = []
    try:
        _copy_tree(root, dst)
        if 'patch' in v:
            import subprocess
            p = subprocess.run(['patch', '-p1', '-s', '-f', '-i', v['patch']], cwd=dst, stdout=subprocess.PIPE,
                               stderr=subprocess.STDOUT, text=True)
            if p.returncode != 0:
                return {'id': v['id'], 'status': 'skipped', 'detail': 'patch does not apply to this tree'}
        elif not _apply(dst, v['edits']):
            return {'id': v['id'], 'status': 'skipped', 'detail': 'anchor text not present in this tree'}
        # syntax check of edited files
        for rel, _, _ in v['edits']:
            if rel.endswith('.py'):
                with open(os.path.join(dst, rel)) as f:
                    try:
                        compile(f.read(), rel, 'exec')
                    except SyntaxError as e:
                        return {'id': v['id'], 'status': 'bad-variant', 'detail': 'edit does not compile: %s' % e}
        res = {}
        for pid in v['props']:
            try:
                pm = importlib.import_module('vt.props.%s' % pid.lower())
            except ModuleNotFoundError:
                continue
            try:
                repo = Repo(dst)
                rep = Report(pid, 'quick', repo)
                pm.run(rep)
                kk = core_mod.known_set()
                viols = [o for o in rep.obligations if not o.ok and not core_mod.is_known(pid, o.rule, o.key, kk)]
                if not viols and rep.gaps:
                    res[pid] = ('analysis-error', [('', '', '; '.join(rep.gaps)[:300])])
                else:
                    res[pid] = ('viol' if viols else 'ok', [(o.rule, o.key, o.detail[:160]) for o in viols])
            except core_mod.AnalysisError as e:
                res[pid] = ('analysis-error', [('', '', str(e)[:300])])
            except Exception as e:   # checker crash
                import traceback
                res[pid] = ('analysis-error', [('', '', traceback.format_exc()[-600:])])
        ok = True
        notes = []
        for pid, (st, viols) in res.items():
            if v['kind'] == 'break':
                want_rule = v.get('rule')
                if isinstance(want_rule, dict):
                    want_rule = want_rule.get(pid)
                hit = st == 'viol' and (want_rule is None or any(r.startswith(want_rule) for r, _, _ in viols))
                if not hit:
                    ok = False
                    notes.append('%s: expected a violation of %s, got %s %s' % (pid, want_rule, st, viols[:2]))
                else:
                    notes.append('%s: caught by %s' % (pid, sorted(set(r for r, _, _ in viols))))
            else:
                if st == 'analysis-error' and v.get('gap_ok'):
                    notes.append('%s: analysis gap, as documented for this refactoring' % pid)
                elif st != 'ok':
                    ok = False
                    notes.append('%s: twin raised %s %s' % (pid, st, viols[:3]))
        return {'id': v['id'], 'status': 'ok' if ok else 'FAIL', 'kind': v['kind'], 'detail': '; '.join(notes)}
    finally:
        shutil.rmtree(dst, ignore_errors=True)


HERE = os.path.dirname(os.path.dirname(os.path.abspath(__file__)))
ALL_PROPS = ['C%02d' % i for i in range(1, 21)]


def patch_variants():
    """Changes written by independent sub-agents and confirmed by hand (DESIGN.md section 10): every seeded
    change must be reported by its property's check (except the ones listed, with the reason, in
    seeded/DECLINED.json); every refactoring under twins/ must leave *all* checks silent."""
    out = []
    sd = os.path.join(HERE, 'seeded')
    declined = {}
    try:
        with open(os.path.join(sd, 'DECLINED.json')) as f:
            declined = json.load(f)
    except (IOError, ValueError):
        pass
    expected_gap = {}
    try:
        with open(os.path.join(HERE, 'twins', 'EXPECTED_ANALYSIS_ERROR.json')) as f:
            expected_gap = json.load(f)
    except (IOError, ValueError):
        pass
    for kind, d in (('break', sd), ('twin', os.path.join(HERE, 'twins'))):
        if not os.path.isdir(d):
            continue
        for name in sorted(os.listdir(d)):
            mp = os.path.join(d, name, 'meta.json')
            pp = os.path.join(d, name, 'patch.diff')
            if not (os.path.isfile(mp) and os.path.isfile(pp)) or name in declined:
                continue
            with open(mp) as f:
                meta = json.load(f)
            out.append({'id': ('seed:' if kind == 'break' else 'twin:') + name, 'kind': kind, 'rule': None, 'patch': pp,
                        'gap_ok': kind == 'twin' and name in expected_gap,
                        'edits': [], 'props': [meta['property']] if kind == 'break' else list(ALL_PROPS)})
    return out


def run(only=None, root='/repo', jobs=16, verbose=False, quiet=False):
    t0 = time.time()
    pv = patch_variants()
    skip = os.environ.get('VT_SELFTEST_SKIP', '')     # 'twins' / 'seeds' / 'twins,seeds' (development aid)
    if 'twins' in skip:
        pv = [v for v in pv if not v['id'].startswith('twin:')]
    if 'seeds' in skip:
        pv = [v for v in pv if not v['id'].startswith('seed:')]
    allv = list(VARIANTS) + pv
    todo = [v for v in allv if only is None or only.upper() in v['props']]
    if only is not None:
        todo = [dict(v, props=[only.upper()]) for v in todo]
    base = tempfile.mkdtemp(prefix='vt_selftest_')
    results = []
    try:
        with ProcessPoolExecutor(max_workers=max(1, min(jobs, len(todo) or 1))) as ex:
            for r in ex.map(run_variant, [(v, root, base) for v in todo]):
                results.append(r)
    finally:
        shutil.rmtree(base, ignore_errors=True)
    fails = [r for r in results if r['status'] in ('FAIL', 'bad-variant')]
    skipped = [r for r in results if r['status'] == 'skipped']
    summary = {'variants': len(results), 'ok': sum(1 for r in results if r['status'] == 'ok'),
               'breaking_caught': sum(1 for r in results if r['status'] == 'ok' and r.get('kind') == 'break'),
               'twins_silent': sum(1 for r in results if r['status'] == 'ok' and r.get('kind') == 'twin'),
               'skipped': [r['id'] for r in skipped], 'failed': [r['id'] for r in fails], 'wall_s': round(time.time() - t0, 2)}
    if not quiet:
        for r in results:
            if verbose or r['status'] != 'ok':
                print('%-8s %-34s %s' % (r['status'], r['id'], r['detail'][:400]))
        print('selftest: %(variants)d variants, %(ok)d ok (%(breaking_caught)d breaking caught, %(twins_silent)d twins silent), '
              '%(wall_s)ss' % summary, 'skipped=%d failed=%d' % (len(skipped), len(fails)))
    run.last_summary = summary
    run.last_results = results
    return 1 if fails else 0


run.last_summary = None
run.last_results = None
