"""vt -- static verification toolkit for clastic (see /verif/DESIGN.md).

Everything in this package inspects source text of /repo (and of the pinned
third-party packages) through ``ast`` / ``symtable`` / ``re._parser``.
No clastic module is imported or executed by any check.
"""
