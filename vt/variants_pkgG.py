"""Variants for C14 (static serving): refactoring shapes the rules follow, and breaking changes in those shapes."""
from .variants import B, T, S, C, R, A, E, ST, CK, STATS, GZ, CC, PF, RS, FL, META, CE

_REFUSALS = ("    if limit_root:\n"
             "        if rel_path.startswith('/'):\n"
             "            raise ValueError('expected relative path, not %r' % path)\n"
             "        if IS_WINDOWS and ':' in path:\n"
             "            raise ValueError('unexpected colon in path: %r' % path)\n"
             "        if rel_path.startswith(os.pardir):\n"
             "            raise ValueError('attempted to access beyond root directory')\n")
_FIND_DEF = 'def find_file(search_paths, path, limit_root=True):\n'
_LOOP = ("    for sr in search_paths:\n"
         "        full_path = pjoin(sr, rel_path)\n"
         "        if isfile(full_path):\n"
         "            return full_path\n"
         "    else:\n"
         "        return None\n")

# ------------------------------------------------------------------ R14.a: find_file
T('g14_named_refusal_tests', ['C14'],
  (ST, "        if rel_path.startswith('/'):\n", "        is_absolute = rel_path.startswith('/')\n        if is_absolute:\n"),
  (ST, "        if rel_path.startswith(os.pardir):\n", "        climbs_out = bool(rel_path.startswith(os.pardir))\n        if climbs_out:\n"))
T('g14_refusals_in_private_helper', ['C14'],
  (ST, _REFUSALS, "    if limit_root:\n        _refuse_outside(path, rel_path)\n"),
  (ST, _FIND_DEF,
   "def _refuse_outside(raw, normalized):\n"
   "    if normalized.startswith('/'):\n"
   "        raise ValueError('expected relative path, not %r' % raw)\n"
   "    if IS_WINDOWS and ':' in raw:\n"
   "        raise ValueError('unexpected colon in path: %r' % raw)\n"
   "    outside = normalized.startswith(os.pardir)\n"
   "    if outside:\n"
   "        raise ValueError('attempted to access beyond root directory')\n"
   "    return\n\n\n" + _FIND_DEF))
T('g14_for_else_as_guard', ['C14'],
  (ST, _LOOP,
   "    for search_root in search_paths:\n"
   "        candidate = pjoin(search_root, rel_path)\n"
   "        if not isfile(candidate):\n"
   "            continue\n"
   "        return candidate\n"
   "    return None\n"))
B('g14_named_test_on_raw_path', ['C14'], 'R14.a',
  (ST, "        if rel_path.startswith('/'):\n", "        is_absolute = path.startswith('/')\n        if is_absolute:\n"))
B('g14_named_test_stale', ['C14'], 'R14.a',
  # the flag is computed, then the tested value is re-bound: the flag no longer speaks about the joined path
  (ST, "    rel_path = os.path.normpath(path)\n    if limit_root:\n        if rel_path.startswith('/'):\n",
       "    rel_path = path\n    is_absolute = rel_path.startswith('/')\n    rel_path = os.path.normpath(path)\n    if limit_root:\n        if is_absolute:\n"))
B('g14_helper_drops_pardir', ['C14'], 'R14.a',
  (ST, _REFUSALS, "    if limit_root:\n        _refuse_outside(path, rel_path)\n"),
  (ST, _FIND_DEF,
   "def _refuse_outside(raw, normalized):\n"
   "    if normalized.startswith('/'):\n"
   "        raise ValueError('expected relative path, not %r' % raw)\n"
   "    if IS_WINDOWS and ':' in raw:\n"
   "        raise ValueError('unexpected colon in path: %r' % raw)\n\n\n" + _FIND_DEF))
B('g14_guard_loop_exists', ['C14'], 'R14.a',
  (ST, _LOOP,
   "    for search_root in search_paths:\n"
   "        candidate = pjoin(search_root, rel_path)\n"
   "        if not os.path.exists(candidate):\n"
   "            continue\n"
   "        return candidate\n"
   "    return None\n"))

# ------------------------------------------------------------------ R14.b: lookup half of get_file_response
_LOOKUP = ("        try:\n"
           "            if not isinstance(path, (str, bytes)):\n"
           "                path = '/'.join(path)\n"
           "            full_path = find_file(self.search_paths, path)\n"
           "            if full_path is None:\n"
           "                raise NotFound(is_breaking=False)\n"
           "        except (ValueError, IOError, OSError):\n"
           "            raise Forbidden(is_breaking=False)\n")
T('g14_lookup_reshaped', ['C14'],
  (ST, _LOOKUP,
   "        try:\n"
   "            if isinstance(path, (str, bytes)):\n"
   "                rel_path = path\n"
   "            else:\n"
   "                rel_path = '/'.join(path)\n"
   "            full_path = find_file(self.search_paths, rel_path)\n"
   "        except (ValueError, OSError):\n"
   "            raise Forbidden(is_breaking=False)\n"
   "        if not full_path:\n"
   "            raise NotFound(is_breaking=False)\n"))
T('g14_except_tuple_constant', ['C14'],
  (ST, "IS_WINDOWS = sys.platform == 'win32'\n", "IS_WINDOWS = sys.platform == 'win32'\n_FS_ERRORS = (ValueError, IOError, OSError)\n_IO_ERRORS = (IOError, OSError)\n"),
  (ST, 're:except \\(ValueError, IOError, OSError\\):', 'except _FS_ERRORS:'),
  (ST, '        except (IOError, OSError):\n            file_obj.close()', '        except _IO_ERRORS:\n            file_obj.close()'))
B('g14_except_constant_narrow', ['C14'], 'R14.b',
  (ST, "IS_WINDOWS = sys.platform == 'win32'\n", "IS_WINDOWS = sys.platform == 'win32'\n_LOOKUP_ERRORS = (OSError,)\n"),
  (ST, "        except (ValueError, IOError, OSError):\n            raise Forbidden(is_breaking=False)\n        bfr = build_file_response",
       "        except _LOOKUP_ERRORS:\n            raise Forbidden(is_breaking=False)\n        bfr = build_file_response"))
B('g14_except_constant_no_oserror', ['C14'], 'R14.c',
  (ST, "IS_WINDOWS = sys.platform == 'win32'\n", "IS_WINDOWS = sys.platform == 'win32'\n_STAT_ERRORS = (ValueError, TypeError)\n"),
  (ST, "        fsize = os.path.getsize(path)\n    except (ValueError, IOError, OSError):", "        fsize = os.path.getsize(path)\n    except _STAT_ERRORS:"))
B('g14_lookup_other_path', ['C14'], 'R14.e',
  (ST, _LOOKUP,
   "        try:\n"
   "            if isinstance(path, (str, bytes)):\n"
   "                rel_path = path\n"
   "            else:\n"
   "                rel_path = request.path\n"
   "            joined = '/'.join(path)\n"
   "            full_path = find_file(self.search_paths, rel_path)\n"
   "        except (ValueError, OSError):\n"
   "            raise Forbidden(is_breaking=False)\n"
   "        if full_path is None:\n"
   "            raise NotFound(is_breaking=False)\n"))
B('g14_notfound_after_try_wrong_test', ['C14'], 'R14.b',
  (ST, _LOOKUP,
   "        try:\n"
   "            if not isinstance(path, (str, bytes)):\n"
   "                path = '/'.join(path)\n"
   "            full_path = find_file(self.search_paths, path)\n"
   "        except (ValueError, OSError):\n"
   "            raise Forbidden(is_breaking=False)\n"
   "        if path is None:\n"
   "            raise NotFound(is_breaking=False)\n"))

# ------------------------------------------------------------------ R14.c / R14.d: build_file_response in steps
_COND = ("    if cache_timeout and cached_modify_time:\n"
         "        try:\n"
         "            mtime = get_file_mtime(path)\n"
         "        except (ValueError, IOError, OSError):  # TODO: winnow this down\n"
         "            raise Forbidden(is_breaking=False)\n"
         "        resp.cache_control.public = True\n"
         "        if mtime <= cached_modify_time:\n")
_OPEN = ("    try:\n"
         "        file_obj = open(path, 'rb')\n"
         "        mtime = get_file_mtime(path)\n"
         "        fsize = os.path.getsize(path)\n"
         "    except (ValueError, IOError, OSError):\n"
         "        raise Forbidden(is_breaking=False)\n")
_BFR_DEF = 'def build_file_response(path,\n'
T('g14_conditional_named_and_helper', ['C14'],
  (ST, _COND,
   "    is_conditional = bool(cache_timeout and cached_modify_time)\n"
   "    if is_conditional:\n"
   "        current_mtime = _mtime_or_403(path)\n"
   "        resp.cache_control.public = True\n"
   "        if cached_modify_time >= current_mtime:\n"),
  (ST, _BFR_DEF,
   "def _mtime_or_403(path):\n"
   "    try:\n"
   "        return get_file_mtime(path)\n"
   "    except (ValueError, OSError):\n"
   "        raise Forbidden(is_breaking=False)\n\n\n" + _BFR_DEF))
T('g14_open_and_stat_helper', ['C14'],
  (ST, _OPEN, "    file_obj, mtime, fsize = _open_stat(path)\n"),
  (ST, _BFR_DEF,
   "_OPEN_ERRORS = (ValueError, OSError)\n\n\n"
   "def _open_stat(path):\n"
   "    try:\n"
   "        file_obj = open(path, 'rb')\n"
   "        mtime = get_file_mtime(path)\n"
   "        fsize = os.path.getsize(path)\n"
   "    except _OPEN_ERRORS:\n"
   "        raise Forbidden(is_breaking=False)\n"
   "    return file_obj, mtime, fsize\n\n\n" + _BFR_DEF))
T('g14_content_type_local', ['C14'],
  (ST, "    if not mimetype:\n        mimetype, encoding = mimetypes.guess_type(path)\n    if not mimetype:\n",
       "    content_type = mimetype\n    if not content_type:\n        content_type = mimetypes.guess_type(path)[0]\n    if not content_type:\n"),
  (ST, "            mimetype = default_binary_mime\n        else:\n            mimetype = default_text_mime\n",
       "            content_type = default_binary_mime\n        else:\n            content_type = default_text_mime\n"),
  (ST, "    resp.content_type = mimetype\n", "    resp.content_type = content_type\n"))
B('g14_content_type_ignores_mimetype', ['C14'], 'R14.d',
  (ST, "    resp.content_type = mimetype\n", "    resp.content_type = default_text_mime\n"))
B('g14_helper_mtime_unprotected', ['C14'], 'R14.c',
  (ST, _COND,
   "    is_conditional = bool(cache_timeout and cached_modify_time)\n"
   "    if is_conditional:\n"
   "        current_mtime = _mtime_or_403(path)\n"
   "        resp.cache_control.public = True\n"
   "        if current_mtime <= cached_modify_time:\n"),
  (ST, _BFR_DEF,
   "def _mtime_or_403(path):\n"
   "    return get_file_mtime(path)\n\n\n" + _BFR_DEF))
B('g14_conditional_named_or', ['C14'], 'R14.d',
  (ST, "    if cache_timeout and cached_modify_time:\n", "    is_conditional = bool(cache_timeout or cached_modify_time)\n    if is_conditional:\n"))
B('g14_renamed_mtime_wrong_source', ['C14'], 'R14.d',
  (ST, _COND,
   "    if cache_timeout and cached_modify_time:\n"
   "        try:\n"
   "            stamp = os.path.getmtime(path)\n"
   "        except (ValueError, IOError, OSError):\n"
   "            raise Forbidden(is_breaking=False)\n"
   "        current_mtime = stamp\n"
   "        resp.cache_control.public = True\n"
   "        if current_mtime <= cached_modify_time:\n"))
B('g14_size_alias_wrong_source', ['C14'], 'R14.d',
  (ST, "    resp.content_length = fsize\n", "    length = fsize\n    if not length:\n        length = 1024\n    resp.content_length = length\n"))
B('g14_wraps_other_file', ['C14'], 'R14.d',
  (ST, "    resp.response = file_wrapper(file_obj)\n", "    body = file_obj\n    if not fsize:\n        body = sys.stdin\n    resp.response = file_wrapper(body)\n"))

# ------------------------------------------------------------------ R14.c / R14.e: request glue
_GLUE_APP = ("        bfr = build_file_response\n"
             "        resp = bfr(full_path,\n"
             "                   cache_timeout=self.cache_timeout,\n"
             "                   cached_modify_time=request.if_modified_since,\n"
             "                   mimetype=None,\n"
             "                   default_text_mime=self.default_text_mime,\n"
             "                   default_binary_mime=self.default_binary_mime,\n"
             "                   file_wrapper=request.environ.get('wsgi.file_wrapper',\n"
             "                                                    FileWrapper))\n"
             "        return resp\n")
_CLS_ROUTE = 'class StaticFileRoute(Route):\n'
T('g14_glue_direct_call_named_args', ['C14'],
  (ST, _GLUE_APP,
   "        client_time = request.if_modified_since\n"
   "        wrapper = _wrapper_for(request)\n"
   "        return build_file_response(full_path,\n"
   "                                   cache_timeout=self.cache_timeout,\n"
   "                                   cached_modify_time=client_time,\n"
   "                                   mimetype=None,\n"
   "                                   default_text_mime=self.default_text_mime,\n"
   "                                   default_binary_mime=self.default_binary_mime,\n"
   "                                   file_wrapper=wrapper)\n"),
  (ST, _CLS_ROUTE, "def _wrapper_for(request):\n    return request.environ.get('wsgi.file_wrapper', FileWrapper)\n\n\n" + _CLS_ROUTE))
T('g14_pattern_constant_and_probe_helper', ['C14'],
  (ST, "IS_WINDOWS = sys.platform == 'win32'\n", "IS_WINDOWS = sys.platform == 'win32'\n_EVERYTHING_BELOW = '/<path*>'\n"),
  (ST, "        routes = [('/<path*>', self.get_file_response)]\n        super(StaticApplication, self).__init__(routes)\n",
       "        routes = [(_EVERYTHING_BELOW, self.get_file_response)]\n        super(StaticApplication, self).__init__(routes=routes)\n"),
  (ST, "            open(file_path).close()\n            get_file_mtime(file_path)\n", "            _probe(file_path)\n"),
  (ST, _CLS_ROUTE, "def _probe(file_path):\n    with open(file_path):\n        pass\n    get_file_mtime(file_path)\n    return\n\n\n" + _CLS_ROUTE))
B('g14_pattern_constant_single_segment', ['C14'], 'R14.e',
  (ST, "IS_WINDOWS = sys.platform == 'win32'\n", "IS_WINDOWS = sys.platform == 'win32'\n_EVERYTHING_BELOW = '/<path>'\n"),
  (ST, "        routes = [('/<path*>', self.get_file_response)]\n", "        routes = [(_EVERYTHING_BELOW, self.get_file_response)]\n"))
B('g14_client_time_overwritten', ['C14'], 'R14.e',
  (ST, _GLUE_APP,
   "        client_time = request.if_modified_since\n"
   "        if not self.cache_timeout:\n"
   "            client_time = request.date\n"
   "        return build_file_response(full_path,\n"
   "                                   cache_timeout=self.cache_timeout,\n"
   "                                   cached_modify_time=client_time,\n"
   "                                   mimetype=None,\n"
   "                                   default_text_mime=self.default_text_mime,\n"
   "                                   default_binary_mime=self.default_binary_mime,\n"
   "                                   file_wrapper=request.environ.get('wsgi.file_wrapper', FileWrapper))\n"))
B('g14_public_helper_unprotected_mtime', ['C14'], 'R14.c',
  # a *referenced*, non-private function on the request path doing file I/O without the 403 mapping
  (ST, "        bfr = build_file_response\n        resp = bfr(full_path,\n", "        file_age(full_path)\n        bfr = build_file_response\n        resp = bfr(full_path,\n"),
  (ST, _CLS_ROUTE, "def file_age(path):\n    return datetime.utcnow() - get_file_mtime(path)\n\n\n" + _CLS_ROUTE))

# ------------------------------------------------------------------ further equivalent spellings
T('g14_refusals_one_condition_each', ['C14'],
  (ST, _REFUSALS,
   "    if limit_root and rel_path.startswith('/'):\n"
   "        raise ValueError('expected relative path, not %r' % path)\n"
   "    if limit_root and IS_WINDOWS and ':' in path:\n"
   "        raise ValueError('unexpected colon in path: %r' % path)\n"
   "    outside = limit_root and rel_path.startswith(os.pardir)\n"
   "    if outside:\n"
   "        raise ValueError('attempted to access beyond root directory')\n"))
B('g14_refusal_extra_conjunct', ['C14'], 'R14.a',
  (ST, _REFUSALS,
   "    if limit_root and rel_path.startswith('/'):\n"
   "        raise ValueError('expected relative path, not %r' % path)\n"
   "    if limit_root and IS_WINDOWS and ':' in path:\n"
   "        raise ValueError('unexpected colon in path: %r' % path)\n"
   "    if limit_root and IS_WINDOWS and rel_path.startswith(os.pardir):\n"
   "        raise ValueError('attempted to access beyond root directory')\n"))
B('g14_refusal_disjunction_with_limit_root', ['C14'], 'R14.a',
  # (not limit_root) or absolute: refuses when limit_root is off, lets absolute paths through otherwise
  (ST, "        if rel_path.startswith('/'):\n", "        if not (limit_root or rel_path.startswith('/')):\n"))
T('g14_normalised_named_twice', ['C14'],
  (ST, "    rel_path = os.path.normpath(path)\n", "    normalized = os.path.normpath(path)\n    rel_path = normalized\n"),
  (ST, "        if rel_path.startswith('/'):\n", "        if normalized.startswith('/'):\n"))
B('g14_normalised_alias_rebound', ['C14'], 'R14.a',
  (ST, "    rel_path = os.path.normpath(path)\n", "    normalized = os.path.normpath(path)\n    rel_path = normalized\n"),
  (ST, "    for sr in search_paths:\n", "    rel_path = rel_path or path\n    for sr in search_paths:\n"))
T('g14_first_regular_file_next', ['C14'],
  (ST, _LOOP, "    candidates = (pjoin(sr, rel_path) for sr in search_paths)\n    return next((c for c in candidates if isfile(c)), None)\n"))
B('g14_first_existing_next', ['C14'], 'R14.a',
  (ST, _LOOP, "    candidates = (pjoin(sr, rel_path) for sr in search_paths)\n    return next((c for c in candidates if os.path.exists(c)), None)\n"))
T('g14_error_named_before_raise', ['C14'],
  (ST, "        except (ValueError, IOError, OSError):\n            raise Forbidden(is_breaking=False)\n        bfr = build_file_response",
       "        except (ValueError, IOError, OSError):\n            refusal = Forbidden(is_breaking=False)\n            raise refusal\n        bfr = build_file_response"),
  (ST, "    if not isfile(path):\n        raise NotFound(is_breaking=False)\n", "    if not isfile(path):\n        missing = NotFound(is_breaking=False)\n        raise missing\n"))
B('g14_named_error_breaking', ['C14'], 'R14.b',
  (ST, "    if not isfile(path):\n        raise NotFound(is_breaking=False)\n", "    if not isfile(path):\n        missing = NotFound()\n        raise missing\n"))
T('g14_not_newer_as_negated_gt', ['C14'],
  (ST, "        if mtime <= cached_modify_time:\n            resp.status_code = 304\n            resp.cache_control.max_age = cache_timeout\n            return resp\n",
       "        if mtime > cached_modify_time:\n            pass\n        else:\n            resp.status_code = 304\n            resp.cache_control.max_age = cache_timeout\n            return resp\n"))
B('g14_not_newer_negated_lt', ['C14'], 'R14.d',
  (ST, "        if mtime <= cached_modify_time:\n            resp.status_code = 304\n            resp.cache_control.max_age = cache_timeout\n            return resp\n",
       "        if mtime < cached_modify_time:\n            pass\n        else:\n            resp.status_code = 304\n            resp.cache_control.max_age = cache_timeout\n            return resp\n"))

# ------------------------------------------------------------------ except (A,) + B: tuple constants built by concatenation
T('g14_except_tuple_concatenated', ['C14'],
  (ST, "IS_WINDOWS = sys.platform == 'win32'\n",
       "IS_WINDOWS = sys.platform == 'win32'\n_PEEK_ERRORS = (IOError, OSError)\n_FS_ERRORS = (ValueError,) + _PEEK_ERRORS\n"),
  (ST, 're:except \\(ValueError, IOError, OSError\\):', 'except _FS_ERRORS:'),
  (ST, '        except (IOError, OSError):\n            file_obj.close()', '        except _PEEK_ERRORS:\n            file_obj.close()'),
  (ST, "            full_path = find_file(self.search_paths, path)\n            if full_path is None:\n                raise NotFound(is_breaking=False)\n"
       "        except _FS_ERRORS:\n            raise Forbidden(is_breaking=False)\n",
       "            full_path = find_file(self.search_paths, path)\n        except _FS_ERRORS:\n            raise Forbidden(is_breaking=False)\n"
       "        else:\n            if full_path is None:\n                raise NotFound(is_breaking=False)\n"))
B('g14_except_concatenated_no_oserror', ['C14'], 'R14.c',
  (ST, "IS_WINDOWS = sys.platform == 'win32'\n",
       "IS_WINDOWS = sys.platform == 'win32'\n_VALUE_ERRORS = (ValueError,)\n_FS_ERRORS = _VALUE_ERRORS + (TypeError,)\n"),
  (ST, "        fsize = os.path.getsize(path)\n    except (ValueError, IOError, OSError):", "        fsize = os.path.getsize(path)\n    except _FS_ERRORS:"))

# ------------------------------------------------------------------ R14.f: time base / source / resolution of the served mtime
_MT_IMPORT = 'from datetime import datetime\n'
_MT_RET = '    return datetime.utcfromtimestamp(unix_mtime)\n'
_MT_FN = ('def get_file_mtime(path, rounding=0):\n'
          '    unix_mtime = round(os.path.getmtime(path), rounding)\n'
          '    return datetime.utcfromtimestamp(unix_mtime)\n')
# equivalent spellings of "UTC datetime of the file's mtime, whole seconds"
T('g14f_fromtimestamp_utc_made_naive', ['C14'],
  (ST, _MT_IMPORT, 'from datetime import datetime, timezone\n'),
  (ST, _MT_RET, '    return datetime.fromtimestamp(unix_mtime, tz=timezone.utc).replace(tzinfo=None)\n'))
T('g14f_gmtime_struct', ['C14'],
  (ST, _MT_IMPORT, 'import time\nfrom datetime import datetime\n'),
  (ST, _MT_RET, '    return datetime(*time.gmtime(unix_mtime)[:6])\n'))
T('g14f_epoch_plus_delta', ['C14'],
  (ST, _MT_IMPORT, 'from datetime import datetime, timedelta\n\n_EPOCH = datetime(1970, 1, 1)\n'),
  (ST, _MT_RET, '    return _EPOCH + timedelta(seconds=unix_mtime)\n'))
T('g14f_module_import_alias', ['C14'],
  (ST, _MT_IMPORT, 'import datetime as _dt\n'),
  (ST, _MT_RET, '    return _dt.datetime.utcfromtimestamp(unix_mtime)\n'))
T('g14f_rebound_temporaries_stat', ['C14'],
  (ST, _MT_FN,
   'def get_file_mtime(path, rounding=0):\n'
   '    ts = os.stat(path).st_mtime\n'
   '    ts = round(ts, rounding)\n'
   '    when = datetime.utcfromtimestamp(ts)\n'
   '    modified = when\n'
   '    return modified\n'))
T('g14f_public_conversion_helper', ['C14'],
  (ST, _MT_FN,
   'def utc_datetime(seconds):\n'
   '    return datetime.utcfromtimestamp(seconds)\n\n\n'
   'def get_file_mtime(path, rounding=0):\n'
   '    unix_mtime = round(os.path.getmtime(path), rounding)\n'
   '    return utc_datetime(unix_mtime)\n'))
T('g14f_truncated_after_construction', ['C14'],
  (ST, _MT_FN,
   'def get_file_mtime(path, rounding=0):\n'
   '    return datetime.utcfromtimestamp(os.path.getmtime(path)).replace(microsecond=0)\n'))
# local-time constructions (other shapes than the plain fromtimestamp(ts))
B('g14f_fromtimestamp_local', ['C14'], 'R14.f', (ST, _MT_RET, '    return datetime.fromtimestamp(unix_mtime)\n'))
B('g14f_fromtimestamp_tz_none_constant', ['C14'], 'R14.f',
  (ST, _MT_IMPORT, 'from datetime import datetime\n\n_SERVER_TZ = None\n'),
  (ST, _MT_RET, '    return datetime.fromtimestamp(unix_mtime, tz=_SERVER_TZ)\n'))
B('g14f_localtime_struct', ['C14'], 'R14.f',
  (ST, _MT_IMPORT, 'import time\nfrom datetime import datetime\n'),
  (ST, _MT_RET, '    return datetime(*time.localtime(unix_mtime)[:6])\n'))
B('g14f_local_labelled_utc', ['C14'], 'R14.f',
  (ST, _MT_IMPORT, 'from datetime import datetime, timezone\n'),
  (ST, _MT_RET, '    stamp = datetime.fromtimestamp(unix_mtime).replace(tzinfo=timezone.utc)\n    return stamp.replace(tzinfo=None)\n'))
B('g14f_naive_utc_through_astimezone', ['C14'], 'R14.f',
  (ST, _MT_IMPORT, 'from datetime import datetime, timezone\n'),
  (ST, _MT_RET, '    return datetime.utcfromtimestamp(unix_mtime).astimezone(timezone.utc).replace(tzinfo=None)\n'))
B('g14f_mktime_of_gmtime', ['C14'], 'R14.f',
  (ST, _MT_IMPORT, 'import time\nfrom datetime import datetime\n'),
  (ST, _MT_RET, '    return datetime.utcfromtimestamp(time.mktime(time.gmtime(unix_mtime)))\n'))
B('g14f_local_on_one_path', ['C14'], 'R14.f',
  (ST, _MT_RET, '    if IS_WINDOWS:\n        when = datetime.fromtimestamp(unix_mtime)\n    else:\n        when = datetime.utcfromtimestamp(unix_mtime)\n    return when\n'))
B('g14f_local_in_public_helper', ['C14'], 'R14.f',
  (ST, _MT_FN,
   'def to_datetime(seconds):\n'
   '    return datetime.fromtimestamp(seconds)\n\n\n'
   'def get_file_mtime(path, rounding=0):\n'
   '    unix_mtime = round(os.path.getmtime(path), rounding)\n'
   '    return to_datetime(unix_mtime)\n'))
# not the file's modification time at all
B('g14f_ctime', ['C14'], 'R14.f', (ST, 'round(os.path.getmtime(path), rounding)', 'round(os.path.getctime(path), rounding)'))
B('g14f_clock', ['C14'], 'R14.f', (ST, _MT_RET, '    return datetime.utcnow().replace(microsecond=0)\n'))
# sub-second resolution survives: the echoed Last-Modified compares older than the file
B('g14f_rounding_default_millis', ['C14'], 'R14.f', (ST, 'def get_file_mtime(path, rounding=0):', 'def get_file_mtime(path, rounding=3):'))
B('g14f_not_rounded', ['C14'], 'R14.f', (ST, 'unix_mtime = round(os.path.getmtime(path), rounding)', 'unix_mtime = os.path.getmtime(path)'))
B('g14f_caller_asks_for_millis', ['C14'], 'R14.f',
  (ST, "            mtime = get_file_mtime(path)\n        except (ValueError, IOError, OSError):  # TODO",
       "            mtime = get_file_mtime(path, rounding=3)\n        except (ValueError, IOError, OSError):  # TODO"))

# ------------------------------------------------------------------ R14.e: arguments collected in a dict, path joined under another name
_OPTS = ("        options = {\n"
         "            'cache_timeout': self.cache_timeout,\n"
         "            'cached_modify_time': %s,\n"
         "            'mimetype': None,\n"
         "            'default_text_mime': self.default_text_mime,\n"
         "            'default_binary_mime': self.default_binary_mime,\n"
         "            'file_wrapper': request.environ.get('wsgi.file_wrapper', FileWrapper),\n"
         "        }\n")
T('g14_glue_options_dict', ['C14'],
  (ST, _GLUE_APP, _OPTS % 'request.if_modified_since' + "        return build_file_response(full_path, **options)\n"),
  (ST, "            if not isinstance(path, (str, bytes)):\n                path = '/'.join(path)\n            full_path = find_file(self.search_paths, path)\n",
       "            url_path = path\n            if not isinstance(url_path, (str, bytes)):\n                url_path = '/'.join(url_path)\n"
       "            full_path = find_file(self.search_paths, url_path)\n"))
B('g14_glue_options_dict_no_client_time', ['C14'], 'R14.e',
  (ST, _GLUE_APP, _OPTS % 'None' + "        return build_file_response(full_path, **options)\n"))
B('g14_glue_options_dict_key_omitted', ['C14'], 'R14.e',
  (ST, _GLUE_APP, (_OPTS % 'request.if_modified_since').replace("            'cached_modify_time': request.if_modified_since,\n", '')
   + "        return build_file_response(full_path, **options)\n"))
B('g14_path_joined_twice', ['C14'], 'R14.e',
  (ST, "            if not isinstance(path, (str, bytes)):\n                path = '/'.join(path)\n            full_path = find_file(self.search_paths, path)\n",
       "            url_path = '/'.join(path)\n            rel = '/'.join(url_path)\n"
       "            full_path = find_file(self.search_paths, rel)\n"))

# ------------------------------------------------------------------ R14.g: the answer depends on this request and on the file system now
_APP_ROUTES = "        routes = [('/<path*>', self.get_file_response)]\n"
_FIND_CALL = ("            full_path = find_file(self.search_paths, path)\n"
              "            if full_path is None:\n"
              "                raise NotFound(is_breaking=False)\n")
_SFR_BODY = ("        bfr = build_file_response\n"
             "        resp = bfr(self.file_path,\n"
             "                   cache_timeout=self.cache_timeout,\n"
             "                   cached_modify_time=request.if_modified_since,\n"
             "                   mimetype=self.mimetype,\n"
             "                   file_wrapper=request.environ.get('wsgi.file_wrapper',\n"
             "                                                    FileWrapper))\n"
             "        return resp\n")
_GUESS = "    if not mimetype:\n        mimetype, encoding = mimetypes.guess_type(path)\n"
# a memo of where each path was found, kept on the application (found paths only)
B('g14g_memo_on_app', ['C14'], 'R14.g',
  (ST, _APP_ROUTES, "        self._located = {}\n" + _APP_ROUTES),
  (ST, _FIND_CALL,
   "            full_path = self._located.get(path)\n"
   "            if full_path is None:\n"
   "                full_path = find_file(self.search_paths, path)\n"
   "                if full_path is None:\n"
   "                    raise NotFound(is_breaking=False)\n"
   "                self._located[path] = full_path\n"))
# the same through a local alias of the application's dict and dict.setdefault
B('g14g_memo_on_app_via_alias', ['C14'], 'R14.g',
  (ST, _FIND_CALL,
   "            memo = self.__dict__.setdefault('_located', {})\n"
   "            if path not in memo:\n"
   "                memo[path] = find_file(self.search_paths, path)\n"
   "            full_path = memo[path]\n"
   "            if full_path is None:\n"
   "                raise NotFound(is_breaking=False)\n"))
# module-level dict inside find_file
B('g14g_memo_module_level', ['C14'], 'R14.g',
  (ST, _FIND_DEF, "_FOUND = {}\n\n\n" + _FIND_DEF),
  (ST, _LOOP,
   "    key = (tuple(search_paths), rel_path)\n"
   "    if key in _FOUND and isfile(_FOUND[key]):\n"
   "        return _FOUND[key]\n"
   "    for sr in search_paths:\n"
   "        full_path = pjoin(sr, rel_path)\n"
   "        if isfile(full_path):\n"
   "            _FOUND[key] = full_path\n"
   "            return full_path\n"
   "    else:\n"
   "        return None\n"))
# the last lookup remembered in a global
B('g14g_last_lookup_global', ['C14'], 'R14.g',
  (ST, _FIND_DEF, "_LAST = (None, None)\n\n\n" + _FIND_DEF),
  (ST, _FIND_CALL,
   "            global _LAST\n"
   "            if _LAST[0] == path:\n"
   "                full_path = _LAST[1]\n"
   "            else:\n"
   "                full_path = find_file(self.search_paths, path)\n"
   "            if full_path is None:\n"
   "                raise NotFound(is_breaking=False)\n"
   "            _LAST = (path, full_path)\n"))
# the store handed to a public helper that writes into it
B('g14g_memo_through_helper', ['C14'], 'R14.g',
  (ST, _APP_ROUTES, "        self._located = {}\n" + _APP_ROUTES),
  (ST, _CLS_ROUTE, "def remember(store, key, value):\n    store[key] = value\n    return value\n\n\n" + _CLS_ROUTE),
  (ST, _FIND_CALL,
   "            full_path = find_file(self.search_paths, path)\n"
   "            if full_path is None:\n"
   "                raise NotFound(is_breaking=False)\n"
   "            remember(self._located, path, full_path)\n"))
# functools.lru_cache on the mtime helper: Last-Modified / the 304 decision are those of the first request
B('g14g_lru_cache_mtime', ['C14'], 'R14.g',
  (ST, 'import mimetypes\n', 'import mimetypes\nimport functools\n'),
  (ST, 'def get_file_mtime(path, rounding=0):\n', '@functools.lru_cache(maxsize=1024)\ndef get_file_mtime(path, rounding=0):\n'))
B('g14g_lru_cache_rebinding', ['C14'], 'R14.g',
  (ST, 'import mimetypes\n', 'import mimetypes\nfrom functools import lru_cache\n'),
  (ST, _MT_FN, _MT_FN + "\n\nget_file_mtime = lru_cache(maxsize=None)(get_file_mtime)\n"))
# a decorator of the package whose wrapper keeps results in a dict of the enclosing scope
B('g14g_package_memo_decorator', ['C14'], 'R14.g',
  (ST, _FIND_DEF,
   "def _remembering(func):\n"
   "    results = {}\n\n"
   "    def wrapper(search_paths, path, limit_root=True):\n"
   "        key = (tuple(search_paths), path, limit_root)\n"
   "        if key not in results:\n"
   "            results[key] = func(search_paths, path, limit_root)\n"
   "        return results[key]\n"
   "    return wrapper\n\n\n"
   "@_remembering\n" + _FIND_DEF))
# a mutable default argument as the memo (size of the file)
B('g14g_default_argument_memo', ['C14'], 'R14.g',
  (ST, 'def get_file_mtime(path, rounding=0):\n'
       '    unix_mtime = round(os.path.getmtime(path), rounding)\n',
       'def get_file_mtime(path, rounding=0, _known={}):\n'
       '    if path not in _known:\n'
       '        _known[path] = os.path.getmtime(path)\n'
       '    unix_mtime = round(_known[path], rounding)\n'))
# the guessed type remembered per path in an attribute of the function
B('g14g_mimetype_memo_function_attribute', ['C14'], 'R14.g',
  (ST, _GUESS,
   "    if not mimetype:\n"
   "        mimetype = build_file_response.guessed.get(path)\n"
   "    if not mimetype:\n"
   "        mimetype, encoding = mimetypes.guess_type(path)\n"
   "        build_file_response.guessed[path] = mimetype\n"),
  (ST, _CLS_ROUTE, "build_file_response.guessed = {}\n\n\n" + _CLS_ROUTE))
# the single-file route keeps the response it built
B('g14g_route_keeps_response', ['C14'], 'R14.g',
  (ST, "        self.cache_timeout = cache_timeout\n        self.mimetype = mimetype\n\n    def get_file_response(self, request):\n",
       "        self.cache_timeout = cache_timeout\n        self.mimetype = mimetype\n        self._headers = None\n\n    def get_file_response(self, request):\n"),
  (ST, _SFR_BODY, _SFR_BODY.replace("        return resp\n",
                                     "        if self._headers is None:\n"
                                     "            self._headers = (resp.content_length, resp.last_modified)\n"
                                     "        resp.content_length, resp.last_modified = self._headers\n"
                                     "        return resp\n")))
# the route serves a path taken from somewhere else than its configuration
B('g14g_route_serves_other_path', ['C14'], 'R14.g',
  (ST, "        resp = bfr(self.file_path,\n                   cache_timeout=self.cache_timeout,\n                   cached_modify_time=request.if_modified_since,\n                   mimetype=self.mimetype,",
       "        resp = bfr(request.args.get('file', self.file_path),\n                   cache_timeout=self.cache_timeout,\n                   cached_modify_time=request.if_modified_since,\n                   mimetype=self.mimetype,"))
# twins: per-request objects may be written freely; request-independent idempotent stores are no history
T('g14g_found_path_initialised_none', ['C14'],
  (ST, _LOOKUP,
   "        full_path = None\n"
   "        try:\n"
   "            if not isinstance(path, (str, bytes)):\n"
   "                path = '/'.join(path)\n"
   "            full_path = find_file(self.search_paths, path)\n"
   "        except (ValueError, IOError, OSError):\n"
   "            raise Forbidden(is_breaking=False)\n"
   "        if full_path is None:\n"
   "            raise NotFound(is_breaking=False)\n"))
T('g14g_writes_to_fresh_objects', ['C14'],
  (ST, "    resp.content_type = mimetype\n", "    resp.content_type = mimetype\n    resp.headers['X-Content-Type-Options'] = 'nosniff'\n"),
  (ST, "        bfr = build_file_response\n        resp = bfr(full_path,\n",
       "        trail = {}\n        trail[path] = full_path\n        steps = []\n        steps.append(full_path)\n"
       "        bfr = build_file_response\n        resp = bfr(full_path,\n"))
T('g14g_constant_flag_and_counter', ['C14'],
  (ST, _APP_ROUTES, "        self.requests_seen = 0\n        self.in_use = False\n" + _APP_ROUTES),
  (ST, "        bfr = build_file_response\n        resp = bfr(full_path,\n", "        self.in_use = True\n        self.requests_seen += 1\n        bfr = build_file_response\n        resp = bfr(full_path,\n"))
T('g14g_neutral_decorators', ['C14'],
  (ST, 'from datetime import datetime\n', 'from datetime import datetime\nfrom contextlib import contextmanager\n'),
  (ST, _BFR_DEF,
   "@contextmanager\n"
   "def _as_forbidden():\n"
   "    try:\n"
   "        yield\n"
   "    except (ValueError, IOError, OSError):\n"
   "        raise Forbidden(is_breaking=False)\n\n\n" + _BFR_DEF),
  (ST, "        try:\n            mtime = get_file_mtime(path)\n        except (ValueError, IOError, OSError):  # TODO: winnow this down\n            raise Forbidden(is_breaking=False)\n",
       "        with _as_forbidden():\n            mtime = get_file_mtime(path)\n"))

# ------------------------------------------------------------------ R14.b: helpers the endpoints call keep the non-breaking discipline
B('g14b_public_lookup_method_breaking', ['C14'], 'R14.b',
  (ST, "    def get_file_response(self, path, request):\n        try:\n",
       "    def locate(self, path):\n"
       "        if not isinstance(path, (str, bytes)):\n"
       "            path = '/'.join(path)\n"
       "        full_path = find_file(self.search_paths, path)\n"
       "        if full_path is None:\n"
       "            raise NotFound()\n"
       "        return full_path\n\n"
       "    def get_file_response(self, path, request):\n        try:\n"),
  (ST, "            if not isinstance(path, (str, bytes)):\n                path = '/'.join(path)\n            full_path = find_file(self.search_paths, path)\n"
       "            if full_path is None:\n                raise NotFound(is_breaking=False)\n",
       "            full_path = self.locate(path)\n"))
B('g14b_public_function_breaking', ['C14'], 'R14.b',
  (ST, _BFR_DEF, "def ensure_regular_file(path):\n    if not isfile(path):\n        raise NotFound()\n    return path\n\n\n" + _BFR_DEF),
  (ST, "    if not isfile(path):\n        raise NotFound(is_breaking=False)\n    try:\n        file_obj = open(path, 'rb')\n",
       "    if not isfile(path):\n        raise NotFound(is_breaking=False)\n    ensure_regular_file(path)\n    try:\n        file_obj = open(path, 'rb')\n"))

# ------------------------------------------------------------------ R14.h: test, open, size and type guess speak about the one served path
_OPEN_LINE = "        file_obj = open(path, 'rb')\n"
_SIZE_LINE = "        fsize = os.path.getsize(path)\n"
T('g14h_mode_constant_and_copy', ['C14'],
  (ST, "IS_WINDOWS = sys.platform == 'win32'\n", "IS_WINDOWS = sys.platform == 'win32'\n_READ_BYTES = 'rb'\n"),
  (ST, _OPEN_LINE, "        served = path\n        file_obj = open(served, mode=_READ_BYTES)\n"),
  (ST, _SIZE_LINE, "        fsize = os.path.getsize(served)\n"))
B('g14h_text_mode', ['C14'], 'R14.h', (ST, _OPEN_LINE, "        file_obj = open(path)\n"))
B('g14h_text_mode_constant', ['C14'], 'R14.h',
  (ST, "IS_WINDOWS = sys.platform == 'win32'\n", "IS_WINDOWS = sys.platform == 'win32'\n_READ_MODE = 'r'\n"),
  (ST, _OPEN_LINE, "        file_obj = open(path, _READ_MODE)\n"))
B('g14h_opened_for_update', ['C14'], 'R14.h', (ST, _OPEN_LINE, "        file_obj = open(path, 'r+b')\n"))
B('g14h_size_of_sibling', ['C14'], 'R14.h',
  (ST, _SIZE_LINE, "        packed = path + '.gz'\n        fsize = os.path.getsize(packed if isfile(packed) else path)\n"))
B('g14h_opens_sibling', ['C14'], 'R14.h',
  (ST, _OPEN_LINE, "        source = path\n        if isfile(path + '.gz'):\n            source = path + '.gz'\n        file_obj = open(source, 'rb')\n"))
B('g14h_fallback_path_rebound', ['C14'], 'R14.h',
  (ST, "    if not isfile(path):\n        raise NotFound(is_breaking=False)\n",
       "    if not isfile(path):\n        path = path + '.html'\n    if not isfile(path):\n        raise NotFound(is_breaking=False)\n"))

# ------------------------------------------------------------------ R14.i: first search directory wins
_APP_STORE = "        self.search_paths = search_paths\n"
T('g14i_copies_keep_order', ['C14'],
  (ST, _APP_STORE, "        self.search_paths = list(search_paths)\n"),
  (ST, "    for sr in search_paths:\n", "    roots = tuple(search_paths)\n    for sr in roots:\n"))
T('g14i_found_then_break', ['C14'],
  (ST, _LOOP,
   "    found = None\n"
   "    for sr in search_paths:\n"
   "        full_path = pjoin(sr, rel_path)\n"
   "        if isfile(full_path):\n"
   "            found = full_path\n"
   "            break\n"
   "    return found\n"))
B('g14i_reversed_loop', ['C14'], 'R14.i', (ST, "    for sr in search_paths:\n", "    for sr in reversed(search_paths):\n"))
B('g14i_sorted_on_app', ['C14'], 'R14.i', (ST, _APP_STORE, "        self.search_paths = sorted(search_paths)\n"))
B('g14i_set_dedup_on_app', ['C14'], 'R14.i', (ST, _APP_STORE, "        unique = set(search_paths)\n        self.search_paths = list(unique)\n"))
B('g14i_last_match_wins', ['C14'], 'R14.i',
  (ST, _LOOP,
   "    found = None\n"
   "    for sr in search_paths:\n"
   "        full_path = pjoin(sr, rel_path)\n"
   "        if isfile(full_path):\n"
   "            found = full_path\n"
   "    return found\n"))
B('g14i_next_over_backwards_slice', ['C14'], 'R14.i',
  (ST, _LOOP, "    candidates = (pjoin(sr, rel_path) for sr in search_paths[::-1])\n    return next((c for c in candidates if isfile(c)), None)\n"))

# ------------------------------------------------------------------ R14.j: a 304 carries no body
_RESP_NEW = "    resp = response_type('')\n"
_S304 = "            resp.status_code = 304\n"
T('g14j_empty_body_spellings', ['C14'],
  (ST, "IS_WINDOWS = sys.platform == 'win32'\n", "IS_WINDOWS = sys.platform == 'win32'\n_NO_BODY = ''\n"),
  (ST, _RESP_NEW, "    resp = response_type(response=_NO_BODY)\n"))
B('g14j_created_with_text', ['C14'], 'R14.j', (ST, _RESP_NEW, "    resp = response_type('Not Modified')\n"))
B('g14j_data_on_304', ['C14'], 'R14.j', (ST, _S304, _S304 + "            resp.data = 'not modified since %s' % mtime\n"))
B('g14j_set_data_before_branch', ['C14'], 'R14.j',
  (ST, "        resp.cache_control.public = True\n", "        resp.cache_control.public = True\n        resp.set_data(b'unchanged')\n"))
B('g14j_returns_other_object', ['C14'], 'R14.j',
  (ST, _S304 + "            resp.cache_control.max_age = cache_timeout\n            return resp\n",
       _S304 + "            resp.cache_control.max_age = cache_timeout\n            return response_type(open(path, 'rb').read())\n"))
B('g14a_found_then_break_exists', ['C14'], 'R14.a',
  (ST, _LOOP,
   "    found = None\n"
   "    for sr in search_paths:\n"
   "        full_path = pjoin(sr, rel_path)\n"
   "        if os.path.exists(full_path):\n"
   "            found = full_path\n"
   "            break\n"
   "    return found\n"))

# ------------------------------------------------------------------ R14.k: Last-Modified and the 304 decision are the same function of the file
_MT_OPEN = "        mtime = get_file_mtime(path)\n        fsize = os.path.getsize(path)\n"
_MT_COND = "            mtime = get_file_mtime(path)\n        except (ValueError, IOError, OSError):  # TODO"
T('g14k_default_spelled_out', ['C14'],
  (ST, _MT_OPEN, "        mtime = get_file_mtime(path, rounding=0)\n        fsize = os.path.getsize(path)\n"),
  (ST, _MT_COND, "            mtime = get_file_mtime(path, 0)\n        except (ValueError, IOError, OSError):  # TODO"))
T('g14k_same_constant_both_sides', ['C14'],
  (ST, "IS_WINDOWS = sys.platform == 'win32'\n", "IS_WINDOWS = sys.platform == 'win32'\n_WHOLE_SECONDS = 0\n"),
  (ST, _MT_OPEN, "        mtime = get_file_mtime(path, rounding=_WHOLE_SECONDS)\n        fsize = os.path.getsize(path)\n"),
  (ST, _MT_COND, "            current = get_file_mtime(path, _WHOLE_SECONDS)\n            mtime = current\n        except (ValueError, IOError, OSError):  # TODO"))
B('g14k_header_rounded_to_ten_seconds', ['C14'], 'R14.k',
  (ST, _MT_OPEN, "        mtime = get_file_mtime(path, rounding=-1)\n        fsize = os.path.getsize(path)\n"))
B('g14k_header_coarser_via_constant', ['C14'], 'R14.k',
  (ST, "IS_WINDOWS = sys.platform == 'win32'\n", "IS_WINDOWS = sys.platform == 'win32'\n_HEADER_ROUNDING = -2\n"),
  (ST, _MT_OPEN, "        granularity = _HEADER_ROUNDING\n        mtime = get_file_mtime(path, granularity)\n        fsize = os.path.getsize(path)\n"))
B('g14k_comparison_coarser', ['C14'], 'R14.k',
  (ST, _MT_COND, "            mtime = get_file_mtime(path, rounding=-1)\n        except (ValueError, IOError, OSError):  # TODO"))

# ------------------------------------------------------------------ R14.l: the Content-Type is given, guessed, or a configured default chosen by peeking
_CHOICE = ("        if peeked and is_binary:\n"
           "            mimetype = default_binary_mime\n"
           "        else:\n"
           "            mimetype = default_text_mime\n")
T('g14l_guess_by_basename_and_flag', ['C14'],
  (ST, _GUESS, "    if not mimetype:\n        mimetype = mimetypes.guess_type(os.path.basename(path))[0]\n"),
  (ST, "        is_binary = is_binary_string(peeked)\n" + _CHOICE,
       "        looks_binary = bool(peeked) and is_binary_string(peeked)\n"
       "        if looks_binary:\n"
       "            mimetype = default_binary_mime\n"
       "        else:\n"
       "            mimetype = default_text_mime\n"))
T('g14l_text_first', ['C14'],
  (ST, _CHOICE,
   "        mimetype = default_text_mime\n"
   "        if peeked and is_binary:\n"
   "            mimetype = default_binary_mime\n"))
B('g14l_defaults_swapped', ['C14'], 'R14.l',
  (ST, _CHOICE,
   "        if peeked and is_binary:\n"
   "            mimetype = default_text_mime\n"
   "        else:\n"
   "            mimetype = default_binary_mime\n"))
B('g14l_test_inverted', ['C14'], 'R14.l',
  (ST, _CHOICE,
   "        if not peeked or is_binary:\n"
   "            mimetype = default_text_mime\n"
   "        else:\n"
   "            mimetype = default_binary_mime\n"))
B('g14l_constant_instead_of_default', ['C14'], 'R14.l',
  (ST, _CHOICE,
   "        if peeked and is_binary:\n"
   "            mimetype = default_binary_mime\n"
   "        else:\n"
   "            mimetype = 'text/html'\n"))
B('g14l_no_guess', ['C14'], 'R14.l', (ST, _GUESS, ""))
# the guess step written as a choice expression: ``a or b`` / ``x if c else y`` is one of its arms
T('g14l_guess_as_or', ['C14'], (ST, _GUESS, "    mimetype = mimetype or mimetypes.guess_type(path)[0]\n"))
T('g14l_guess_as_ifexp', ['C14'], (ST, _GUESS, "    mimetype = mimetype if mimetype else mimetypes.guess_type(path)[0]\n"))
B('g14l_or_constant_arm', ['C14'], 'R14.l', (ST, _GUESS, "    mimetype = mimetype or mimetypes.guess_type(path)[0] or 'text/html'\n"))
B('g14l_or_without_guess', ['C14'], 'R14.l', (ST, _GUESS, "    mimetype = mimetype or None\n"))
B('g14h_or_guess_for_other_name', ['C14'], 'R14.h', (ST, _GUESS, "    mimetype = mimetype or mimetypes.guess_type('index.html')[0]\n"))
B('g14l_binary_test_on_path', ['C14'], 'R14.l',
  (ST, "        is_binary = is_binary_string(peeked)\n", "        is_binary = is_binary_string(path.encode('utf-8'))\n"))
B('g14h_guess_for_other_name', ['C14'], 'R14.h',
  (ST, _GUESS, "    if not mimetype:\n        mimetype, encoding = mimetypes.guess_type('index.html')\n"))

# ------------------------------------------------------------------ R14.i: the order is followed through functions of the package and accumulators
_APP_NORMALISE = "        if isinstance(search_paths, (str, bytes)):\n            search_paths = [search_paths]\n"
T('g14i_checked_paths_keep_order', ['C14'],
  (ST, _BFR_DEF,
   "def absolute_search_paths(search_paths):\n"
   "    checked = []\n"
   "    for search_path in search_paths:\n"
   "        abs_path = os.path.abspath(search_path)\n"
   "        if abs_path not in checked:\n"
   "            checked.append(abs_path)\n"
   "    return checked\n\n\n" + _BFR_DEF),
  (ST, _APP_NORMALISE, _APP_NORMALISE + "        search_paths = absolute_search_paths(search_paths)\n"))
B('g14i_checked_paths_unique_via_set', ['C14'], 'R14.i',
  (ST, _BFR_DEF,
   "def absolute_search_paths(search_paths):\n"
   "    return list(set(os.path.abspath(p) for p in search_paths))\n\n\n" + _BFR_DEF),
  (ST, _APP_NORMALISE, _APP_NORMALISE + "        search_paths = absolute_search_paths(search_paths)\n"))
B('g14i_checked_paths_sorted_in_place', ['C14'], 'R14.i',
  (ST, _BFR_DEF,
   "def absolute_search_paths(search_paths):\n"
   "    checked = []\n"
   "    for search_path in search_paths:\n"
   "        checked.append(os.path.abspath(search_path))\n"
   "    checked.sort()\n"
   "    return checked\n\n\n" + _BFR_DEF),
  (ST, _APP_NORMALISE, _APP_NORMALISE + "        search_paths = absolute_search_paths(search_paths)\n"))
B('g14i_paths_collected_in_set_method', ['C14'], 'R14.i',
  (ST, _APP_STORE,
   "        seen = set()\n"
   "        for search_path in search_paths:\n"
   "            seen.add(search_path)\n"
   "        self.search_paths = list(seen)\n"))

# ------------------------------------------------------------------ R14.m: configuration reaches build_file_response unchanged
T('g14m_positional_and_locals', ['C14'],
  (ST, "        resp = bfr(self.file_path,\n                   cache_timeout=self.cache_timeout,\n                   cached_modify_time=request.if_modified_since,\n                   mimetype=self.mimetype,",
       "        max_age = self.cache_timeout\n        resp = bfr(self.file_path, max_age, request.if_modified_since, self.mimetype,"))
B('g14m_route_drops_cache_timeout', ['C14'], 'R14.m',
  (ST, "        resp = bfr(self.file_path,\n                   cache_timeout=self.cache_timeout,\n", "        resp = bfr(self.file_path,\n"))
B('g14m_defaults_swapped_in_call', ['C14'], 'R14.m',
  (ST, "                   default_text_mime=self.default_text_mime,\n                   default_binary_mime=self.default_binary_mime,\n",
       "                   default_text_mime=self.default_binary_mime,\n                   default_binary_mime=self.default_text_mime,\n"))
B('g14m_defaults_swapped_in_init', ['C14'], 'R14.m',
  (ST, "        self.default_text_mime = default_text_mime\n        self.default_binary_mime = default_binary_mime\n",
       "        self.default_text_mime, self.default_binary_mime = default_binary_mime, default_text_mime\n"))
B('g14m_caching_off_by_default', ['C14'], 'R14.m', (ST, "DEFAULT_MAX_AGE = 360\n", "DEFAULT_MAX_AGE = 0\n"))
B('g14m_caching_off_by_default_param', ['C14'], 'R14.m',
  (ST, "                 check_paths=True,\n                 cache_timeout=DEFAULT_MAX_AGE,\n", "                 check_paths=True,\n                 cache_timeout=None,\n"))
B('g14m_route_uses_unmodified_since', ['C14'], 'R14.m',
  (ST, "                   cached_modify_time=request.if_modified_since,\n                   mimetype=self.mimetype,",
       "                   cached_modify_time=request.if_unmodified_since,\n                   mimetype=self.mimetype,"))
B('g14m_timeout_clamped_in_init', ['C14'], 'R14.m',
  (ST, "        self.cache_timeout = cache_timeout\n        self.mimetype = mimetype\n",
       "        self.cache_timeout = cache_timeout if check_file else 0\n        self.mimetype = mimetype\n"))

# ------------------------------------------------------------------ R14.n: peeking leaves the handle where it was
_PEEK_TAIL = "    cur_pos = file_obj.tell()\n    peek_data = file_obj.read(size)\n    file_obj.seek(cur_pos)\n    return peek_data\n"
T('g14n_restore_in_finally', ['C14'],
  (ST, _PEEK_TAIL,
   "    start = file_obj.tell()\n"
   "    try:\n"
   "        return file_obj.read(size)\n"
   "    finally:\n"
   "        file_obj.seek(start)\n"))
B('g14n_no_seek_back', ['C14'], 'R14.n', (ST, _PEEK_TAIL, "    peek_data = file_obj.read(size)\n    return peek_data\n"))
B('g14n_seek_back_only_when_data', ['C14'], 'R14.n',
  (ST, _PEEK_TAIL,
   "    cur_pos = file_obj.tell()\n    peek_data = file_obj.read(size)\n    if not peek_data:\n        return peek_data\n    if len(peek_data) < size:\n        return peek_data\n"
   "    file_obj.seek(cur_pos)\n    return peek_data\n"))
B('g14n_position_noted_after_read', ['C14'], 'R14.n',
  (ST, _PEEK_TAIL, "    peek_data = file_obj.read(size)\n    cur_pos = file_obj.tell()\n    file_obj.seek(cur_pos)\n    return peek_data\n"))
B('g14n_relative_seek', ['C14'], 'R14.n',
  (ST, _PEEK_TAIL, "    cur_pos = file_obj.tell()\n    peek_data = file_obj.read(size)\n    file_obj.seek(cur_pos, 1)\n    return peek_data\n"))
B('g14n_caller_reads_header', ['C14'], 'R14.n',
  (ST, "    resp.response = file_wrapper(file_obj)\n", "    signature = file_obj.read(4)\n    resp.response = file_wrapper(file_obj)\n"))

# ------------------------------------------------------------------ R14.b: the error classes are the package's own
B('g14b_werkzeug_notfound', ['C14'], 'R14.b',
  (ST, "from .errors import Forbidden, NotFound\n", "from .errors import Forbidden\nfrom werkzeug.exceptions import NotFound\n"))
B('g14b_werkzeug_forbidden_alias', ['C14'], 'R14.b',
  (ST, "from .errors import Forbidden, NotFound\n", "from .errors import NotFound\nfrom werkzeug import exceptions as _wz\n\nForbidden = _wz.Forbidden\n"))

# ------------------------------------------------------------------ R14.g: one response object shared by all requests
B('g14g_shared_response_template', ['C14'], 'R14.g',
  (ST, _BFR_DEF, "_BLANK = Response('')\n\n\n" + _BFR_DEF),
  (ST, "    resp = response_type('')\n", "    resp = _BLANK\n"))
B('g14g_response_default_argument', ['C14'], 'R14.g',
  (ST, "                        response_type=Response):\n    resp = response_type('')\n",
       "                        response_type=Response,\n                        resp=Response('')):\n"))
B('g14m_app_fixes_mimetype', ['C14'], 'R14.m',
  (ST, "                   mimetype=None,\n                   default_text_mime=self.default_text_mime,", "                   mimetype=self.default_text_mime,\n                   default_text_mime=self.default_text_mime,"))
T('g14m_app_omits_mimetype', ['C14'],
  (ST, "                   mimetype=None,\n                   default_text_mime=self.default_text_mime,", "                   default_text_mime=self.default_text_mime,"))

# ------------------------------------------------------------------ R14.a / R14.i: first regular file through filter()
T('g14i_next_filter_isfile', ['C14'],
  (ST, _LOOP, "    candidates = (pjoin(sr, rel_path) for sr in search_paths)\n    return next(filter(isfile, candidates), None)\n"))
B('g14i_next_filter_exists', ['C14'], 'R14.a',
  (ST, _LOOP, "    candidates = (pjoin(sr, rel_path) for sr in search_paths)\n    return next(filter(os.path.exists, candidates), None)\n"))
B('g14i_next_filter_reversed', ['C14'], 'R14.i',
  (ST, _LOOP, "    candidates = [pjoin(sr, rel_path) for sr in search_paths]\n    return next(filter(isfile, reversed(candidates)), None)\n"))

# ------------------------------------------------------------------ R14.e / R14.m: If-Modified-Since through a public helper
# (round g) A public method / function is not dissolved by the front-end: the value it hands to build_file_response is
# judged through its returns, in the caller's terms -- as if it were written in line.  Both endpoints must pass the request's
# If-Modified-Since itself (sibling agreement), not filtered by the method / the clock (whatever the 200 branch sends as
# Last-Modified must be accepted by the 304 branch when echoed).
_APP_GFR = "    def get_file_response(self, path, request):\n"
_SFR_GFR = "    def get_file_response(self, request):\n"
_APP_IMS = "                   cached_modify_time=request.if_modified_since,\n                   mimetype=None,"
_SFR_IMS = "                   cached_modify_time=request.if_modified_since,\n                   mimetype=self.mimetype,"
_APP_IMS_HELPER = "                   cached_modify_time=self.get_cached_modify_time(request),\n                   mimetype=None,"
T('g14m_ims_helper_method', ['C14'],
  (ST, _APP_GFR, "    def get_cached_modify_time(self, request):\n        return request.if_modified_since\n\n" + _APP_GFR),
  (ST, _APP_IMS, _APP_IMS_HELPER))
T('g14m_ims_helper_function_both', ['C14'],
  (ST, _CLS_ROUTE, "def client_validator(req):\n    since = req.if_modified_since\n    return since\n\n\n" + _CLS_ROUTE),
  (ST, _SFR_IMS, "                   cached_modify_time=client_validator(request),\n                   mimetype=self.mimetype,"),
  (ST, _APP_IMS, "                   cached_modify_time=client_validator(request),\n                   mimetype=None,"))
T('g14m_ims_helper_route_keyword', ['C14'],
  (ST, _SFR_GFR, "    def client_time(self, req, default=None):\n        since = req.if_modified_since\n        return since\n\n" + _SFR_GFR),
  (ST, _SFR_IMS, "                   cached_modify_time=self.client_time(req=request),\n                   mimetype=self.mimetype,"))
B('g14m_ims_helper_drops_future_dates', ['C14'], 'R14.m',
  (ST, _APP_GFR, "    def get_cached_modify_time(self, request):\n        ims = request.if_modified_since\n"
                 "        if ims is not None and ims > datetime.utcnow():\n            ims = None\n        return ims\n\n" + _APP_GFR),
  (ST, _APP_IMS, _APP_IMS_HELPER))
B('g14m_ims_route_helper_get_only', ['C14'], 'R14.m',
  (ST, _SFR_GFR, "    def client_time(self, request):\n        if request.method != 'GET':\n            return None\n"
                 "        return request.if_modified_since\n\n" + _SFR_GFR),
  (ST, _SFR_IMS, "                   cached_modify_time=self.client_time(request),\n                   mimetype=self.mimetype,"))
B('g14m_ims_shared_function_clock_filter', ['C14'], 'R14.m',
  (ST, _CLS_ROUTE, "def client_validator(req):\n    since = req.if_modified_since\n    now = datetime.utcnow()\n"
                   "    return since if since and since <= now else None\n\n\n" + _CLS_ROUTE),
  (ST, _SFR_IMS, "                   cached_modify_time=client_validator(request),\n                   mimetype=self.mimetype,"),
  (ST, _APP_IMS, "                   cached_modify_time=client_validator(request),\n                   mimetype=None,"))
B('g14m_ims_helper_wrong_header', ['C14'], 'R14.m',
  (ST, _APP_GFR, "    def get_cached_modify_time(self, request):\n        return request.if_unmodified_since\n\n" + _APP_GFR),
  (ST, _APP_IMS, _APP_IMS_HELPER))
B('g14m_ims_helper_runs_off_its_end', ['C14'], 'R14.m',
  (ST, _APP_GFR, "    def get_cached_modify_time(self, request):\n        if request.method in ('GET', 'HEAD'):\n"
                 "            return request.if_modified_since\n\n" + _APP_GFR),
  (ST, _APP_IMS, _APP_IMS_HELPER))
B('g14e_ims_helper_other_request', ['C14'], 'R14.e',
  (ST, _APP_GFR, "    def get_cached_modify_time(self, request, previous=None):\n        return previous\n\n" + _APP_GFR),
  (ST, _APP_IMS, _APP_IMS_HELPER))
# the same filter written in line (no helper): sibling divergence + the clock decides whether the validator is heard
B('g14m_ims_inline_clock_filter_route', ['C14'], 'R14.m',
  (ST, _SFR_GFR + "        bfr = build_file_response\n",
       _SFR_GFR + "        bfr = build_file_response\n        since = request.if_modified_since\n"
                  "        if since is not None and since > datetime.utcnow():\n            since = None\n"),
  (ST, _SFR_IMS, "                   cached_modify_time=since,\n                   mimetype=self.mimetype,"))
# a helper that decides by the clock between two spellings of the same header value still lets the clock choose: caught;
# one that tests something else than the clock and returns the header on both branches is silent
B('g14m_ims_helper_clock_window', ['C14'], 'R14.m',
  (ST, _APP_GFR, "    def get_cached_modify_time(self, request):\n        now = datetime.utcnow()\n        stale = request.if_modified_since is not None and request.if_modified_since > now\n"
                 "        if stale:\n            return None\n        return request.if_modified_since\n\n" + _APP_GFR),
  (ST, _APP_IMS, _APP_IMS_HELPER))
T('g14m_ims_helper_two_returns', ['C14'],
  (ST, _APP_GFR, "    def get_cached_modify_time(self, request):\n        if self.cache_timeout:\n            return request.if_modified_since\n"
                 "        return request.if_modified_since\n\n" + _APP_GFR),
  (ST, _APP_IMS, _APP_IMS_HELPER))
# other values that can move into a public helper: the caching switch, the looked-up path
_APP_CT = "        resp = bfr(full_path,\n                   cache_timeout=self.cache_timeout,\n"
_APP_CT_HELPER = "        resp = bfr(full_path,\n                   cache_timeout=self.get_cache_timeout(),\n"
T('g14m_cache_timeout_helper_method', ['C14'],
  (ST, _APP_GFR, "    def get_cache_timeout(self):\n        return self.cache_timeout\n\n" + _APP_GFR),
  (ST, _APP_CT, _APP_CT_HELPER))
B('g14m_cache_timeout_helper_off_in_debug', ['C14'], 'R14.m',
  (ST, _APP_GFR, "    def get_cache_timeout(self):\n        if self.debug:\n            return 0\n        return self.cache_timeout\n\n" + _APP_GFR),
  (ST, _APP_CT, _APP_CT_HELPER))
_FIND_LINE = "            full_path = find_file(self.search_paths, path)\n"
T('g14e_path_helper_method', ['C14'],
  (ST, _APP_GFR, "    def request_path(self, path):\n        return path\n\n" + _APP_GFR),
  (ST, _FIND_LINE, "            full_path = find_file(self.search_paths, self.request_path(path))\n"))
B('g14e_path_helper_strips', ['C14'], 'R14.e',
  (ST, _APP_GFR, "    def request_path(self, path):\n        return path.lstrip('.')\n\n" + _APP_GFR),
  (ST, _FIND_LINE, "            full_path = find_file(self.search_paths, self.request_path(path))\n"))
