"""E9 -- effect analysis: every store / mutating call in a function, classified by receiver."""
import ast

from .core import norm
from .astutil import walk_body, dotted, stmts_of, assigned_value

MUTATORS = {'append', 'extend', 'insert', 'pop', 'remove', 'sort', 'reverse', 'clear', 'update', 'setdefault',
            'popitem', 'add', 'discard', 'difference_update', 'intersection_update', 'symmetric_difference_update',
            'appendleft', 'extendleft', 'popleft', 'rotate', '__setitem__', '__delitem__', '__setattr__'}


class Effect(object):
    __slots__ = ('kind', 'target', 'node', 'chain', 'method')

    def __init__(self, kind, target, node, method=None):
        self.kind, self.target, self.node, self.method = kind, target, node, method
        self.chain = chain_of(target)

    @property
    def root(self):
        return self.chain[0] if self.chain else None

    def __repr__(self):
        return '<Effect %s %s>' % (self.kind, norm(self.node)[:60])


def chain_of(expr):
    """['self', 'routes'] for self.routes / self.routes[i] / self.routes.x ; None if the root is not a Name."""
    parts = []
    while True:
        if isinstance(expr, ast.Attribute):
            parts.append(expr.attr)
            expr = expr.value
        elif isinstance(expr, ast.Subscript):
            parts.append('[]')
            expr = expr.value
        elif isinstance(expr, ast.Call):
            parts.append('()')
            expr = expr.func
        elif isinstance(expr, ast.Name):
            parts.append(expr.id)
            return list(reversed(parts))
        else:
            return None


def _targets(t):
    if isinstance(t, (ast.Tuple, ast.List)):
        for e in t.elts:
            for x in _targets(e):
                yield x
    elif isinstance(t, ast.Starred):
        for x in _targets(t.value):
            yield x
    else:
        yield t


def effects_in(fnode, nested=False):
    """Heap effects of a function body: attribute/subscript stores, deletes, mutating method calls, setattr."""
    out = []
    nodes = ast.walk(fnode) if nested else walk_body(fnode)
    for n in nodes:
        if isinstance(n, ast.Assign):
            for t0 in n.targets:
                for t in _targets(t0):
                    if isinstance(t, (ast.Attribute, ast.Subscript)):
                        out.append(Effect('store', t, n))
        elif isinstance(n, (ast.AugAssign, ast.AnnAssign)):
            t = n.target
            if isinstance(t, (ast.Attribute, ast.Subscript)):
                out.append(Effect('store', t, n))
        elif isinstance(n, ast.Delete):
            for t in n.targets:
                if isinstance(t, (ast.Attribute, ast.Subscript)):
                    out.append(Effect('delete', t, n))
        elif isinstance(n, (ast.For, ast.AsyncFor)):
            for t in _targets(n.target):
                if isinstance(t, (ast.Attribute, ast.Subscript)):
                    out.append(Effect('store', t, n))
        elif isinstance(n, ast.Call):
            f = n.func
            if isinstance(f, ast.Attribute) and f.attr in MUTATORS:
                out.append(Effect('mutcall', f.value, n, f.attr))
            elif isinstance(f, ast.Name) and f.id in ('setattr', 'delattr') and n.args:
                out.append(Effect('store', n.args[0], n, f.id))
    return out


FRESH_CALLS = {'dict', 'list', 'set', 'tuple', 'frozenset', 'defaultdict', 'OrderedDict', 'deque', 'sorted', 'reversed',
               'zip', 'map', 'filter', 'str', 'bytes', 'int', 'float', 'object', 'type', 'iter', 'enumerate', 'range'}


def fresh_locals(repo, fi):
    """Local names that only ever hold objects allocated in this activation: literals, comprehensions,
    calls to container constructors or to classes of the analysed package / known constructors."""
    fresh, notfresh = set(), set()
    params = set(fi.params())
    a = fi.node.args
    if a.vararg:
        params.add(a.vararg.arg)
    if a.kwarg:
        fresh.add(a.kwarg.arg)    # **kwargs dict is built per call
    names = set()
    for st in stmts_of(fi.node):
        for n in ast.walk(st) if not isinstance(st, (ast.FunctionDef, ast.ClassDef)) else []:
            if isinstance(n, ast.Name) and isinstance(n.ctx, ast.Store):
                names.add(n.id)
    for name in names:
        if name in params:
            continue
        vals = assigned_value(fi.node, name)
        ok = bool(vals)
        for st, v, idx in vals:
            if not _is_fresh_expr(repo, fi, v, idx, fresh):
                ok = False
        if ok:
            fresh.add(name)
    return fresh


def _is_fresh_expr(repo, fi, v, idx, fresh):
    if idx is not None:
        return False
    if isinstance(v, (ast.List, ast.Dict, ast.Set, ast.Tuple, ast.ListComp, ast.DictComp, ast.SetComp, ast.GeneratorExp,
                      ast.Constant, ast.JoinedStr)):
        return True
    if isinstance(v, ast.BinOp):
        return True   # arithmetic / concatenation yields a new object (or an immutable)
    if isinstance(v, ast.Call):
        f = v.func
        if isinstance(f, ast.Name):
            if f.id in FRESH_CALLS:
                return True
            kind, m, obj = repo.resolve(fi.mod, f.id)
            if kind == 'class':
                return True
        return False
    return False
