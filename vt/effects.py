"""E9 -- effect analysis: every store / mutating call in a function, classified by receiver; freshness of locals
(flow-insensitive ``fresh_locals``, flow-sensitive ``fresh_at``, ``returns_fresh`` for analysed helpers); and ``Flow``:
reaching definitions / value flow of locals and self-attributes on the CFG (leaves with path conditions, resolution of
named temporaries, aliases)."""
import ast

from .core import norm
from .astutil import walk_body, dotted, stmts_of, assigned_value

MUTATORS = {'append', 'extend', 'insert', 'pop', 'remove', 'sort', 'reverse', 'clear', 'update', 'setdefault',
            'popitem', 'add', 'discard', 'difference_update', 'intersection_update', 'symmetric_difference_update',
            'appendleft', 'extendleft', 'popleft', 'rotate', '__setitem__', '__delitem__', '__setattr__'}


class Effect(object):
    __slots__ = ('kind', 'target', 'node', 'chain', 'method')

    def __init__(self, kind, target, node, method=None):
        self.kind, self.target, self.node, self.method = kind, target, node, method
        self.chain = chain_of(target)

    @property
    def root(self):
        return self.chain[0] if self.chain else None

    def __repr__(self):
        return '<Effect %s %s>' % (self.kind, norm(self.node)[:60])


def chain_of(expr):
    """['self', 'routes'] for self.routes / self.routes[i] / self.routes.x ; None if the root is not a Name."""
    parts = []
    while True:
        if isinstance(expr, ast.Attribute):
            parts.append(expr.attr)
            expr = expr.value
        elif isinstance(expr, ast.Subscript):
            parts.append('[]')
            expr = expr.value
        elif isinstance(expr, ast.Call):
            parts.append('()')
            expr = expr.func
        elif isinstance(expr, ast.Name):
            parts.append(expr.id)
            return list(reversed(parts))
        else:
            return None


def _targets(t):
    if isinstance(t, (ast.Tuple, ast.List)):
        for e in t.elts:
            for x in _targets(e):
                yield x
    elif isinstance(t, ast.Starred):
        for x in _targets(t.value):
            yield x
    else:
        yield t


def effects_in(fnode, nested=False, aug_names=False):
    """Heap effects of a function body: attribute/subscript stores, deletes, mutating method calls, setattr.
    ``aug_names``: also report ``x op= v`` on a plain local as kind 'augname' (target: the Name) -- for a mutable object
    (``s |= t`` on a set, ``l += t`` on a list) that is an in-place mutation of whatever object the local holds; the
    caller decides whether the local can hold such an object (see ``aug_rebinds`` / ``known_immutable``)."""
    out = []
    nodes = ast.walk(fnode) if nested else walk_body(fnode)
    for n in nodes:
        if isinstance(n, ast.Assign):
            for t0 in n.targets:
                for t in _targets(t0):
                    if isinstance(t, (ast.Attribute, ast.Subscript)):
                        out.append(Effect('store', t, n))
        elif isinstance(n, (ast.AugAssign, ast.AnnAssign)):
            t = n.target
            if isinstance(t, (ast.Attribute, ast.Subscript)):
                out.append(Effect('store', t, n))
            elif aug_names and isinstance(n, ast.AugAssign) and isinstance(t, ast.Name):
                out.append(Effect('augname', t, n))
        elif isinstance(n, ast.Delete):
            for t in n.targets:
                if isinstance(t, (ast.Attribute, ast.Subscript)):
                    out.append(Effect('delete', t, n))
        elif isinstance(n, (ast.For, ast.AsyncFor)):
            for t in _targets(n.target):
                if isinstance(t, (ast.Attribute, ast.Subscript)):
                    out.append(Effect('store', t, n))
        elif isinstance(n, ast.Call):
            f = n.func
            if isinstance(f, ast.Attribute) and f.attr in MUTATORS:
                out.append(Effect('mutcall', f.value, n, f.attr))
            elif isinstance(f, ast.Name) and f.id in ('setattr', 'delattr') and n.args:
                out.append(Effect('store', n.args[0], n, f.id))
    return out


def aug_name_effects(fnode):
    """``x op= v`` on a plain local (kind 'aug').  Not a heap effect by itself -- ``effects_in`` leaves it out -- but an
    in-place mutation of whatever container ``x`` is an alias of (``ms = route.methods; ms |= more``): rules resolve the
    local through ``Flow`` and judge the object it stands for."""
    return [Effect('aug', n.target, n) for n in walk_body(fnode) if isinstance(n, ast.AugAssign) and isinstance(n.target, ast.Name)]


def aug_in_place(node):
    """An augmented assignment that may update a container in place: there is no evidence that the operand is an
    immutable number / string (``n += 1``, ``msg += ' ...'``, ``msg += '%s' % x`` re-bind the target instead)."""
    v = node.value
    if isinstance(v, ast.Constant) and isinstance(v.value, (int, float, complex, str, bytes)):
        return False
    if isinstance(v, ast.JoinedStr):
        return False
    if isinstance(v, ast.BinOp) and isinstance(v.op, ast.Mod) and isinstance(v.left, ast.Constant) and isinstance(v.left.value, (str, bytes)):
        return False
    if isinstance(v, ast.Call) and isinstance(v.func, ast.Name) and v.func.id in ('str', 'int', 'float', 'len', 'repr', 'bytes'):
        return False
    return True


FRESH_CALLS = {'dict', 'list', 'set', 'tuple', 'frozenset', 'defaultdict', 'OrderedDict', 'deque', 'sorted', 'reversed',
               'zip', 'map', 'filter', 'str', 'bytes', 'int', 'float', 'object', 'type', 'iter', 'enumerate', 'range'}


COPY_METHODS = {'copy', 'deepcopy', 'union', 'intersection', 'difference', 'symmetric_difference'}


def fresh_locals(repo, fi):
    """Local names that only ever hold objects allocated in this activation: literals, comprehensions,
    calls to container constructors or to classes of the analysed package / known constructors."""
    fresh, notfresh = set(), set()
    params = set(fi.params())
    a = fi.node.args
    if a.vararg:
        params.add(a.vararg.arg)
    if a.kwarg:
        fresh.add(a.kwarg.arg)    # **kwargs dict is built per call
    names = set()
    for st in stmts_of(fi.node):
        for n in ast.walk(st) if not isinstance(st, (ast.FunctionDef, ast.ClassDef)) else []:
            if isinstance(n, ast.Name) and isinstance(n.ctx, ast.Store):
                names.add(n.id)
    for name in names:
        if name in params:
            continue
        vals = assigned_value(fi.node, name)
        # ``x op= v`` leaves in x the object it held (mutated in place) or a newly built one: the local is as fresh as
        # its other assignments make it (it needs at least one of those)
        vals = [(st, v, idx) for st, v, idx in vals if not isinstance(v, ast.AugAssign)]
        ok = bool(vals)
        for st, v, idx in vals:
            if isinstance(idx, int) and not _plain_unpack(st, v):
                idx = 'unpack'
            if not _is_fresh_expr(repo, fi, v, idx, fresh):
                ok = False
        if ok:
            fresh.add(name)
    return fresh


def _plain_unpack(st, v):
    """``a, b = x, y``: a display of the same length on both sides, no stars -- positions correspond."""
    if not isinstance(st, ast.Assign) or not isinstance(v, (ast.Tuple, ast.List)):
        return False
    for t in st.targets:
        if isinstance(t, (ast.Tuple, ast.List)):
            if len(t.elts) != len(v.elts) or any(isinstance(e, ast.Starred) for e in list(t.elts) + list(v.elts)):
                return False
    return True


def _is_fresh_expr(repo, fi, v, idx, fresh):
    if isinstance(idx, int) and isinstance(v, (ast.Tuple, ast.List)) and 0 <= idx < len(v.elts) and \
            not any(isinstance(e, ast.Starred) for e in v.elts):
        # a, b = list(x), list(y): position by position (targets without a star: assigned_value gives plain indices)
        return _is_fresh_expr(repo, fi, v.elts[idx], None, fresh)
    if idx is not None:
        return False
    if isinstance(v, (ast.List, ast.Dict, ast.Set, ast.Tuple, ast.ListComp, ast.DictComp, ast.SetComp, ast.GeneratorExp,
                      ast.Constant, ast.JoinedStr)):
        return True
    if isinstance(v, ast.BinOp):
        return True   # arithmetic / concatenation yields a new object (or an immutable)
    if isinstance(v, ast.Call):
        f = v.func
        if isinstance(f, ast.Name):
            if f.id in FRESH_CALLS:
                return True
            kind, m, obj = repo.resolve(fi.mod, f.id)
            if kind == 'class':
                return True
            if kind == 'func' and m is not None and not m.external:
                return returns_fresh(repo, obj)
        elif isinstance(f, ast.Attribute) and isinstance(f.value, ast.Name) and f.value.id in ('self', 'cls') and fi.cls is not None:
            meth = repo.find_method(fi.cls, f.attr)
            if meth is not None and not meth.mod.external:
                return returns_fresh(repo, meth)
        if isinstance(f, ast.Attribute) and f.attr in COPY_METHODS and not (f.attr == 'copy' and (v.args or v.keywords)):
            # x.copy() / s.union(t) / ...: the container protocol hands out a new object (copy.copy / copy.deepcopy included)
            return not (isinstance(f.value, ast.Name) and f.value.id in ('self', 'cls') and f.attr == 'copy')
        return False
    return False


IMMUTABLE_CALLS = {'int', 'float', 'complex', 'str', 'bytes', 'bool', 'len', 'tuple', 'frozenset', 'repr', 'ord', 'chr', 'hash', 'id',
                   'round', 'abs', 'format', 'hex', 'oct', 'bin', 'unicode', 'isinstance', 'callable', 'hasattr'}
IMMUTABLE_METHODS = {'join', 'format', 'strip', 'lstrip', 'rstrip', 'lower', 'upper', 'title', 'encode', 'decode', 'replace', 'count',
                     'index', 'find', 'rfind', 'startswith', 'endswith', 'total_seconds', 'hexdigest', 'digest', 'isoformat', 'zfill',
                     'time', 'monotonic', 'perf_counter'}


def aug_rebinds(aug):
    """``x op= <number>`` with an operator no mutable built-in container accepts a number for (everything except ``*=``):
    x holds a number, the statement re-binds x and mutates nothing."""
    v = aug.value
    if isinstance(v, ast.UnaryOp) and isinstance(v.op, (ast.USub, ast.UAdd)):
        v = v.operand
    return isinstance(v, ast.Constant) and isinstance(v.value, (int, float, complex)) and not isinstance(aug.op, (ast.Mult, ast.MatMult))


def known_immutable(fi, v, _depth=0, _seen=()):
    """The expression can only evaluate to an immutable built-in value (number, string, tuple, frozenset, None): decided
    from its shape over a small abstract domain {immutable, unknown}; a local is followed to all its assignments, a
    parameter counts when its default is a number / string / tuple."""
    if _depth > 6:
        return False
    if isinstance(v, (ast.Constant, ast.JoinedStr, ast.Tuple, ast.Compare)):
        return True
    if isinstance(v, ast.UnaryOp):
        return isinstance(v.op, ast.Not) or known_immutable(fi, v.operand, _depth + 1, _seen)
    if isinstance(v, ast.BinOp):
        # arithmetic / concatenation with an immutable operand yields that operand's kind of value (``[x] * 2`` is a list)
        l, r = known_immutable(fi, v.left, _depth + 1, _seen), known_immutable(fi, v.right, _depth + 1, _seen)
        return (l and r) if isinstance(v.op, (ast.Mult, ast.MatMult)) else (l or r)
    if isinstance(v, ast.BoolOp):
        return all(known_immutable(fi, x, _depth + 1, _seen) for x in v.values)
    if isinstance(v, ast.IfExp):
        return known_immutable(fi, v.body, _depth + 1, _seen) and known_immutable(fi, v.orelse, _depth + 1, _seen)
    if isinstance(v, ast.Call):
        f = v.func
        if isinstance(f, ast.Name):
            return f.id in IMMUTABLE_CALLS
        return isinstance(f, ast.Attribute) and f.attr in IMMUTABLE_METHODS
    if isinstance(v, ast.Name):
        if v.id in _seen:
            return False
        a = fi.node.args
        pos = a.posonlyargs + a.args
        defaults = dict(zip([x.arg for x in pos[len(pos) - len(a.defaults):]], a.defaults))
        defaults.update((x.arg, d) for x, d in zip(a.kwonlyargs, a.kw_defaults) if d is not None)
        vals = assigned_value(fi.node, v.id)
        if v.id in fi.params() or (a.vararg and a.vararg.arg == v.id) or (a.kwarg and a.kwarg.arg == v.id):
            d = defaults.get(v.id)
            if a.vararg and a.vararg.arg == v.id:
                pass            # *args is a tuple
            elif not (isinstance(d, (ast.Constant, ast.Tuple)) and not (isinstance(d, ast.Constant) and d.value is None)):
                return False
        elif not vals:
            return False
        for st, val, idx in vals:
            if isinstance(val, ast.AugAssign):
                continue        # keeps the kind of value the other assignments give the local
            if idx is not None or not known_immutable(fi, val, _depth + 1, _seen + (v.id,)):
                return False
        return True
    return False


def callee_of(repo, fi, call):
    """FuncInfo of the analysed function a call names (module-level function, or method through self / cls); None
    for anything else (builtins, third-party, computed callees)."""
    f = call.func if isinstance(call, ast.Call) else None
    try:
        if isinstance(f, ast.Name):
            kind, m, obj = repo.resolve(fi.mod, f.id)
            if kind == 'func' and m is not None and not m.external:
                return obj
        elif isinstance(f, ast.Attribute) and isinstance(f.value, ast.Name) and f.value.id in ('self', 'cls') and fi.cls is not None:
            meth = repo.find_method(fi.cls, f.attr)
            if meth is not None and not meth.mod.external:
                return meth
    except Exception:
        return None
    return None


def fresh_at(repo, fi, fl, name, stmt):
    """At statement ``stmt`` the local ``name`` can only hold an object allocated in this activation: every definition
    reaching the statement assigns a fresh expression (flow-sensitive companion of ``fresh_locals``)."""
    ds = fl.reaching(name, stmt)
    if not ds:
        return False
    a = fi.node.args
    fresh = fresh_locals(repo, fi)
    for d in ds:
        if d.kind == 'entry':
            if a.kwarg is not None and a.kwarg.arg == name:
                continue
            return False
        v, _ = fl.unpacked(d)
        if v is None:
            return False
        if isinstance(v, ast.Name) and v.id in fresh and v.id != name:
            continue
        if not _is_fresh_expr(repo, fi, v, None, fresh):
            return False
    return True


def returns_fresh(repo, fi, _depth=0):
    """Every ``return`` of an analysed function hands out an object allocated in that activation (a literal, a
    container constructor call, a concatenation, or a local that only ever holds such objects) -- the caller's local
    that receives it is as fresh as one built in place.  Generators and functions without a return are not."""
    cache = getattr(repo, '_returns_fresh', None)
    if cache is None:
        cache = repo._returns_fresh = {}
    if fi.key in cache:
        return cache[fi.key]
    cache[fi.key] = False        # recursion guard
    ok = _depth < 3
    rets = [s for s in stmts_of(fi.node) if isinstance(s, ast.Return)]
    if not rets or any(isinstance(n, (ast.Yield, ast.YieldFrom)) for n in walk_body(fi.node)):
        ok = False
    if ok:
        fresh = fresh_locals(repo, fi)
        for r in rets:
            v = r.value
            if isinstance(v, ast.Name):
                if v.id not in fresh:
                    ok = False
            elif v is None or isinstance(v, ast.Constant) or not _is_fresh_expr(repo, fi, v, None, fresh):
                ok = False
    cache[fi.key] = ok
    return ok


# ---------------------------------------------------------------------------------------------- value flow
# Reaching definitions for locals and ``self.<attr>`` slots of ONE function, on its CFG.  Rules use it to recognise a
# value by *role* ("what ends up in self.render, under which path conditions") instead of by the name of the local
# that happens to carry it: named temporaries, values stored straight into the attribute, helper results that
# the front-end inlined -- all resolve to the same leaves.

class Def(object):
    """One definition of a slot: kind 'assign' (value known; ``idx`` = position in an unpacked value or None),
    or an opaque kind ('aug', 'iter', 'with', 'exc', 'del', 'def', 'entry')."""
    __slots__ = ('key', 'stmt', 'value', 'idx', 'kind', 'handler')

    def __init__(self, key, stmt, value, idx=None, kind='assign', handler=None):
        self.key, self.stmt, self.value, self.idx, self.kind, self.handler = key, stmt, value, idx, kind, handler

    def __repr__(self):
        return '<Def %s %s L%s %s>' % (self.key, self.kind, getattr(self.stmt, 'lineno', '?'), norm(self.value)[:50] if self.value is not None else '')


class Leaf(object):
    """A value that can flow into a slot: the expression, the statement that evaluates it, the path conditions
    collected along the chain of assignments."""
    __slots__ = ('value', 'stmt', 'conds', 'opaque')

    def __init__(self, value, stmt, conds, opaque=False):
        self.value, self.stmt, self.conds, self.opaque = value, stmt, conds, opaque

    def __repr__(self):
        return '<Leaf %s | %s>' % (norm(self.value)[:60], ['%s%s' % ('' if p else 'not ', norm(t)[:40]) for t, p in self.conds])


def slot_key(expr):
    """'x' for a Name, 'self.a' for an attribute of ``self``; None for anything else."""
    if isinstance(expr, ast.Name):
        return expr.id
    if isinstance(expr, ast.Attribute) and isinstance(expr.value, ast.Name) and expr.value.id == 'self':
        return 'self.' + expr.attr
    return None


def _transparent(v):
    """Expressions a local may stand for without changing what is computed: names, attribute chains, constants,
    getattr with constant name, constant subscripts."""
    if isinstance(v, (ast.Name, ast.Constant)):
        return True
    if isinstance(v, (ast.List, ast.Tuple, ast.Dict)) and not (v.keys if isinstance(v, ast.Dict) else v.elts):
        return True     # empty display (a getattr default)
    if isinstance(v, ast.Attribute):
        return _transparent(v.value)
    if isinstance(v, ast.Subscript):
        return _transparent(v.value) and isinstance(v.slice, ast.Constant)
    if isinstance(v, ast.Call) and isinstance(v.func, ast.Name) and v.func.id == 'getattr' and not v.keywords and \
            len(v.args) in (2, 3) and isinstance(v.args[1], ast.Constant):
        return all(_transparent(a) for a in v.args)
    return False


class Flow(object):
    def __init__(self, fi):
        from .cfg import CFG
        self.fi = fi
        c = getattr(fi, '_cfg', None)
        if c is None:
            c = fi._cfg = CFG(fi.node)
        self.cfg = c
        self.defs = {}
        self._conds = {}
        self._reach = {}
        self.subst = {}      # slot key -> expression a rule has established the slot to stand for (used by resolve)
        self._collect()

    # -- definitions ---------------------------------------------------------------------------------
    def _add(self, key, stmt, value, idx=None, kind='assign', handler=None):
        if key is not None:
            self.defs.setdefault(key, []).append(Def(key, stmt, value, idx, kind, handler))

    def _nodes(self, d):
        if d.handler is not None:
            return self.cfg.handler_nodes(d.handler)
        return self.cfg.nodes_of(d.stmt)

    def _bind_target(self, t, value, st):
        if isinstance(t, (ast.Tuple, ast.List)):
            plain = not any(isinstance(e, ast.Starred) for e in t.elts)
            if plain and isinstance(value, (ast.Tuple, ast.List)) and len(value.elts) == len(t.elts) and \
                    not any(isinstance(e, ast.Starred) for e in value.elts):
                for e, v in zip(t.elts, value.elts):
                    self._bind_target(e, v, st)
            else:
                for i, e in enumerate(t.elts):
                    if isinstance(e, ast.Starred):
                        e = e.value
                    if isinstance(e, (ast.Tuple, ast.List)):
                        for x in _targets(e):
                            self._add(slot_key(x), st, value, -1)
                    else:
                        self._add(slot_key(e), st, value, i if plain else -1)
        else:
            self._add(slot_key(t), st, value)

    def _collect(self):
        for st in stmts_of(self.fi.node):
            if isinstance(st, ast.Assign):
                for t in st.targets:
                    self._bind_target(t, st.value, st)
            elif isinstance(st, ast.AnnAssign):
                if st.value is not None:
                    self._add(slot_key(st.target), st, st.value)
            elif isinstance(st, ast.AugAssign):
                self._add(slot_key(st.target), st, None, kind='aug')
            elif isinstance(st, (ast.For, ast.AsyncFor)):
                for t in _targets(st.target):
                    self._add(slot_key(t), st, st.iter, kind='iter')
            elif isinstance(st, (ast.With, ast.AsyncWith)):
                for it in st.items:
                    if it.optional_vars is not None:
                        for t in _targets(it.optional_vars):
                            self._add(slot_key(t), st, it.context_expr, kind='with')
            elif isinstance(st, ast.Try):
                for h in st.handlers:
                    if h.name:
                        self._add(h.name, st, h.type, kind='exc', handler=h)
            elif isinstance(st, ast.Delete):
                for t in st.targets:
                    self._add(slot_key(t), st, None, kind='del')
            elif isinstance(st, (ast.FunctionDef, ast.AsyncFunctionDef, ast.ClassDef)):
                self._add(st.name, st, None, kind='def')
            elif isinstance(st, (ast.Import, ast.ImportFrom)):
                for a in st.names:
                    self._add((a.asname or a.name).split('.')[0], st, None, kind='def')
            if not isinstance(st, (ast.FunctionDef, ast.AsyncFunctionDef, ast.ClassDef)):
                hosts = [st] if not hasattr(st, 'body') else [getattr(st, f) for f in ('test', 'iter', 'value') if isinstance(getattr(st, f, None), ast.AST)]
                for h in hosts:
                    for n in ast.walk(h):
                        if isinstance(n, ast.NamedExpr):
                            self._add(slot_key(n.target), st, n.value)

    def _at_nodes(self, at):
        if at == 'exit':
            return [self.cfg.exit]
        return self.cfg.nodes_of(at)

    def reaching(self, key, at):
        """Definitions of ``key`` that can be the current one when control is at statement ``at`` (or 'exit').
        A pseudo definition of kind 'entry' stands for the value on entry (parameter / not yet assigned)."""
        ck = (key, id(at) if at != 'exit' else 'exit')
        if ck in self._reach:
            return self._reach[ck]
        cfg = self.cfg
        at_nodes = set(self._at_nodes(at))
        ds = self.defs.get(key, [])
        def_nodes = set()
        for d in ds:
            def_nodes.update(self._nodes(d))
        avoid = def_nodes - at_nodes
        # between a definition and a use that it reaches nothing re-binds the name, so every test of the name's
        # truth on the way has the outcome known to hold at the use: branches of the other outcome are not on the path
        if at != 'exit' and ds:
            want = [p for t, p in self.conds(at) if norm(t) == key]
            if want and all(p is want[0] for p in want):
                avoid = avoid | set(nid for nid, t, p in cfg.branches() if norm(t) == key and p is not want[0])
        out = []
        for d in ds:
            srcs = [m for n in self._nodes(d) for m in cfg.succ[n] if (n, m) not in cfg.exc_edges or n in cfg.raise_nodes]
            # (a definition inside ``at`` itself -- x = f(x) -- reaches only around a cycle: srcs are its successors)
            if at_nodes & cfg.reach(srcs, avoid=avoid):
                out.append(d)
        if at_nodes & cfg.reach([cfg.entry], avoid=avoid):
            out.append(Def(key, None, None, None, 'entry'))
        self._reach[ck] = out
        return out

    def conds(self, stmt):
        k = id(stmt)
        if k not in self._conds:
            self._conds[k] = self.cfg.conds_at_stmt(stmt) if stmt is not None else []
        return self._conds[k]

    def stmt_of(self, node):
        cur = node
        while cur is not None and not isinstance(cur, ast.stmt):
            cur = self.fi.mod.parents.get(cur)
        return cur

    # -- resolution ----------------------------------------------------------------------------------
    def single_def(self, key, at):
        """The one assignment that defines ``key`` at ``at`` (a Def whose ``value`` names the assigned expression), or None."""
        ds = self.reaching(key, at)
        if len(ds) == 1 and ds[0].kind == 'assign':
            if ds[0].idx is None:
                return ds[0]
            v, vat = self.unpacked(ds[0])
            if v is not None:
                return Def(key, vat, v, None, 'assign')
        return None

    def resolve(self, expr, at=None, _depth=0, _seen=()):
        """Copy of ``expr`` in which every local / self-attribute with exactly one reaching definition of a
        transparent value (name, attribute chain, getattr, constant) is replaced by that value, recursively.
        ``at``: the statement evaluating ``expr`` (default: the one containing it)."""
        import copy
        if at is None:
            at = self.stmt_of(expr)

        def rec(e):
            if isinstance(e, (ast.Lambda, ast.ListComp, ast.SetComp, ast.DictComp, ast.GeneratorExp)):
                return copy.deepcopy(e)
            k = slot_key(e)
            if k is not None and k in self.subst and isinstance(getattr(e, 'ctx', None), ast.Load):
                return copy.deepcopy(self.subst[k])
            if k is not None and isinstance(getattr(e, 'ctx', None), ast.Load) and _depth < 10 and k not in _seen and at is not None:
                d = self.single_def(k, at)
                if d is not None and _transparent(d.value):
                    return self.resolve(d.value, d.stmt, _depth + 1, _seen + (k,))
            if not isinstance(e, ast.AST):
                return e
            new = e.__class__()
            for f, v in ast.iter_fields(e):
                if isinstance(v, list):
                    setattr(new, f, [rec(x) if isinstance(x, ast.AST) else x for x in v])
                elif isinstance(v, ast.AST):
                    setattr(new, f, rec(v))
                else:
                    setattr(new, f, v)
            return ast.copy_location(new, e) if hasattr(e, 'lineno') else new
        return rec(expr)

    def text(self, expr, at=None):
        """Canonical text of an expression: resolved, normalised."""
        return norm(self.resolve(expr, at))

    def cond_texts(self, conds):
        """[(canonical text, polarity, test)] for path conditions (tests are resolved where they are evaluated)."""
        return [(self.text(t), p, t) for t, p in conds]

    def flow_conds(self, d, at):
        """Branch conditions that hold on every path on which definition ``d`` is still the current one at ``at``
        (``x = a`` ... ``if not ok(x): x = b`` ... use: ``a`` arrives only through the false branch of the test)."""
        from .cfg import expand_conds
        ck = ('fc', id(d.stmt) if d.stmt is not None else 'entry', d.key, id(at) if at != 'exit' else 'exit')
        if ck in self._reach:
            return self._reach[ck]
        cfg = self.cfg
        at_nodes = set(self._at_nodes(at))
        def_nodes = set()
        for x in self.defs.get(d.key, []):
            def_nodes.update(self._nodes(x))
        avoid0 = def_nodes - at_nodes
        if d.kind == 'entry':
            srcs = [cfg.entry]        # the value on entry (a parameter): paths from the top of the function
        else:
            srcs = [m for n in self._nodes(d) for m in cfg.succ[n] if (n, m) not in cfg.exc_edges or n in cfg.raise_nodes]
        fwd = cfg.reach(srcs, avoid=avoid0)
        out = []
        if at_nodes & fwd:
            region = fwd & cfg.coreach(at_nodes, avoid=avoid0)
            seen = set()
            for nd in cfg.nodes:
                if nd.kind != 'branch' or nd.id not in region or (id(nd.test), nd.pol) in seen:
                    continue
                seen.add((id(nd.test), nd.pol))
                b = set(cfg.branch_nodes(nd.test, nd.pol))
                nb = set(cfg.branch_nodes(nd.test, not nd.pol))
                if at_nodes & cfg.reach(srcs, avoid=avoid0 | b):
                    continue            # the use can be reached without taking this branch
                if (nb & fwd) and at_nodes & cfg.reach(list(nb & fwd), avoid=avoid0 | b):
                    continue            # ... or the last evaluation on the way may have had the other outcome
                after = [m for x in b for m in cfg.succ[x]]
                mid = (cfg.reach(after, avoid=avoid0 | b) & cfg.coreach(at_nodes, avoid=avoid0 | b)) - at_nodes
                if cfg._kills(nd.test, mid):
                    continue
                out.append((nd.test, nd.pol))
            out = expand_conds(out)
        self._reach[ck] = out
        return out

    def unpacked(self, d):
        """(value expr, statement) a definition binds -- for ``a, b = t`` with ``t`` a local holding a display of the same
        length (``t = (x, y)``), the element at the position; (None, None) when the value cannot be named."""
        if d.kind != 'assign':
            return None, None
        if d.idx is None:
            return d.value, d.stmt
        if not isinstance(d.idx, int) or d.idx < 0:
            return None, None
        v, at = d.value, d.stmt
        for _ in range(4):
            k = slot_key(v)
            if k is None:
                break
            sd = self.single_def(k, at)
            if sd is None:
                return None, None
            v, at = sd.value, sd.stmt
        if isinstance(v, (ast.Tuple, ast.List)) and not any(isinstance(e, ast.Starred) for e in v.elts):
            tgt = [t for t in getattr(d.stmt, 'targets', []) if isinstance(t, (ast.Tuple, ast.List))]
            if tgt and all(len(t.elts) == len(v.elts) and not any(isinstance(e, ast.Starred) for e in t.elts) for t in tgt):
                return v.elts[d.idx], at
        return None, None

    def leaves(self, expr, at, _conds=(), _depth=0):
        """Values that can flow into ``expr`` evaluated at ``at`` (statement or 'exit'), following assignments of
        locals / self-attributes backwards through every reaching definition; a conditional expression contributes
        both arms with the test added to the conditions."""
        from .cfg import expand_conds
        if isinstance(expr, ast.IfExp) and _depth <= 10:
            out = []
            for arm, pol in ((expr.body, True), (expr.orelse, False)):
                extra = [c for c in expand_conds([(expr.test, pol)]) if c not in _conds]
                out.extend(self.leaves(arm, at, list(_conds) + extra, _depth + 1))
            return out
        k = slot_key(expr)
        if k is None or _depth > 10:
            return [Leaf(expr, at, list(_conds))]
        ds = self.reaching(k, at)
        if not ds:
            return [Leaf(expr, at, list(_conds), opaque=True)]
        out = []
        for d in ds:
            cs = list(_conds) + [c for c in (self.conds(d.stmt) if d.stmt is not None else []) if c not in _conds]
            if len(ds) > 1:
                cs = cs + [c for c in self.flow_conds(d, at) if c not in cs]
            if d.kind == 'entry':
                out.append(Leaf(expr, at, cs))      # the parameter / the value on entry itself
                continue
            v, vat = self.unpacked(d)
            if v is None:
                out.append(Leaf(expr if d.value is None or d.kind != 'assign' else d.value, d.stmt, cs, opaque=True))
            else:
                out.extend(self.leaves(v, vat, cs, _depth + 1))
        return out

    def aliases(self, key):
        """Texts that denote the same object as slot ``key`` from their assignment on: a slot all of whose definitions are
        plain copies ``a = b`` of one other slot is an alias of it (and the chained targets of one assignment of each other)."""
        out = {key}
        changed = True
        while changed:
            changed = False
            for k, ds in self.defs.items():
                if not ds or any(d.kind != 'assign' or d.idx is not None for d in ds):
                    continue
                srcs = set(slot_key(d.value) if d.value is not None else None for d in ds)
                v = srcs.pop() if len(srcs) == 1 else None
                sibs = set()
                if len(ds) == 1 and isinstance(ds[0].stmt, ast.Assign) and len(ds[0].stmt.targets) > 1:
                    sibs = set(slot_key(t) for t in ds[0].stmt.targets) - {None}
                for a, b in [(k, v)] + [(k, s_) for s_ in sibs if s_ != k]:
                    if b is None:
                        continue
                    if (a in out) != (b in out):
                        # the source must not be re-defined after the copy
                        if any(self._redefined_after(x, d.stmt) for d in ds for x in (a, b) if x != k):
                            continue
                        out.update((a, b))
                        changed = True
        return out

    def _redefined_after(self, key, stmt):
        cfg = self.cfg
        after = cfg.reach([m for n in cfg.nodes_of(stmt) for m in cfg.succ[n]])
        for d in self.defs.get(key, []):
            if d.stmt is not stmt and set(cfg.nodes_of(d.stmt)) & after:
                return True
        return False
