"""Variants for C15 / C19: distilled refactoring shapes the rules were taught to follow (T) and the judgements
added while doing so (B)."""
from .variants import B, T, S, C, R, A, E, ST, CK, STATS, GZ, CC, PF, RS, FL, META, CE

# ------------------------------------------------------------------------------------------------ anchors (texts of /repo)
_GZ_BODY = '''        resp = next()
        if not hasattr(resp, 'content_encoding'):
            # e.g., HTTPExceptions (404/405/...), which are BaseResponses
            # without the common header descriptors
            return resp
        # TODO: shortcut redirects/304s/responses without content?
        resp.vary.add('Accept-Encoding')
        if resp.content_encoding or not request.accept_encodings['gzip']:
            return resp

        # https://connect.microsoft.com/IE/feedback/details/1795907/content-encoding-gzip-in-response-header-is-missing-on-ie11
        if 'msie' in (request.user_agent.browser or ''):
            # a response need not have a Content-Type header
            content_type = resp.content_type or ''
            if not (content_type.startswith('text/') or
                    'javascript' in content_type):
                return resp

        if resp.is_streamed:
            return resp  # TODO

        comp_content = gzip_bytes(resp.data, self.compress_level)
        if len(comp_content) >= len(resp.data):
            return resp
        resp.response = [comp_content]
        resp.content_length = len(comp_content)
        resp.content_encoding = 'gzip'
        # TODO: regenerate etag?
        return resp
'''
_GZ_TAIL = '''        comp_content = gzip_bytes(resp.data, self.compress_level)
        if len(comp_content) >= len(resp.data):
            return resp
        resp.response = [comp_content]
        resp.content_length = len(comp_content)
        resp.content_encoding = 'gzip'
'''
_GZ_ACCEPT = "        if resp.content_encoding or not request.accept_encodings['gzip']:\n            return resp\n"

_ST_FINALLY = '''        finally:
            end_time = time.time()
            duration = end_time - start_time
            hit = Hit(start_time,
                      request.path,
                      _route.pattern,
                      resp_status,
                      duration,
                      resp_mime_type)
            self.route_hits[_route][resp_status].add(hit)
        return resp
'''
_ST_ADD = '''    def add(self, val):
        self._total_count += 1
        if len(self._data) < self._cap:
            # not (yet, or after an enlarging resize, no longer) full
            self._data.append(val)
            return

        idx = fast_randint(0, self._total_count)
        if idx < self._cap:
            self._data[idx] = val
        return
'''
_ST_RESIZE = '''    def resize(self, new_size):
        self._cap = new_size
        if new_size >= len(self._data):
            return
        self._data = self._data[:new_size]
'''
_ST_ROUTE_STATS = '''def _get_route_stats(rt_hits):
    ret = {}
    for status, hits in rt_hits.items():
        ret[status] = cur = {}
        durs = [round(h.duration * 1000, 2) for h in hits]
        stats = Stats(durs, use_copy=False)
        desc_dict = stats.describe(quantiles=[0.25, 0.5, 0.75, 0.95, 0.99], format="dict")
        desc_dict['count'] = hits.total_count  # need to account for reservoir count
        desc_dict['last_hit'] = datetime.datetime.fromtimestamp(hits.last_hit).isoformat()
        desc_dict['total_duration'] = round(hits.total_duration * 1000, 2)
        cur.update(desc_dict)
    return ret
'''
_ST_RESET_EP = '''    ret = get_stats_dict(_application)
    stats_mw = _get_stats_mw(_application)
    stats_mw.reset()
    ret['reset'] = True
    return ret
'''

# ------------------------------------------------------------------------------------------------ C15: gzip
# single exit; the decision is a predicate method with several ``return False`` exits, the swap a second method
T('h_gz_single_exit_helpers', ['C15'], (GZ, _GZ_BODY, '''        resp = next()
        if hasattr(resp, 'content_encoding'):
            resp.vary.add('Accept-Encoding')
            if self._wants_gzip(resp, request):
                self._swap_body(resp)
        return resp

    def _wants_gzip(self, resp, request):
        if resp.content_encoding:
            return False
        if not request.accept_encodings['gzip']:
            return False
        from_ie = 'msie' in (request.user_agent.browser or '')
        ctype = resp.content_type or ''
        if from_ie and not (ctype.startswith('text/') or 'javascript' in ctype):
            return False
        if resp.is_streamed:
            return False
        return True

    def _swap_body(self, resp):
        raw = resp.data
        packed = gzip_bytes(raw, self.compress_level)
        packed_len = len(packed)
        if packed_len < len(raw):
            resp.response = [packed]
            resp.content_length = packed_len
            resp.content_encoding = 'gzip'
        return
'''))
# named temporaries for the two sizes and the original body
T('h_gz_named_sizes', ['C15'], (GZ, _GZ_TAIL, '''        original = resp.data
        comp_content = gzip_bytes(original, self.compress_level)
        new_size = len(comp_content)
        old_size = len(original)
        if new_size >= old_size:
            return resp
        resp.response = [comp_content]
        resp.content_length = new_size
        resp.content_encoding = 'gzip'
'''))
# the header lookup named before it is tested
T('h_gz_accept_temp', ['C15'], (GZ, _GZ_ACCEPT,
                               "        gzip_quality = request.accept_encodings['gzip']\n        if resp.content_encoding or not gzip_quality:\n            return resp\n"))
T('h_gz_accept_split', ['C15'], (GZ, _GZ_ACCEPT,
                                "        if resp.content_encoding:\n            return resp\n        accepted = request.accept_encodings\n        if not accepted['gzip']:\n            return resp\n"))
T('h_gz_accept_demorgan', ['C15'], (GZ, _GZ_ACCEPT,
                                   "        if not (not resp.content_encoding and request.accept_encodings['gzip']):\n            return resp\n"))
# hand-written flag instead of early returns
T('h_gz_flag', ['C15'], (GZ, _GZ_ACCEPT, "        eligible = True\n        if resp.content_encoding:\n            eligible = False\n        elif not request.accept_encodings['gzip']:\n"
                        "            eligible = False\n        if not eligible:\n            return resp\n"))
# constants moved to module level
T('h_gz_module_constants', ['C15'],
  (GZ, 'class GzipMiddleware(Middleware):', "_ENCODING = 'gzip'\n_VARY_ON = 'Accept-Encoding'\n\n\nclass GzipMiddleware(Middleware):"),
  (GZ, "        resp.vary.add('Accept-Encoding')", '        resp.vary.add(_VARY_ON)'),
  (GZ, "        resp.content_encoding = 'gzip'", '        resp.content_encoding = _ENCODING'),
  (GZ, "request.accept_encodings['gzip']", 'request.accept_encodings[_ENCODING]'))
T('h_gz_vary_alias', ['C15'], (GZ, "        resp.vary.add('Accept-Encoding')", "        vary = resp.vary\n        vary.add('Accept-Encoding')"))
T('h_gz_size_guard_positive', ['C15'],
  (GZ, '        if len(comp_content) >= len(resp.data):\n            return resp\n        resp.response = [comp_content]\n        resp.content_length = len(comp_content)\n        resp.content_encoding = \'gzip\'\n',
       '        if len(comp_content) < len(resp.data):\n            resp.response = [comp_content]\n            resp.content_length = len(comp_content)\n            resp.content_encoding = \'gzip\'\n'))
# new judgements
B('h_gz_size_guard_flipped', ['C15'], 'R15.d', (GZ, '        if len(comp_content) >= len(resp.data):', '        if len(comp_content) < len(resp.data):'))
B('h_gz_length_of_original', ['C15'], 'R15.d',
  (GZ, _GZ_TAIL, '''        original = resp.data
        comp_content = gzip_bytes(original, self.compress_level)
        if len(comp_content) >= len(original):
            return resp
        resp.response = [comp_content]
        resp.content_length = len(original)
        resp.content_encoding = 'gzip'
'''))
B('h_gz_flag_ignores_accept', ['C15'], 'R15.d',
  (GZ, _GZ_ACCEPT, "        eligible = True\n        if resp.content_encoding:\n            eligible = False\n        if not eligible:\n            return resp\n"))
B('h_gz_vary_after_accept_return', ['C15'], 'R15.d',
  (GZ, "        resp.vary.add('Accept-Encoding')\n" + _GZ_ACCEPT, _GZ_ACCEPT + "        resp.vary.add('Accept-Encoding')\n"))
T('h_profile_named_trigger', ['C15'],
  (PF, '        if not request.args.get(self.get_param_name):\n            return next()\n',
       '        wanted = request.args.get(self.get_param_name)\n        if not wanted:\n            return next()\n'))
T('h_cache_guard_clause', ['C15'],
  (CC, '''        if hasattr(resp, 'cache_control'):
            for attr in self.cache_attrs:
                cache_val = getattr(self, attr, None)
                if cache_val:
                    setattr(resp.cache_control, attr, cache_val)
            if self.use_etags and not resp.is_streamed:
                # TODO: do streamed responses too?
                resp.add_etag()
                resp.make_conditional(request)
        return resp''', '''        has_cc = hasattr(resp, 'cache_control')
        if not has_cc:
            return resp
        for attr in self.cache_attrs:
            cache_val = getattr(self, attr, None)
            if cache_val:
                setattr(resp.cache_control, attr, cache_val)
        if not self.use_etags or resp.is_streamed:
            return resp
        resp.add_etag()
        resp.make_conditional(request)
        return resp'''))

# ------------------------------------------------------------------------------------------------ C19: StatsMiddleware.request
T('h_stats_named_table', ['C19', 'C15'],
  (STATS, '            self.route_hits[_route][resp_status].add(hit)', '            per_status = self.route_hits[_route]\n            per_status[resp_status].add(hit)'))
T('h_stats_named_reservoir', ['C19'],
  (STATS, '            self.route_hits[_route][resp_status].add(hit)',
          '            all_hits = self.route_hits\n            reservoir = all_hits[_route][resp_status]\n            reservoir.add(hit)'))
T('h_stats_hit_keywords', ['C19', 'C15'],
  (STATS, _ST_FINALLY, '''        finally:
            duration = time.time() - start_time
            url, pattern = request.path, _route.pattern
            hit = Hit(start_time=start_time, url=url, pattern=pattern, status_code=resp_status,
                      duration=duration, content_type=resp_mime_type)
            self.route_hits[_route][resp_status].add(hit)
        return resp
'''))
T('h_stats_hit_inline', ['C19'],
  (STATS, _ST_FINALLY, '''        finally:
            duration = time.time() - start_time
            self.route_hits[_route][resp_status].add(Hit(start_time, request.path, _route.pattern,
                                                         resp_status, duration, resp_mime_type))
        return resp
'''))
T('h_stats_record_helper', ['C19', 'C15'],
  (STATS, _ST_FINALLY, '''        finally:
            self._record(_route, request.path, resp_status, resp_mime_type, start_time)
        return resp

    def _record(self, route, url, status_key, mime_type, start_time):
        duration = time.time() - start_time
        hit = Hit(start_time, url, route.pattern, status_key, duration, mime_type)
        self.route_hits[route][status_key].add(hit)
'''))
T('h_stats_status_helper', ['C19', 'C15'],
  (STATS, "            resp_status = repr(getattr(resp, 'status_code', resp.__class__.__name__))", "            resp_status = _label(resp, 'status_code')"),
  (STATS, "            resp_status = repr(getattr(e, 'code', e.__class__.__name__))", "            resp_status = _label(e, 'code')"),
  (STATS, 'def _get_route_stats(rt_hits):', "def _label(obj, attr):\n    fallback = obj.__class__.__name__\n    return repr(getattr(obj, attr, fallback))\n\n\ndef _get_route_stats(rt_hits):"))
T('h_stats_status_in_else', ['C19', 'C15'],
  (STATS, "            resp = next()\n            resp_status = repr(getattr(resp, 'status_code', resp.__class__.__name__))\n            resp_mime_type = (getattr(resp, 'content_type', None) or '').partition(';')[0]\n        except Exception as e:",
          "            resp = next()\n        except Exception as e:"),
  (STATS, "            raise\n        finally:\n            end_time = time.time()",
          "            raise\n        else:\n            resp_status = repr(getattr(resp, 'status_code', resp.__class__.__name__))\n            resp_mime_type = (getattr(resp, 'content_type', None) or '').partition(';')[0]\n        finally:\n            end_time = time.time()"))
T('h_stats_logging', ['C19', 'C15'],
  (STATS, '            self.route_hits[_route][resp_status].add(hit)', "            self.route_hits[_route][resp_status].add(hit)\n            _log.debug('hit %r', hit)"),
  (STATS, 'def fast_randint(start, stop):', "import logging\n_log = logging.getLogger(__name__)\n\n\ndef fast_randint(start, stop):"))
# the per-route table fetched before next() ran (any local name): a reset() during the request orphans it
B('h_stats_table_captured_early', ['C19'], 'R19.a',
  (STATS, '        start_time = time.time()\n        try:\n            resp = next()', '        start_time = time.time()\n        table = self.route_hits[_route]\n        try:\n            resp = next()'),
  (STATS, '            self.route_hits[_route][resp_status].add(hit)', '            table[resp_status].add(hit)'))
B('h_stats_mapping_captured_early', ['C19'], 'R19.a',
  (STATS, '        start_time = time.time()\n        try:\n            resp = next()', '        start_time = time.time()\n        every = self.route_hits\n        try:\n            resp = next()'),
  (STATS, '            self.route_hits[_route][resp_status].add(hit)', '            every[_route][resp_status].add(hit)'))
B('h_stats_status_fallback_lost', ['C19'], 'R19.a',
  (STATS, "            resp_status = repr(getattr(e, 'code', e.__class__.__name__))", "            resp_status = repr(getattr(e, 'code', None))"))
B('h_stats_hit_fields_swapped', ['C19'], 'R19.a',
  (STATS, '            hit = Hit(start_time,\n                      request.path,\n                      _route.pattern,', '            hit = Hit(start_time,\n                      _route.pattern,\n                      request.path,'))

# ------------------------------------------------------------------------------------------------ C19: Reservoir
T('h_res_add_alias_if_else', ['C19'],
  (STATS, _ST_ADD, '''    def add(self, val):
        self._total_count += 1
        store = self._data
        if len(store) < self._cap:
            store.append(val)
        else:
            slot = fast_randint(0, self._total_count)
            if slot < self._cap:
                store[slot] = val
'''))
T('h_res_add_named_tests', ['C19'],
  (STATS, _ST_ADD, '''    def add(self, val):
        self._total_count += 1
        has_room = len(self._data) < self._cap
        if has_room:
            self._data.append(val)
            return
        idx = fast_randint(0, self._total_count)
        keep = idx < self._cap
        if keep:
            self._data[idx] = val
'''))
T('h_res_add_cap_alias', ['C19'],
  (STATS, _ST_ADD, '''    def add(self, val):
        self._total_count += 1
        cap = self._cap
        size = len(self._data)
        if size < cap:
            self._data.append(val)
            return
        idx = fast_randint(0, self._total_count)
        if idx < cap:
            self._data[idx] = val
'''))
B('h_res_add_alias_le_cap', ['C19'], 'R19.c',
  (STATS, _ST_ADD, '''    def add(self, val):
        self._total_count += 1
        store = self._data
        if len(store) <= self._cap:
            store.append(val)
        else:
            slot = fast_randint(0, self._total_count)
            if slot < self._cap:
                store[slot] = val
'''))
B('h_res_add_stale_size', ['C19'], 'R19.c',
  (STATS, _ST_ADD, '''    def add(self, val):
        self._total_count += 1
        size = len(self._data)
        if size < self._cap:
            self._data.append(val)
            self._data.append(val)
            return
        idx = fast_randint(0, self._total_count)
        if idx < self._cap:
            self._data[idx] = val
'''))
T('h_res_resize_flag', ['C19'],
  (STATS, _ST_RESIZE, '''    def resize(self, new_size):
        self._cap = new_size
        kept = self._data
        too_many = not (new_size >= len(kept))
        if too_many:
            self._data = kept[:new_size]
'''))
T('h_res_resize_positive', ['C19'],
  (STATS, _ST_RESIZE, '''    def resize(self, new_size):
        self._cap = new_size
        if len(self._data) > new_size:
            self._data = self._data[:new_size]
'''))
T('h_res_resize_always_slice', ['C19'],
  (STATS, _ST_RESIZE, '''    def resize(self, new_size):
        self._cap = limit = new_size
        self._data = self._data[:limit]
'''))
B('h_res_resize_flag_wrong_way', ['C19'], 'R19.c',
  (STATS, _ST_RESIZE, '''    def resize(self, new_size):
        self._cap = new_size
        kept = self._data
        too_many = new_size >= len(kept)
        if too_many:
            self._data = kept[:new_size]
'''))
T('h_res_init_cap_helper', ['C19'],
  (STATS, '''        if cap is True:
            self._cap = 2 ** 14  # 16k
        elif cap is False:
            self._cap = float('inf')
        else:
            self._cap = int(cap)
''', '        self._cap = _capacity_of(cap)\n'),
  (STATS, 'class Reservoir(object):', '''_DEFAULT = 2 ** 14


def _capacity_of(cap):
    if cap is True:
        return _DEFAULT
    if cap is False:
        return float('inf')
    return int(cap)


class Reservoir(object):'''))
T('h_res_iter_generator', ['C19'], (STATS, '        return iter(self._data)', '        for val in self._data:\n            yield val'))
T('h_res_explicit_base_call', ['C19'], (STATS, '        super(RouteStatReservoir, self).add(hit)', '        Reservoir.add(self, hit)'))
T('h_res_py3_super', ['C19'], (STATS, '        super(RouteStatReservoir, self).add(hit)', '        super().add(hit)'))

# ------------------------------------------------------------------------------------------------ C19: report / reset
T('h_report_helper_comprehension', ['C19'],
  (STATS, _ST_ROUTE_STATS, '''_QUANTILES = (0.25, 0.5, 0.75, 0.95, 0.99)


def _summary(hits):
    durs = [round(h.duration * 1000, 2) for h in hits]
    desc_dict = Stats(durs, use_copy=False).describe(quantiles=_QUANTILES, format="dict")
    desc_dict['count'] = hits.total_count
    desc_dict['last_hit'] = datetime.datetime.fromtimestamp(hits.last_hit).isoformat()
    desc_dict['total_duration'] = round(hits.total_duration * 1000, 2)
    return dict(desc_dict)


def _get_route_stats(rt_hits):
    return {status: _summary(hits) for status, hits in rt_hits.items()}
'''))
T('h_report_direct_entry', ['C19'],
  (STATS, "        ret[status] = cur = {}\n", ''),
  (STATS, '        cur.update(desc_dict)\n', '        ret[status] = desc_dict\n'))
T('h_report_merge_expression', ['C19'],
  (STATS, "        ret[status] = cur = {}\n", ''),
  (STATS, "        desc_dict['count'] = hits.total_count  # need to account for reservoir count\n", ''),
  (STATS, '        cur.update(desc_dict)\n', '        ret[status] = dict(desc_dict, count=hits.total_count)\n'))
B('h_report_helper_describe_last', ['C19'], 'R19.b',
  (STATS, _ST_ROUTE_STATS, '''def _summary(hits):
    durs = [round(h.duration * 1000, 2) for h in hits]
    summary = {'count': hits.total_count,
               'last_hit': datetime.datetime.fromtimestamp(hits.last_hit).isoformat(),
               'total_duration': round(hits.total_duration * 1000, 2)}
    summary.update(Stats(durs, use_copy=False).describe(quantiles=[0.25, 0.5, 0.75, 0.95, 0.99], format="dict"))
    return summary


def _get_route_stats(rt_hits):
    return {status: _summary(hits) for status, hits in rt_hits.items()}
'''))
B('h_report_merge_expression_wrong_order', ['C19'], 'R19.b',
  (STATS, "        ret[status] = cur = {}\n", ''),
  (STATS, "        desc_dict['count'] = hits.total_count  # need to account for reservoir count\n", ''),
  (STATS, '        cur.update(desc_dict)\n', "        ret[status] = dict({'count': hits.total_count}, **desc_dict)\n"))
T('h_reset_ep_new_dict', ['C19'],
  (STATS, _ST_RESET_EP, '''    stats_mw = _get_stats_mw(_application)
    report = get_stats_dict(_application)
    stats_mw.reset()
    return dict(report, reset=True)
'''))
T('h_reset_ep_inline_lookup', ['C19'],
  (STATS, _ST_RESET_EP, '''    ret = get_stats_dict(_application)
    _get_stats_mw(_application).reset()
    ret['reset'] = True
    return ret
'''))
B('h_reset_ep_report_recomputed', ['C19'], 'R19.b',
  (STATS, _ST_RESET_EP, '''    ret = get_stats_dict(_application)
    stats_mw = _get_stats_mw(_application)
    stats_mw.reset()
    ret = get_stats_dict(_application)
    ret['reset'] = True
    return ret
'''))
T('h_reset_tuple_assign', ['C19'],
  (STATS, '        self.route_hits = defaultdict(lambda: defaultdict(RouteStatReservoir))\n        self.last_reset = datetime.datetime.utcnow()',
          '        self.route_hits, self.last_reset = defaultdict(lambda: defaultdict(RouteStatReservoir)), datetime.datetime.utcnow()'))
T('h_reset_named_factory', ['C19'],
  (STATS, '        self.route_hits = defaultdict(lambda: defaultdict(RouteStatReservoir))',
          '        fresh = defaultdict(lambda: defaultdict(RouteStatReservoir))\n        self.route_hits = fresh'))
T('h_stats_init_inlined_reset', ['C19'],
  (STATS, '    def __init__(self):\n        self.reset()\n\n    def reset(self):',
          '    def __init__(self):\n        self.route_hits = defaultdict(lambda: defaultdict(RouteStatReservoir))\n        self.last_reset = datetime.datetime.utcnow()\n\n    def reset(self):'))
B('h_stats_init_without_counters', ['C19'], 'R19.b',
  (STATS, '    def __init__(self):\n        self.reset()\n\n    def reset(self):', '    def __init__(self):\n        self.last_reset = None\n\n    def reset(self):'))
# the body swapped in through the public API: BaseResponse.set_data stores [value] and its Content-Length
T('h_gz_set_data', ['C15'],
  (GZ, "        resp.response = [comp_content]\n        resp.content_length = len(comp_content)\n", "        resp.set_data(comp_content)\n"))
T('h_gz_data_property', ['C15'],
  (GZ, "        resp.response = [comp_content]\n", "        resp.data = comp_content\n"))
B('h_gz_set_data_of_original', ['C15'], 'R15.d',
  (GZ, "        resp.response = [comp_content]\n        resp.content_length = len(comp_content)\n", "        resp.set_data(resp.data)\n"))
T('h_report_count_temp', ['C19'],
  (STATS, "        desc_dict['count'] = hits.total_count  # need to account for reservoir count\n",
          "        seen = hits.total_count\n        desc_dict['count'] = seen\n"))
T('h_report_update_literal', ['C19'],
  (STATS, "        desc_dict['count'] = hits.total_count  # need to account for reservoir count\n        desc_dict['last_hit'] = datetime.datetime.fromtimestamp(hits.last_hit).isoformat()\n        desc_dict['total_duration'] = round(hits.total_duration * 1000, 2)\n",
          "        desc_dict.update({'count': hits.total_count,\n                          'last_hit': datetime.datetime.fromtimestamp(hits.last_hit).isoformat(),\n                          'total_duration': round(hits.total_duration * 1000, 2)})\n"))
T('h_report_star_merge', ['C19'],
  (STATS, "        ret[status] = cur = {}\n", ''),
  (STATS, "        desc_dict['count'] = hits.total_count  # need to account for reservoir count\n", ''),
  (STATS, '        cur.update(desc_dict)\n', "        ret[status] = {**desc_dict, 'count': hits.total_count}\n"))
T('h_report_loop_helper', ['C19'],
  (STATS, _ST_ROUTE_STATS, '''def _one_status(hits):
    durs = [round(h.duration * 1000, 2) for h in hits]
    out = Stats(durs, use_copy=False).describe(quantiles=[0.25, 0.5, 0.75, 0.95, 0.99], format="dict")
    out['count'] = hits.total_count
    out['last_hit'] = datetime.datetime.fromtimestamp(hits.last_hit).isoformat()
    out['total_duration'] = round(hits.total_duration * 1000, 2)
    return out


def _get_route_stats(rt_hits):
    ret = {}
    for status, hits in rt_hits.items():
        ret[status] = _one_status(hits)
    return ret
'''))
B('h_report_count_temp_sample_size', ['C19'], 'R19.b',
  (STATS, "        desc_dict['count'] = hits.total_count  # need to account for reservoir count\n",
          "        seen = len(durs)\n        desc_dict['count'] = seen\n"))
_ST_REQUEST = '''        start_time = time.time()
        try:
            resp = next()
            resp_status = repr(getattr(resp, 'status_code', resp.__class__.__name__))
            resp_mime_type = (getattr(resp, 'content_type', None) or '').partition(';')[0]
        except Exception as e:
            # see Werkzeug #388
            resp_status = repr(getattr(e, 'code', e.__class__.__name__))
            resp_mime_type = getattr(e, 'content_type', '').partition(';')[0]
            raise
''' + _ST_FINALLY
B('h_stats_record_only_on_error_path', ['C19'], 'R19.a',
  (STATS, _ST_REQUEST, '''        start_time = time.time()
        try:
            resp = next()
        except Exception as e:
            resp_status = repr(getattr(e, 'code', e.__class__.__name__))
            resp_mime_type = getattr(e, 'content_type', '').partition(';')[0]
            self._record(_route, request, start_time, resp_status, resp_mime_type)
            raise
        resp_status = repr(getattr(resp, 'status_code', resp.__class__.__name__))
        resp_mime_type = (getattr(resp, 'content_type', None) or '').partition(';')[0]
        return resp

    def _record(self, route, request, start_time, status, mime_type):
        duration = time.time() - start_time
        self.route_hits[route][status].add(Hit(start_time, request.path, route.pattern, status, duration, mime_type))
'''))
B('h_stats_record_twice_on_error_path', ['C19'], 'R19.a',
  (STATS, "            resp_mime_type = getattr(e, 'content_type', '').partition(';')[0]\n            raise\n",
          "            resp_mime_type = getattr(e, 'content_type', '').partition(';')[0]\n            self.route_hits[_route][resp_status].add(Hit(start_time, request.path, _route.pattern, resp_status, 0.0, resp_mime_type))\n            raise\n"))

# ------------------------------------------------------------------------------------------------ C15: R15.f body as a sequence only when not streamed
_CC_BODY = '''        if hasattr(resp, 'cache_control'):
            for attr in self.cache_attrs:
                cache_val = getattr(self, attr, None)
                if cache_val:
                    setattr(resp.cache_control, attr, cache_val)
            if self.use_etags and not resp.is_streamed:
                # TODO: do streamed responses too?
                resp.add_etag()
                resp.make_conditional(request)
        return resp'''
_CC_ETAG_IF = "            if self.use_etags and not resp.is_streamed:\n"
_CC_GUARDS = '''        if not hasattr(resp, 'cache_control'):
            return resp
        for attr in self.cache_attrs:
            cache_val = getattr(self, attr, None)
            if cache_val:
                setattr(resp.cache_control, attr, cache_val)
%s
        resp.add_etag()
        resp.make_conditional(request)
        return resp'''
# guard clauses: the negation of ``a and not s`` is ``not a or s`` -- with ``and`` the guard lets streamed responses through to add_etag()
B('h_cache_guard_demorgan_and', ['C15'], 'R15.f', (CC, _CC_BODY, _CC_GUARDS % '        if not self.use_etags and resp.is_streamed:\n            return resp'))
B('h_cache_etag_streamed_test_dropped', ['C15'], 'R15.f', (CC, _CC_ETAG_IF, "            if self.use_etags:\n"))
B('h_cache_etag_streamed_test_inverted', ['C15'], 'R15.f', (CC, _CC_ETAG_IF, "            if self.use_etags and resp.is_streamed:\n"))
B('h_cache_etag_or_instead_of_and', ['C15'], 'R15.f', (CC, _CC_ETAG_IF, "            if self.use_etags or not resp.is_streamed:\n"))
B('h_cache_guard_named_flag_wrong', ['C15'], 'R15.f',
  (CC, _CC_BODY, _CC_GUARDS % '        streamed = resp.is_streamed\n        skip = not (self.use_etags or not streamed)\n        if skip:\n            return resp'))
# gzip: the body is read (buffered) before the streamed test; the replacement itself still sits behind the test (R15.d is satisfied)
B('h_gz_data_read_before_streamed_test', ['C15'], 'R15.f',
  (GZ, "        if resp.is_streamed:\n            return resp  # TODO\n\n        comp_content = gzip_bytes(resp.data, self.compress_level)\n",
       "        comp_content = gzip_bytes(resp.data, self.compress_level)\n        if resp.is_streamed:\n            return resp  # TODO\n"))
B('h_gz_data_read_under_streamed', ['C15'], 'R15.f',
  (GZ, "        if resp.is_streamed:\n            return resp  # TODO\n", "        if resp.is_streamed and len(resp.get_data()) > 1024:\n            return resp  # TODO\n"))
T('h_cache_guard_not_paren', ['C15'], (CC, _CC_BODY, _CC_GUARDS % '        if not (self.use_etags and not resp.is_streamed):\n            return resp'))
T('h_cache_guard_two_steps', ['C15'],
  (CC, _CC_BODY, _CC_GUARDS % '        if not self.use_etags:\n            return resp\n        if resp.is_streamed:\n            return resp'))
T('h_cache_guard_named_flag', ['C15'],
  (CC, _CC_BODY, _CC_GUARDS % '        streamed = resp.is_streamed\n        wants_etag = self.use_etags and not streamed\n        if not wants_etag:\n            return resp'))
T('h_cache_nested_ifs', ['C15'],
  (CC, _CC_ETAG_IF + "                # TODO: do streamed responses too?\n                resp.add_etag()\n                resp.make_conditional(request)\n",
       "            if self.use_etags:\n                if not resp.is_streamed:\n                    resp.add_etag()\n                    resp.make_conditional(request)\n"))
T('h_cache_streamed_first', ['C15'], (CC, _CC_ETAG_IF, "            if not resp.is_streamed and self.use_etags:\n"))
T('h_gz_streamed_or_empty', ['C15'],
  (GZ, "        if resp.is_streamed:\n            return resp  # TODO\n", "        if resp.is_streamed or not resp.get_data():\n            return resp  # TODO\n"))

# ------------------------------------------------------------------------------------------------ C15: R15.g own exceptions only under the trigger
_PF_HEAD = '''        if not request.args.get(self.get_param_name):
            return next()
        sort_param = request.args.get(self.sort_param_name, 'time')
        if sort_param not in _sort_keys:
            raise KeyError('%s is not a supported sort_key. choose from: %r'
                           % (sort_param, _sort_keys))
'''
B('h_profile_validates_before_trigger', ['C15'], 'R15.g',
  (PF, _PF_HEAD, '''        args = request.args
        do_profile = args.get(self.get_param_name)
        sort_param = args.get(self.sort_param_name, 'time')
        if sort_param not in _sort_keys:
            raise KeyError('%s is not a supported sort_key. choose from: %r'
                           % (sort_param, _sort_keys))
        if not do_profile:
            return next()
'''))
B('h_profile_validates_inside_passthrough', ['C15'], 'R15.g',
  (PF, _PF_HEAD, '''        sort_param = request.args.get(self.sort_param_name, 'time')
        if not request.args.get(self.get_param_name):
            if sort_param not in _sort_keys:
                raise KeyError('%s is not a supported sort_key' % sort_param)
            return next()
        if sort_param not in _sort_keys:
            raise KeyError('%s is not a supported sort_key. choose from: %r'
                           % (sort_param, _sort_keys))
'''))
B('h_profile_sort_lookup_before_trigger', ['C15'], 'R15.g',
  (PF, _PF_HEAD, '''        sort_param = request.args[self.sort_param_name]
        if not request.args.get(self.get_param_name):
            return next()
        if sort_param not in _sort_keys:
            raise KeyError('%s is not a supported sort_key. choose from: %r'
                           % (sort_param, _sort_keys))
'''))
B('h_gz_rejects_request', ['C15'], 'R15.g',
  (GZ, "        resp = next()\n        if not hasattr(resp, 'content_encoding'):",
       "        if request.headers.get('Accept-Encoding', '').count(',') > 16:\n            raise ValueError('too many codings')\n        resp = next()\n        if not hasattr(resp, 'content_encoding'):"))
B('h_cache_refuses_streams', ['C15'], 'R15.g',
  (CC, _CC_ETAG_IF, "            if self.use_etags and resp.is_streamed:\n                raise RuntimeError('cannot compute an ETag for a streamed response')\n" + _CC_ETAG_IF))
T('h_profile_reads_first_validates_after', ['C15'],
  (PF, _PF_HEAD, '''        args = request.args
        do_profile = args.get(self.get_param_name)
        sort_param = args.get(self.sort_param_name, 'time')
        if not do_profile:
            return next()
        if sort_param not in _sort_keys:
            raise KeyError('%s is not a supported sort_key. choose from: %r'
                           % (sort_param, _sort_keys))
'''))
T('h_profile_named_validity_else_raise', ['C15'],
  (PF, _PF_HEAD, '''        if not request.args.get(self.get_param_name):
            return next()
        sort_param = request.args.get(self.sort_param_name, 'time')
        sort_ok = sort_param in _sort_keys
        if sort_ok:
            pass
        else:
            raise KeyError('%s is not a supported sort_key. choose from: %r'
                           % (sort_param, _sort_keys))
'''))
T('h_profile_trigger_if_else', ['C15'],
  (PF, '        if not request.args.get(self.get_param_name):\n            return next()\n',
       '        triggered = bool(request.args.get(self.get_param_name))\n        if triggered:\n            pass\n        else:\n            return next()\n'))
T('h_profile_sort_lookup_after_test', ['C15'],
  (PF, "        sort_param = request.args.get(self.sort_param_name, 'time')\n",
       "        if self.sort_param_name in request.args:\n            sort_param = request.args[self.sort_param_name]\n        else:\n            sort_param = 'time'\n"))
T('h_profile_positive_nesting', ['C15'],
  (PF, _PF_HEAD, '''        if request.args.get(self.get_param_name):
            sort_param = request.args.get(self.sort_param_name, 'time')
            if sort_param not in _sort_keys:
                raise KeyError('%s is not a supported sort_key. choose from: %r'
                               % (sort_param, _sort_keys))
        else:
            return next()
'''))

# ------------------------------------------------------------------------------------------------ C19: R19.d the instance the report reads is the instance the routes run
_MERGE_LOOP = '''    for mw in old:
        if mw.unique and mw in merged:
            if mw.reorderable:
                continue
            else:
                raise ValueError('multiple inclusion of unique '
                                 'middleware %r' % mw.name)
        merged.append(mw)
    return merged
'''
_ST_LOOKUP = '''    try:
        stats_mw = [mw for mw in _application.middlewares
                    if isinstance(mw, StatsMiddleware)][0]
    except IndexError:
        raise NotImplemented("StatsMiddleware not installed on app %r" % _application)
    return stats_mw
'''
_RT_MERGE = "        self.middlewares = tuple(merge_middlewares(getattr(route, 'middlewares', []), app_mws))\n"
B('h_merge_route_instance_takes_slot', ['C19'], 'R19.d',
  (C, "            if mw.reorderable:\n                continue\n", "            if mw.reorderable:\n                merged[merged.index(mw)] = mw\n                continue\n"))
B('h_merge_route_instance_moved_last', ['C19'], 'R19.d',
  (C, "            if mw.reorderable:\n                continue\n", "            if mw.reorderable:\n                merged.remove(mw)\n                merged.append(mw)\n                continue\n"))
B('h_merge_filters_app_level', ['C19'], 'R19.d',
  (C, "    merged = list(new)\n" + _MERGE_LOOP, '''    merged = [mw for mw in new if not (mw.unique and mw.reorderable and mw in old)]
    for mw in old:
        if mw.unique and mw in merged:
            raise ValueError('multiple inclusion of unique '
                             'middleware %r' % mw.name)
        merged.append(mw)
    return merged
'''))
B('h_route_merge_levels_swapped', ['C19'], 'R19.d',
  (R, _RT_MERGE, "        self.middlewares = tuple(merge_middlewares(app_mws, getattr(route, 'middlewares', [])))\n"))
B('h_stats_lookup_falls_back_to_fresh', ['C19'], 'R19.d',
  (STATS, _ST_LOOKUP, '''    try:
        stats_mw = [mw for mw in _application.middlewares
                    if isinstance(mw, StatsMiddleware)][0]
    except IndexError:
        stats_mw = StatsMiddleware()
    return stats_mw
'''))
B('h_stats_lookup_snapshot_copy', ['C19'], 'R19.d',
  (STATS, _ST_LOOKUP, '''    try:
        stats_mw = [copy.copy(mw) for mw in _application.middlewares
                    if isinstance(mw, StatsMiddleware)][0]
    except IndexError:
        raise NotImplemented("StatsMiddleware not installed on app %r" % _application)
    return stats_mw
'''), (STATS, 'import datetime\n', 'import datetime\nimport copy\n'))
T('h_merge_named_duplicate_test', ['C19'],
  (C, _MERGE_LOOP, '''    for mw in old:
        already_merged = mw.unique and mw in merged
        if not already_merged:
            merged.append(mw)
            continue
        if not mw.reorderable:
            raise ValueError('multiple inclusion of unique '
                             'middleware %r' % mw.name)
    return merged
'''))
T('h_merge_augmented_add', ['C19'], (C, "        merged.append(mw)\n    return merged\n", "        merged += [mw]\n    return merged\n"))
T('h_merge_slice_copy', ['C19'], (C, "    merged = list(new)\n", "    outer = list(new)\n    merged = outer[:]\n"))
T('h_route_merge_named_result', ['C19'],
  (R, _RT_MERGE, "        route_mws = getattr(route, 'middlewares', [])\n        merged_mws = merge_middlewares(old=route_mws, new=app_mws)\n        self.middlewares = tuple(merged_mws)\n"))
T('h_stats_lookup_named_list', ['C19'],
  (STATS, _ST_LOOKUP, '''    try:
        installed = [mw for mw in _application.middlewares
                     if isinstance(mw, StatsMiddleware)]
        return installed[0]
    except IndexError:
        raise NotImplemented("StatsMiddleware not installed on app %r" % _application)
'''))
T('h_stats_lookup_next', ['C19'],
  (STATS, _ST_LOOKUP, '''    try:
        stats_mw = next(mw for mw in _application.middlewares if isinstance(mw, StatsMiddleware))
    except StopIteration:
        raise NotImplemented("StatsMiddleware not installed on app %r" % _application)
    return stats_mw
'''))
T('h_stats_lookup_loop', ['C19'],
  (STATS, _ST_LOOKUP, '''    for mw in _application.middlewares:
        if isinstance(mw, StatsMiddleware):
            return mw
    raise NotImplemented("StatsMiddleware not installed on app %r" % _application)
'''))

# ------------------------------------------------------------------------------------------------ C19: report / reset as methods
# the per-status summary as a method of the reservoir, the report / report-and-reset as methods of the middleware, the endpoints
# only look the middleware up and hand over: followed through method calls on objects whose class is known (the factory of the
# table reset() builds; the isinstance test that picked the middleware; ``self``)
_ST_RES_ADD_TAIL = "        self.last_hit = hit.start_time\n        self.total_duration += hit.duration\n"
_ST_DESCRIBE_HEAD = '''
    def describe(self):
        durs = [round(h.duration * 1000, 2) for h in self]
        stats = Stats(durs, use_copy=False)
'''
_ST_DESCRIBE_OK = _ST_DESCRIBE_HEAD + '''        desc_dict = stats.describe(quantiles=[0.25, 0.5, 0.75, 0.95, 0.99], format="dict")
        desc_dict['count'] = self.total_count
        desc_dict['last_hit'] = datetime.datetime.fromtimestamp(self.last_hit).isoformat()
        desc_dict['total_duration'] = round(self.total_duration * 1000, 2)
        return desc_dict
'''
_ST_ROUTE_STATS_VIA_METHOD = '''def _get_route_stats(rt_hits):
    return {status: hits.describe() for status, hits in rt_hits.items()}
'''
_ST_GET_EP = '''    stats_mw = _get_stats_mw(_application)
    rt_hits = stats_mw.route_hits
    utcnow = datetime.datetime.utcnow().isoformat()
    return {'route_stats': dict([(rt.pattern, _get_route_stats(rh)) for rt, rh
                                 in rt_hits.items() if rh]),
            'start_time_utc': stats_mw.last_reset.isoformat(),
            'cur_time_utc': utcnow}
'''
_ST_REQUEST_TAIL = "            self.route_hits[_route][resp_status].add(hit)\n        return resp\n"
_ST_MW_REPORT = '''
    def get_route_stats(self):
        ret = {}
        for rt, rt_hits in self.route_hits.items():
            if not rt_hits:
                continue
            ret[rt.pattern] = _get_route_stats(rt_hits)
        return ret

    def get_stats_dict(self):
        utcnow = datetime.datetime.utcnow().isoformat()
        return {'route_stats': self.get_route_stats(),
                'start_time_utc': self.last_reset.isoformat(),
                'cur_time_utc': utcnow}
'''
_ST_MW_RESET_OK = '''
    def get_and_reset_stats_dict(self):
        ret = self.get_stats_dict()
        self.reset()
        ret['reset'] = True
        return ret
'''


def _mw_methods(reset_method=_ST_MW_RESET_OK, get_ep='    return _get_stats_mw(_application).get_stats_dict()\n',
                reset_ep='    return _get_stats_mw(_application).get_and_reset_stats_dict()\n'):
    return [(STATS, _ST_REQUEST_TAIL, _ST_REQUEST_TAIL + _ST_MW_REPORT + reset_method),
            (STATS, _ST_GET_EP, get_ep), (STATS, _ST_RESET_EP, reset_ep)]


T('h_report_describe_method', ['C19'],
  (STATS, _ST_RES_ADD_TAIL, _ST_RES_ADD_TAIL + _ST_DESCRIBE_OK), (STATS, _ST_ROUTE_STATS, _ST_ROUTE_STATS_VIA_METHOD))
T('h_report_describe_method_loop', ['C19'],
  (STATS, _ST_RES_ADD_TAIL, _ST_RES_ADD_TAIL + _ST_DESCRIBE_OK),
  (STATS, _ST_ROUTE_STATS, '''def _get_route_stats(rt_hits):
    ret = {}
    for hits in rt_hits.values():
        pass
    for status in rt_hits:
        reservoir = rt_hits[status]
        ret[status] = reservoir.describe()
    return ret
'''))
B('h_report_describe_method_sample_size', ['C19'], 'R19.b',
  (STATS, _ST_RES_ADD_TAIL, _ST_RES_ADD_TAIL + _ST_DESCRIBE_OK.replace("desc_dict['count'] = self.total_count", "desc_dict['count'] = len(durs)")),
  (STATS, _ST_ROUTE_STATS, _ST_ROUTE_STATS_VIA_METHOD))
B('h_report_describe_method_count_left_to_boltons', ['C19'], 'R19.b',
  (STATS, _ST_RES_ADD_TAIL, _ST_RES_ADD_TAIL + _ST_DESCRIBE_OK.replace("        desc_dict['count'] = self.total_count\n", '')),
  (STATS, _ST_ROUTE_STATS, _ST_ROUTE_STATS_VIA_METHOD))
B('h_report_describe_method_describe_last', ['C19'], 'R19.b',
  (STATS, _ST_RES_ADD_TAIL, _ST_RES_ADD_TAIL + _ST_DESCRIBE_HEAD + '''        summary = {'count': self.total_count,
                   'last_hit': datetime.datetime.fromtimestamp(self.last_hit).isoformat(),
                   'total_duration': round(self.total_duration * 1000, 2)}
        summary.update(stats.describe(quantiles=[0.25, 0.5, 0.75, 0.95, 0.99], format="dict"))
        return summary
'''),
  (STATS, _ST_ROUTE_STATS, _ST_ROUTE_STATS_VIA_METHOD))
T('h_report_mw_methods', ['C19', 'C15'], *_mw_methods())
T('h_report_mw_methods_named_mw', ['C19'],
  *_mw_methods(reset_ep='    stats_mw = _get_stats_mw(_application)\n    report = stats_mw.get_and_reset_stats_dict()\n    return report\n'))
T('h_report_all_methods', ['C19'],
  (STATS, _ST_RES_ADD_TAIL, _ST_RES_ADD_TAIL + _ST_DESCRIBE_OK), (STATS, _ST_ROUTE_STATS, _ST_ROUTE_STATS_VIA_METHOD), *_mw_methods())
B('h_report_mw_method_resets_first', ['C19'], 'R19.b',
  *_mw_methods(reset_method='''
    def get_and_reset_stats_dict(self):
        self.reset()
        ret = self.get_stats_dict()
        ret['reset'] = True
        return ret
'''))
B('h_report_mw_method_report_recomputed', ['C19'], 'R19.b',
  *_mw_methods(reset_method='''
    def get_and_reset_stats_dict(self):
        self.get_stats_dict()
        self.reset()
        return dict(self.get_stats_dict(), reset=True)
'''))
B('h_report_mw_method_reset_in_endpoint_first', ['C19'], 'R19.b',
  *_mw_methods(reset_ep='    stats_mw = _get_stats_mw(_application)\n    stats_mw.reset()\n    return stats_mw.get_and_reset_stats_dict()\n'))
B('h_report_mw_methods_on_snapshot', ['C19'], 'R19.d',
  (STATS, 'import datetime\n', 'import datetime\nimport copy\n'),
  *_mw_methods(reset_ep='    return copy.copy(_get_stats_mw(_application)).get_and_reset_stats_dict()\n'))
B('h_report_mw_methods_on_fresh_instance', ['C19'], 'R19.d',
  *_mw_methods(get_ep='    return StatsMiddleware().get_stats_dict()\n'))
B('h_report_mw_methods_fallback_instance', ['C19'], 'R19.d',
  (STATS, _ST_LOOKUP, '''    try:
        stats_mw = [mw for mw in _application.middlewares
                    if isinstance(mw, StatsMiddleware)][0]
    except IndexError:
        stats_mw = StatsMiddleware()
    return stats_mw
'''), *_mw_methods())
B('h_report_mw_method_resets_other_instance', ['C19'], 'R19.d',
  *_mw_methods(reset_method='''
    def get_and_reset_stats_dict(self):
        ret = self.get_stats_dict()
        StatsMiddleware().reset()
        ret['reset'] = True
        return ret
'''))

# ------------------------------------------------------------------------------------------------ round 4 (v-refactorings)
# (1) the try/except/finally of StatsMiddleware.request as a one-yield context manager that hands a collector (the append of a
#     local one-element list) to the block and reads the response back from the list behind the yield
_ST_IMPORT = 'import datetime\n'
_ST_CM_IMPORT = 'import datetime\nfrom contextlib import contextmanager\n'


def _cm_request(pre='', read="            resp = responses[0]\n", handler_tail='            raise\n', table='self.route_hits', give='responses.append',
                block='            resp = next()\n            got_response(resp)\n'):
    return [(STATS, _ST_IMPORT, _ST_CM_IMPORT),
            (STATS, _ST_REQUEST, '''        with self._hit_recorded(request, _route) as got_response:
''' + block + '''        return resp

    @contextmanager
    def _hit_recorded(self, request, _route):
        start_time = time.time()
        responses = []
''' + pre + '''        try:
            yield ''' + give + '''
''' + read + '''            resp_status = repr(getattr(resp, 'status_code', resp.__class__.__name__))
            resp_mime_type = (getattr(resp, 'content_type', None) or '').partition(';')[0]
        except Exception as e:
            resp_status = repr(getattr(e, 'code', e.__class__.__name__))
            resp_mime_type = getattr(e, 'content_type', '').partition(';')[0]
''' + handler_tail + '''        finally:
            end_time = time.time()
            duration = end_time - start_time
            hit = Hit(start_time,
                      request.path,
                      _route.pattern,
                      resp_status,
                      duration,
                      resp_mime_type)
            ''' + table + '''[_route][resp_status].add(hit)
        return
''')]


T('h4_request_as_context_manager', ['C19', 'C15'], *_cm_request())
T('h4_request_as_context_manager_last_index', ['C19', 'C15'], *_cm_request(read="            resp = responses[-1]\n"))
B('h4_cm_table_fetched_before_the_block', ['C19'], 'R19.a',
  *_cm_request(pre='        table = self.route_hits\n', table='table'))
B('h4_cm_swallows_the_exception', ['C19'], 'R19.a', *_cm_request(handler_tail=''))
B('h4_cm_status_of_something_else', ['C19'], 'R19.a',
  *_cm_request(read="            resp = responses\n"))
B('h4_cm_records_in_the_block_too', ['C19'], 'R19.a',
  *_cm_request(block='            resp = next()\n            got_response(resp)\n'
                     '            self.route_hits[_route][repr(resp.status_code)].add(Hit(0.0, request.path, _route.pattern, repr(resp.status_code), 0.0, \'\'))\n'))
# the collector is called twice: the list is no longer known to hold the response first (not followed: no verdict may be 'fine')
B('h4_cm_collector_fed_twice', ['C19'], 'R19.a',
  *_cm_request(block='            got_response(request)\n            resp = next()\n            got_response(resp)\n'))

# (2) Reservoir.add as a template method: count, sample, then a do-nothing hook the subclass overrides (no add() of its own)
_ST_SUB_ADD = '''    def add(self, hit):
        super(RouteStatReservoir, self).add(hit)
        self.last_hit = hit.start_time
        self.total_duration += hit.duration
'''
_ST_TEMPLATE_ADD = '''    def add(self, val):
        self._total_count += 1
        self._sample(val)
        self._note_added(val)
        return

    def _sample(self, val):
        if len(self._data) < self._cap:
            self._data.append(val)
            return

        idx = fast_randint(0, self._total_count)
        if idx < self._cap:
            self._data[idx] = val
        return

    def _note_added(self, val):
        return
'''


def _template(hook_body='', add=_ST_TEMPLATE_ADD):
    return [(STATS, _ST_ADD, add),
            (STATS, _ST_SUB_ADD, '''    def _note_added(self, hit):
''' + hook_body + '''        self.last_hit = hit.start_time
        self.total_duration += hit.duration
''')]


T('h4_add_template_method', ['C19', 'C15'], *_template())
T('h4_add_template_method_hook_first', ['C19'],
  *_template(add=_ST_TEMPLATE_ADD.replace('        self._sample(val)\n        self._note_added(val)\n', '        self._note_added(val)\n        self._sample(val)\n')))
B('h4_template_hook_delegates_again', ['C19'], 'R19.c', *_template(hook_body='        super(RouteStatReservoir, self).add(hit)\n'))
B('h4_template_hook_calls_base_add', ['C19'], 'R19.c', *_template(hook_body='        Reservoir.add(self, hit)\n'))
B('h4_template_hook_re_adds_on_self', ['C19'], 'R19.c',
  *_template(hook_body='        if self.last_hit is None:\n            self.add(hit)\n'))
B('h4_template_counts_in_hook_too', ['C19'], 'R19.c', *_template(hook_body='        self._total_count += 1\n'))
B('h4_template_sample_skips_count', ['C19'], 'R19.c',
  *_template(add=_ST_TEMPLATE_ADD.replace('        self._total_count += 1\n        self._sample(val)\n',
                                          '        if len(self._data) < self._cap:\n            self._total_count += 1\n        self._sample(val)\n')))
B('h4_override_adds_on_self', ['C19'], 'R19.c',
  (STATS, '        super(RouteStatReservoir, self).add(hit)\n', '        super(RouteStatReservoir, self).add(hit)\n        if hit.duration > 1e9:\n            self.add(hit)\n'))

# (3) the injectables of a bound route assembled in one helper method (store under the key instead of a dict display)
_RT_EXECUTE = '''    def execute(self, request, **kwargs):
        injectables = {'_route': self,
                       'request': request,
                       '_application': self.bound_apps[-1]}
        injectables.update(self.resources)
        injectables.update(kwargs)
        return inject(self._execute, injectables)
'''
_RT_EXECUTE_ERR = '''        injectables = {'_route': self,
                       '_error': _error,
                       'request': request,
                       '_application': self.bound_apps[-1]}
        injectables.update(self.resources)
        injectables.update(kwargs)
'''


def _inj_helper(app="self.bound_apps[-1]"):
    return [(R, _RT_EXECUTE, '''    def _make_inj(self, request, overrides, **extra):
        injectables = {'_route': self}
        injectables.update(extra)
        injectables['request'] = request
        injectables['_application'] = ''' + app + '''
        injectables.update(self.resources)
        injectables.update(overrides)
        return injectables

    def execute(self, request, **kwargs):
        injectables = self._make_inj(request, kwargs)
        return inject(self._execute, injectables)
'''), (R, _RT_EXECUTE_ERR, '        injectables = self._make_inj(request, kwargs, _error=_error)\n')]


T('h4_injectables_in_helper_method', ['C19'], *_inj_helper())
T('h4_injectables_update_keyword', ['C19'],
  (R, _RT_EXECUTE, _RT_EXECUTE.replace("""        injectables = {'_route': self,
                       'request': request,
                       '_application': self.bound_apps[-1]}
""", """        injectables = {'_route': self, 'request': request}
        injectables.update(_application=self.bound_apps[-1])
""")))

# ------------------------------------------------------------------------------------------------ round 4: deepening C15
CTX = 'clastic/middleware/context.py'
URL = 'clastic/middleware/url.py'
_DUMMY_TRY = '''        try:
            ret = next()
        except Exception as e:
            if self.verbose:
                print(name, '- uhoh:', repr(e))
            raise
'''
_DUMMY_TAIL = "        if self.verbose:\n            print(name, '- hooray:', repr(ret))\n        return ret\n"
_CC_HEAD = "        resp = next()\n        if hasattr(resp, 'cache_control'):\n"
_GZ_VARY = "        resp.vary.add('Accept-Encoding')\n"
_GZ_SIZE = "        if len(comp_content) >= len(resp.data):\n            return resp\n"
_GZ_STORES = "        resp.response = [comp_content]\n        resp.content_length = len(comp_content)\n        resp.content_encoding = 'gzip'\n"
_PF_TRIGGER = "        if not request.args.get(self.get_param_name):\n            return next()\n"
_CTX_GUARD = "                if not self.overwrite and arg in context:\n                    continue\n"
_CTX_STORE = "                context[arg] = kwargs.get(arg, self.defaults.get(arg))\n"
_CK_SAVE = "        cookie.save_cookie(response, **save_cookie_kwargs)\n"

# the object returned is the one next() returned
B('h4_result_rebuilt_before_return', ['C15'], 'R15.b', (C, _DUMMY_TAIL, "        ret = BaseResponse(ret.response, ret.status_code)\n        return ret\n"))
B('h4_result_copied_before_return', ['C15'], 'R15.b', (CK, 'import time\n', 'import time\nimport copy\n'),
  (CK, _CK_SAVE + '        return response\n', _CK_SAVE + '        response = copy.copy(response)\n        return response\n'))
B('h4_result_default_reaches_return', ['C15'], 'R15.b',
  (C, _DUMMY_TRY, "        ret = None\n        try:\n            if not self.verbose:\n                ret = next()\n        except Exception as e:\n            raise\n"))
T('h4_result_initialised_before_try', ['C15', 'C19'], (C, _DUMMY_TRY, '        ret = None\n' + _DUMMY_TRY))
T('h4_result_returned_under_alias', ['C15'], (C, _DUMMY_TAIL, "        if self.verbose:\n            print(name, '- hooray:', repr(ret))\n        out = ret\n        return out\n"))
# the rest of the chain runs once
B('h4_next_called_twice', ['C15'], 'R15.b', (C, "        try:\n            ret = next()\n", "        try:\n            next()\n            ret = next()\n"))
B('h4_next_again_for_streamed', ['C15'], 'R15.b', (GZ, "        if resp.is_streamed:\n            return resp  # TODO\n", "        if resp.is_streamed:\n            return next()\n"))
B('h4_next_in_a_retry_loop', ['C15'], 'R15.b',
  (URL, "        return next(**{self.provided_name: request.script_root})\n",
        "        for attempt in (1, 2):\n            resp = next(**{self.provided_name: request.script_root})\n        return resp\n"))
T('h4_next_result_named', ['C15'], (URL, "        return next(**{self.provided_name: request.script_root})\n",
                                    "        resp = next(**{self.provided_name: request.script_root})\n        return resp\n"))
# next() gets no replacement for what the hook received
B('h4_next_given_other_context', ['C15'], 'R15.b',
  (CTX, _CTX_STORE + "            return next()\n", _CTX_STORE + "            return next(context=dict(self.defaults))\n"))
B('h4_next_given_other_request', ['C15'], 'R15.b', (GZ, "        resp = next()\n", "        resp = next(request=request.__class__(dict(request.environ)))\n"))
# the request is handed on as it came
B('h4_request_environ_written', ['C15'], 'R15.b', (GZ, "        resp = next()\n", "        request.environ['PATH_INFO'] = '/'\n        resp = next()\n"))
B('h4_request_attribute_rebound', ['C15'], 'R15.b', (PF, _PF_TRIGGER, "        request.args = request.args.copy()\n" + _PF_TRIGGER))
B('h4_request_environ_popped_through_alias', ['C15'], 'R15.b',
  (GZ, "        resp = next()\n", "        env = request.environ\n        env.pop('HTTP_IF_NONE_MATCH', None)\n        resp = next()\n"))
T('h4_request_environ_read_through_alias', ['C15'], (GZ, "        resp = next()\n", "        env = request.environ\n        env.get('HTTP_IF_NONE_MATCH')\n        resp = next()\n"))
# what describes the body is written only under the trigger
B('h4_charset_set_on_every_response', ['C15'], 'R15.b', (CC, _CC_HEAD, "        resp = next()\n        resp.charset = 'latin-1'\n        if hasattr(resp, 'cache_control'):\n"))
B('h4_content_type_header_popped', ['C15'], 'R15.b', (CC, _CC_HEAD, "        resp = next()\n        resp.headers.pop('Content-Type', None)\n        if hasattr(resp, 'cache_control'):\n"))
B('h4_content_length_header_deleted', ['C15'], 'R15.b', (CC, _CC_HEAD, "        resp = next()\n        del resp.headers['Content-Length']\n        if hasattr(resp, 'cache_control'):\n"))
B('h4_content_type_header_stored_through_alias', ['C15'], 'R15.b',
  (CK, _CK_SAVE, _CK_SAVE + "        hdrs = response.headers\n        hdrs['Content-Type'] = 'text/html'\n"))
B('h4_headers_cleared', ['C15'], 'R15.b', (CC, _CC_HEAD, "        resp = next()\n        resp.headers.clear()\n        if hasattr(resp, 'cache_control'):\n"))
B('h4_response_closed', ['C15'], 'R15.b', (GZ, _GZ_VARY, _GZ_VARY + "        resp.close()\n"))
T('h4_other_header_read_and_set', ['C15'], (CC, _CC_HEAD, "        resp = next()\n        resp.headers.get('Content-Type')\n        if hasattr(resp, 'cache_control'):\n"))
# the trigger lets the request that carries nothing pass
B('h4_trigger_inverted', ['C15'], 'R15.b', (PF, "        if not request.args.get(self.get_param_name):\n", "        if request.args.get(self.get_param_name):\n"))
B('h4_trigger_defaults_to_on', ['C15'], 'R15.b',
  (PF, "        if not request.args.get(self.get_param_name):\n", "        if request.args.get(self.get_param_name, '1') == '0':\n"))
B('h4_trigger_membership_inverted', ['C15'], 'R15.b',
  (PF, "        if not request.args.get(self.get_param_name):\n", "        if self.get_param_name in request.args:\n"))
T('h4_trigger_through_named_flag', ['C15'],
  (PF, _PF_TRIGGER, "        wanted = request.args.get(self.get_param_name)\n        if not wanted:\n            return next()\n"))
T('h4_trigger_with_falsy_default', ['C15'],
  (PF, "        if not request.args.get(self.get_param_name):\n", "        if not request.args.get(self.get_param_name, ''):\n"))
# exceptions of next() leave the middleware
B('h4_finally_returns', ['C15'], 'R15.c', (C, _DUMMY_TRY, "        ret = None\n        try:\n            ret = next()\n        finally:\n            return ret\n"))
B('h4_stats_finally_returns', ['C15'], 'R15.c',
  (STATS, "            self.route_hits[_route][resp_status].add(hit)\n        return resp\n", "            self.route_hits[_route][resp_status].add(hit)\n            return resp\n"))
B('h4_finally_breaks_out', ['C15'], 'R15.c',
  (C, _DUMMY_TRY, "        ret = None\n        for attempt in (1,):\n            try:\n                ret = next()\n            finally:\n                break\n"))
B('h4_next_under_suppress', ['C15'], 'R15.c', (C, 'import itertools\n', 'import itertools\nimport contextlib\n'),
  (C, _DUMMY_TRY, "        ret = None\n        with contextlib.suppress(Exception):\n            ret = next()\n"))
T('h4_finally_with_inner_loop_break', ['C15'],
  (C, _DUMMY_TRY, "        try:\n            ret = next()\n        except Exception as e:\n            if self.verbose:\n                print(name, '- uhoh:', repr(e))\n            raise\n"
                  "        finally:\n            for flag in (self.verbose,):\n                if not flag:\n                    break\n"))
# gzip: encoding / length only together with the body
B('h4_gz_encoding_announced_before_size_test', ['C15'], 'R15.d',
  (GZ, _GZ_SIZE + _GZ_STORES, "        resp.content_encoding = 'gzip'\n" + _GZ_SIZE + "        resp.response = [comp_content]\n        resp.content_length = len(comp_content)\n"))
B('h4_gz_length_set_before_size_test', ['C15'], 'R15.d',
  (GZ, _GZ_SIZE + _GZ_STORES, "        resp.content_length = len(comp_content)\n" + _GZ_SIZE + "        resp.response = [comp_content]\n        resp.content_encoding = 'gzip'\n"))
B('h4_gz_encoding_header_before_size_test', ['C15'], 'R15.d',
  (GZ, _GZ_SIZE + _GZ_STORES, "        resp.headers['Content-Encoding'] = 'gzip'\n" + _GZ_SIZE + "        resp.response = [comp_content]\n        resp.content_length = len(comp_content)\n"))
T('h4_gz_stores_reordered', ['C15'], (GZ, _GZ_STORES, "        resp.content_encoding = 'gzip'\n        resp.content_length = len(comp_content)\n        resp.response = [comp_content]\n"))
T('h4_gz_descriptors_as_headers', ['C15'],
  (GZ, _GZ_STORES, "        resp.response = [comp_content]\n        resp.headers['Content-Length'] = str(len(comp_content))\n        resp.headers['Content-Encoding'] = 'gzip'\n"))
# render hooks fill only unset keys (default configuration)
B('h4_ctx_overwrite_on_by_default', ['C15'], 'R15.h', (CTX, "defaults=None, overwrite=False):", "defaults=None, overwrite=True):"))
B('h4_ctx_presence_test_dropped', ['C15'], 'R15.h', (CTX, _CTX_GUARD, ""))
B('h4_ctx_switch_read_the_wrong_way', ['C15'], 'R15.h', (CTX, "                if not self.overwrite and arg in context:\n", "                if self.overwrite and arg in context:\n"))
B('h4_ctx_key_removed', ['C15'], 'R15.h', (CTX, _CTX_GUARD, "                if not self.overwrite and arg in context:\n                    context.pop(arg)\n"))
T('h4_ctx_guard_positive_form', ['C15'],
  (CTX, _CTX_GUARD + _CTX_STORE, "                if self.overwrite or arg not in context:\n                    context[arg] = kwargs.get(arg, self.defaults.get(arg))\n"))
T('h4_ctx_guard_nested', ['C15'],
  (CTX, _CTX_GUARD + _CTX_STORE, "                if arg in context:\n                    if not self.overwrite:\n                        continue\n" + _CTX_STORE))

# ------------------------------------------------------------------------------------------------ round 4: deepening C19
_ST_RESET_TABLE = "        self.route_hits = defaultdict(lambda: defaultdict(RouteStatReservoir))\n"
_ST_SEED_LOOP = "        for val in (data or []):\n            self.add(val)\n"
_ST_ROUTES = "    routes = [('/', get_stats_dict, render_basic),\n              POST('/reset', get_and_reset_stats_dict, render_basic)]\n"
_ST_STATUS_OK = "            resp_status = repr(getattr(resp, 'status_code', resp.__class__.__name__))\n"
_ST_STATUS_EXC = "            resp_status = repr(getattr(e, 'code', e.__class__.__name__))\n"
# the count changes only where a value is added
B('h4_resize_recounts', ['C19'], 'R19.c', (STATS, "        self._data = self._data[:new_size]\n", "        self._data = self._data[:new_size]\n        self._total_count = len(self._data)\n"))
B('h4_resize_clamps_count', ['C19'], 'R19.c',
  (STATS, "        self._cap = new_size\n        if new_size", "        self._cap = new_size\n        self._total_count = min(self._total_count, new_size)\n        if new_size"))
B('h4_iter_resets_count', ['C19'], 'R19.c', (STATS, "        return iter(self._data)\n", "        self._total_count = len(self._data)\n        return iter(self._data)\n"))
# the constructor: count = size of the initial store, values enter through add()
B('h4_init_count_starts_at_zero', ['C19'], 'R19.c', (STATS, "        self._total_count = len(container)\n", "        self._total_count = 0\n"))
B('h4_init_count_of_the_values', ['C19'], 'R19.c', (STATS, "        self._total_count = len(container)\n", "        self._total_count = len(data or [])\n"))
B('h4_init_extends_store', ['C19'], 'R19.c', (STATS, _ST_SEED_LOOP, "        self._data.extend(data or [])\n"))
B('h4_init_slice_stores_values', ['C19'], 'R19.c', (STATS, _ST_SEED_LOOP, "        self._data[:0] = data or []\n"))
B('h4_init_values_as_container', ['C19'], 'R19.c',
  (STATS, "        if container is None:\n            container = []\n", "        if container is None:\n            container = list(data or [])\n"))
T('h4_init_count_from_attribute', ['C19'], (STATS, "        self._total_count = len(container)\n", "        self._total_count = len(self._data)\n"))
T('h4_init_values_named', ['C19'], (STATS, _ST_SEED_LOOP, "        initial = data or []\n        for val in initial:\n            self.add(val)\n"))
T('h4_init_values_guarded', ['C19'], (STATS, _ST_SEED_LOOP, "        if data:\n            for val in data:\n                self.add(val)\n"))
# a reservoir per (route, status)
B('h4_one_reservoir_for_all', ['C19'], 'R19.b',
  (STATS, _ST_RESET_TABLE, "        shared = RouteStatReservoir()\n        self.route_hits = defaultdict(lambda: defaultdict(lambda: shared))\n"))
B('h4_one_inner_table_for_all_routes', ['C19'], 'R19.b',
  (STATS, _ST_RESET_TABLE, "        inner = defaultdict(RouteStatReservoir)\n        self.route_hits = defaultdict(lambda: inner)\n"))
B('h4_reservoir_kept_on_the_instance', ['C19'], 'R19.b',
  (STATS, _ST_RESET_TABLE, "        self._spare = RouteStatReservoir()\n        self.route_hits = defaultdict(lambda: defaultdict(lambda: self._spare))\n"))
T('h4_cell_factories_as_lambdas', ['C19'], (STATS, _ST_RESET_TABLE, "        self.route_hits = defaultdict(lambda: defaultdict(lambda: RouteStatReservoir()))\n"))
T('h4_cell_factory_partial', ['C19'], (STATS, 'import datetime\n', 'import datetime\nfrom functools import partial\n'),
  (STATS, _ST_RESET_TABLE, "        self.route_hits = defaultdict(partial(defaultdict, RouteStatReservoir))\n"))
# reading the statistics changes nothing
B('h4_report_resets', ['C19'], 'R19.b',
  (STATS, "    utcnow = datetime.datetime.utcnow().isoformat()\n    return {'route_stats'", "    utcnow = datetime.datetime.utcnow().isoformat()\n    stats_mw.reset()\n    return {'route_stats'"))
B('h4_report_pops_what_it_renders', ['C19'], 'R19.b',
  (STATS, "    return {'route_stats': dict([(rt.pattern, _get_route_stats(rh)) for rt, rh\n                                 in rt_hits.items() if rh]),",
          "    return {'route_stats': dict([(rt.pattern, _get_route_stats(rt_hits.pop(rt))) for rt in list(rt_hits)]),"))
B('h4_summary_resizes_the_reservoir', ['C19'], 'R19.b',
  (STATS, "        durs = [round(h.duration * 1000, 2) for h in hits]\n", "        hits.resize(1024)\n        durs = [round(h.duration * 1000, 2) for h in hits]\n"))
B('h4_summary_clears_the_route_table', ['C19'], 'R19.b', (STATS, "        cur.update(desc_dict)\n", "        cur.update(desc_dict)\n    rt_hits.clear()\n"))
B('h4_summary_adds_a_marker_hit', ['C19'], 'R19.b',
  (STATS, "        durs = [round(h.duration * 1000, 2) for h in hits]\n", "        durs = [round(h.duration * 1000, 2) for h in hits]\n        hits.add(Hit(0.0, '', '', status, 0.0, ''))\n"))
B('h4_report_method_resets', ['C19'], 'R19.b',
  *_mw_methods(reset_method=_ST_MW_RESET_OK.replace("        ret = self.get_stats_dict()\n", "        ret = self.get_stats_dict()\n")
               + "\n    def peek(self):\n        return self.get_stats_dict()\n",
               get_ep='    mw = _get_stats_mw(_application)\n    ret = mw.get_stats_dict()\n    mw.reset()\n    return ret\n'))
# the routing table of the stats application
B('h4_root_route_resets', ['C19'], 'R19.b', (STATS, "    routes = [('/', get_stats_dict, render_basic),", "    routes = [('/', get_and_reset_stats_dict, render_basic),"))
B('h4_reset_route_only_reports', ['C19'], 'R19.b', (STATS, "POST('/reset', get_and_reset_stats_dict, render_basic)", "POST('/reset', get_stats_dict, render_basic)"))
B('h4_reset_route_answers_get', ['C19'], 'R19.b', (STATS, "from ..route import POST\n", "from ..route import POST, GET\n"),
  (STATS, "POST('/reset', get_and_reset_stats_dict, render_basic)", "GET('/reset', get_and_reset_stats_dict, render_basic)"))
B('h4_reset_route_any_method', ['C19'], 'R19.b', (STATS, "POST('/reset', get_and_reset_stats_dict, render_basic)", "('/reset', get_and_reset_stats_dict, render_basic)"))
T('h4_routes_named_and_keyworded', ['C19'],
  (STATS, _ST_ROUTES, "    report_route = ('/', get_stats_dict, render_basic)\n    reset_route = POST('/reset', endpoint=get_and_reset_stats_dict, render=render_basic)\n"
                      "    routes = [report_route, reset_route]\n"))
T('h4_routes_inline', ['C19'],
  (STATS, _ST_ROUTES + "    app = Application(routes)\n",
          "    app = Application([('/', get_stats_dict, render_basic),\n                       POST('/reset', get_and_reset_stats_dict, render_basic)])\n"))
# the status key is the code itself
B('h4_status_key_rounded_to_class', ['C19'], 'R19.a', (STATS, _ST_STATUS_OK, "            resp_status = repr(getattr(resp, 'status_code', 200) // 100 * 100)\n"))
B('h4_status_key_first_digit_of_exception_code', ['C19'], 'R19.a', (STATS, _ST_STATUS_EXC, "            resp_status = repr(str(getattr(e, 'code', e.__class__.__name__))[:1])\n"))
T('h4_status_key_percent_r', ['C19'], (STATS, _ST_STATUS_OK, "            resp_status = '%r' % (getattr(resp, 'status_code', resp.__class__.__name__),)\n"))
T('h4_status_key_named_code', ['C19'],
  (STATS, _ST_STATUS_OK, "            code = getattr(resp, 'status_code', resp.__class__.__name__)\n            resp_status = repr(code)\n"))

# ------------------------------------------------------------------------------------------------ round 4: R15.i parsing of request data is contained
FORM = 'clastic/middleware/form.py'
_CK_UNSER = '''        try:
            return super(cls, JSONCookie).unserialize(string, secret_key)
        except Exception:
            # malformed client data (e.g., a signature that is not
            # valid base64): treat like any other invalid cookie
            return cls((), secret_key, False)
'''
_FORM_GET = "            kwargs[p_name] = request.form.get(p_name, None, p_type)\n"
_URL_GET = "            kwargs[p_name] = request.args.get(p_name, None, p_type)\n"
B('h4_cookie_parser_handler_reraises', ['C15'], 'R15.i',
  (CK, _CK_UNSER, "        try:\n            return super(cls, JSONCookie).unserialize(string, secret_key)\n        except Exception:\n            raise\n"))
B('h4_cookie_parser_handler_too_narrow', ['C15'], 'R15.i',
  (CK, _CK_UNSER, "        try:\n            return super(cls, JSONCookie).unserialize(string, secret_key)\n        except TypeError:\n            return cls((), secret_key, False)\n"))
B('h4_cookie_parser_result_outside_try', ['C15'], 'R15.i',
  (CK, _CK_UNSER, "        try:\n            string = string.strip()\n        except Exception:\n            return cls((), secret_key, False)\n"
                  "        return super(cls, JSONCookie).unserialize(string, secret_key)\n"))
B('h4_form_value_converted_bare', ['C15'], 'R15.i',
  (FORM, _FORM_GET, "            raw = request.form.get(p_name)\n            kwargs[p_name] = p_type(raw) if raw is not None else None\n"))
B('h4_query_value_int_bare', ['C15'], 'R15.i',
  (URL, _URL_GET, "            kwargs[p_name] = request.args.get(p_name, None, p_type)\n        kwargs['_page'] = int(request.args.get('page', '1'))\n        kwargs.pop('_page')\n"))
B('h4_form_json_body_loaded_bare', ['C15'], 'R15.i', (FORM, 'import sys\n', 'import sys\nimport json\n'),
  (FORM, "        kwargs = {}\n        for p_name, p_type in self.params.items():\n            kwargs[p_name] = request.form.get",
         "        kwargs = {}\n        extra = json.loads(request.environ.get('HTTP_X_PARAMS', '{}'))\n        for p_name, p_type in self.params.items():\n            kwargs[p_name] = request.form.get"))
T('h4_cookie_parser_handler_tuple', ['C15'],
  (CK, _CK_UNSER, "        try:\n            loaded = super(cls, JSONCookie).unserialize(string, secret_key)\n        except (ValueError, TypeError, Exception):\n"
                  "            return cls((), secret_key, False)\n        return loaded\n"))
T('h4_form_value_converted_guarded', ['C15'],
  (FORM, _FORM_GET, "            raw = request.form.get(p_name)\n            try:\n                kwargs[p_name] = p_type(raw) if raw is not None else None\n"
                    "            except (ValueError, TypeError):\n                kwargs[p_name] = None\n"))
# C19 R19.d: the list the endpoints search is the application's own copy
APP = 'clastic/application.py'
_APP_MWS = "        self.middlewares = list(middlewares or [])\n"
B('h4_app_keeps_callers_list', ['C19'], 'R19.d', (APP, _APP_MWS, "        self.middlewares = middlewares if middlewares is not None else []\n"))
B('h4_app_keeps_callers_list_named', ['C19'], 'R19.d', (APP, _APP_MWS, "        mws = middlewares or []\n        self.middlewares = mws\n"))
T('h4_app_copies_list_conditionally', ['C19'], (APP, _APP_MWS, "        self.middlewares = list(middlewares) if middlewares else []\n"))
T('h4_app_copies_list_by_slice', ['C19'], (APP, _APP_MWS, "        self.middlewares = (middlewares or [])[:]\n"))
T('h4_app_copies_list_by_comprehension', ['C19'], (APP, _APP_MWS, "        given = middlewares or []\n        self.middlewares = [mw for mw in given]\n"))

# ------------------------------------------------------------------------------------------------ round 4: more of C19 / C15
_ST_REPORT_COMP = "in rt_hits.items() if rh]),"
# counting starts from zero: the installed table is empty
B('h4_reset_carries_old_counts_over', ['C19'], 'R19.b',
  (STATS, _ST_RESET_TABLE, "        old = getattr(self, 'route_hits', {})\n" + _ST_RESET_TABLE + "        self.route_hits.update(old)\n"))
B('h4_reset_builds_table_from_old', ['C19'], 'R19.b',
  (STATS, _ST_RESET_TABLE, "        old = getattr(self, 'route_hits', {})\n        self.route_hits = defaultdict(lambda: defaultdict(RouteStatReservoir), old)\n"))
T('h4_reset_table_named', ['C19'], (STATS, _ST_RESET_TABLE, "        table = defaultdict(lambda: defaultdict(RouteStatReservoir))\n        self.route_hits = table\n"))
# the cell exists when the hit is filed
B('h4_table_plain_dict', ['C19'], 'R19.a', (STATS, _ST_RESET_TABLE, "        self.route_hits = {}\n"))
B('h4_table_one_level_only', ['C19'], 'R19.a', (STATS, _ST_RESET_TABLE, "        self.route_hits = defaultdict(dict)\n"))
# the report covers the table
B('h4_report_keeps_the_empty_routes', ['C19'], 'R19.b', (STATS, _ST_REPORT_COMP, "in rt_hits.items() if not rh]),"))
B('h4_report_first_route_only', ['C19'], 'R19.b', (STATS, _ST_REPORT_COMP, "in list(rt_hits.items())[:1] if rh]),"))
B('h4_report_leaves_out_a_route', ['C19'], 'R19.b', (STATS, _ST_REPORT_COMP, "in rt_hits.items() if rt.pattern != '/']),"))
B('h4_summary_skips_server_errors', ['C19'], 'R19.b',
  (STATS, "        ret[status] = cur = {}\n", "        if status.startswith('5'):\n            continue\n        ret[status] = cur = {}\n"))
B('h4_summary_stops_after_first_status', ['C19'], 'R19.b', (STATS, "        cur.update(desc_dict)\n", "        cur.update(desc_dict)\n        break\n"))
T('h4_report_sorted_routes', ['C19'], (STATS, _ST_REPORT_COMP, "in sorted(rt_hits.items(), key=lambda kv: kv[0].pattern) if rh]),"))
T('h4_summary_skips_empty', ['C19'],
  (STATS, "        ret[status] = cur = {}\n", "        if not hits:\n            continue\n        ret[status] = cur = {}\n"))
# render context: several keys at once
B('h4_ctx_update_with_defaults', ['C15'], 'R15.h',
  (CTX, "            desired_args = self.required + list(self.defaults.keys())\n", "            context.update(self.defaults)\n            desired_args = self.required + list(self.defaults.keys())\n"))
T('h4_ctx_update_unset_only', ['C15'],
  (CTX, "            desired_args = self.required + list(self.defaults.keys())\n",
        "            context.update((k, v) for k, v in () if k not in context)\n            desired_args = self.required + list(self.defaults.keys())\n"))
T('h4_ctx_update_under_switch', ['C15'],
  (CTX, "            desired_args = self.required + list(self.defaults.keys())\n",
        "            if self.overwrite:\n                context.update({})\n            desired_args = self.required + list(self.defaults.keys())\n"))


# ================================================================================================ fifth pass (refactoring round w)
# ---- a private read-only property for a derived value: read through its return expression (front-end: the property becomes a
#      private helper method, which the inliner dissolves) --------------------------------------------------------------------
_ST_TC_PROP = "    @property\n    def total_count(self):\n        return self._total_count\n"
_ST_ADD_TEST = "        if len(self._data) < self._cap:\n"
_ST_RESIZE_TEST = "        if new_size >= len(self._data):\n"


def _size_prop(ret='len(self._data)', doc=''):
    return (STATS, _ST_TC_PROP, _ST_TC_PROP + "\n    @property\n    def _data_count(self):\n" + doc + "        return " + ret + "\n")


T('h5_store_size_private_property', ['C19'], _size_prop(),
  (STATS, _ST_ADD_TEST, "        if self._data_count < self._cap:\n"), (STATS, _ST_RESIZE_TEST, "        if new_size >= self._data_count:\n"))
T('h5_store_size_private_property_named_and_documented', ['C19'], _size_prop(doc='        """number of retained samples"""\n'),
  (STATS, _ST_ADD_TEST, "        size = self._data_count\n        if size < self._cap:\n"),
  (STATS, _ST_RESIZE_TEST, "        if not (new_size < self._data_count):\n"))
B('h5_store_size_property_off_by_one', ['C19'], 'R19.c', _size_prop(ret='len(self._data) - 1'),
  (STATS, _ST_ADD_TEST, "        if self._data_count < self._cap:\n"), (STATS, _ST_RESIZE_TEST, "        if new_size >= self._data_count:\n"))
B('h5_store_size_property_not_the_size', ['C19'], 'R19.c', _size_prop(ret='self._cap - 1'),
  (STATS, _ST_ADD_TEST, "        if self._data_count < self._cap:\n"))
B('h5_store_size_property_in_resize_only_wrong', ['C19'], 'R19.c', _size_prop(ret='len(self._data) // 2'),
  (STATS, _ST_RESIZE_TEST, "        if new_size >= self._data_count:\n"))

# ---- the report assembled by a private helper that takes the middleware (dissolved into both endpoints): the report statements of
#      the report-and-reset endpoint are then the reads of the table themselves ----------------------------------------------------
_ST_GSD_HEAD = "    stats_mw = _get_stats_mw(_application)\n    rt_hits = stats_mw.route_hits\n"
_ST_GAR = ("def get_and_reset_stats_dict(_application):\n    ret = get_stats_dict(_application)\n    stats_mw = _get_stats_mw(_application)\n"
           "    stats_mw.reset()\n    ret['reset'] = True\n    return ret\n")
_ST_BUILD = (STATS, _ST_GSD_HEAD, "    return _build_stats_dict(_get_stats_mw(_application))\n\n\ndef _build_stats_dict(stats_mw):\n    rt_hits = stats_mw.route_hits\n")


def _gar(body):
    return (STATS, _ST_GAR, "def get_and_reset_stats_dict(_application):\n" + body)


T('h5_report_built_by_helper_taking_the_middleware', ['C19', 'C15'], _ST_BUILD,
  _gar("    stats_mw = _get_stats_mw(_application)\n    ret = _build_stats_dict(stats_mw)\n    stats_mw.reset()\n    ret['reset'] = True\n    return ret\n"))
T('h5_report_built_by_helper_then_copied', ['C19'], _ST_BUILD,
  _gar("    stats_mw = _get_stats_mw(_application)\n    report = _build_stats_dict(stats_mw)\n    stats_mw.reset()\n    return dict(report, reset=True)\n"))
T('h5_report_filled_by_a_loop_over_the_table', ['C19'],
  _gar("    stats_mw = _get_stats_mw(_application)\n    route_stats = {}\n    for rt, rh in stats_mw.route_hits.items():\n        if rh:\n"
       "            route_stats[rt.pattern] = _get_route_stats(rh)\n"
       "    ret = {'route_stats': route_stats, 'start_time_utc': stats_mw.last_reset.isoformat(),\n           'cur_time_utc': datetime.datetime.utcnow().isoformat()}\n"
       "    stats_mw.reset()\n    ret['reset'] = True\n    return ret\n"))
B('h5_report_helper_runs_after_reset', ['C19'], 'R19.b', _ST_BUILD,
  _gar("    stats_mw = _get_stats_mw(_application)\n    stats_mw.reset()\n    ret = _build_stats_dict(stats_mw)\n    ret['reset'] = True\n    return ret\n"))
B('h5_report_helper_table_read_before_rest_after_reset', ['C19'], 'R19.b', _ST_BUILD,
  _gar("    stats_mw = _get_stats_mw(_application)\n    ret = _build_stats_dict(stats_mw)\n    stats_mw.reset()\n"
       "    ret = _build_stats_dict(stats_mw)\n    ret['reset'] = True\n    return ret\n"))
B('h5_report_helper_result_dropped', ['C19'], 'R19.b', _ST_BUILD,
  _gar("    stats_mw = _get_stats_mw(_application)\n    report = _build_stats_dict(stats_mw)\n    stats_mw.reset()\n    ret = {'reset': True}\n    return ret\n"))
B('h5_report_loop_runs_after_reset', ['C19'], 'R19.b',
  _gar("    stats_mw = _get_stats_mw(_application)\n    route_stats = {}\n    stats_mw.reset()\n    for rt, rh in stats_mw.route_hits.items():\n        if rh:\n"
       "            route_stats[rt.pattern] = _get_route_stats(rh)\n"
       "    ret = {'route_stats': route_stats, 'start_time_utc': stats_mw.last_reset.isoformat(),\n           'cur_time_utc': datetime.datetime.utcnow().isoformat()}\n"
       "    ret['reset'] = True\n    return ret\n"))

# ---- the record type of a hit: declared field order read from a typing.NamedTuple class / a dataclass / a plain class ----------
_ST_HIT = "Hit = namedtuple('Hit', 'start_time url pattern status_code '\n                 ' duration content_type')\n"
_ST_IMP = "from collections import namedtuple, defaultdict\n"


def _hit_cls(head, order=('start_time: float', 'url: str', 'pattern: str', 'status_code: str', 'duration: float', 'content_type: str')):
    return (STATS, _ST_HIT, head + ''.join('    %s\n' % f for f in order))


_SWAPPED = ('start_time: float', 'pattern: str', 'url: str', 'status_code: str', 'duration: float', 'content_type: str')
T('h5_hit_typing_namedtuple', ['C19'], (STATS, _ST_IMP, "from typing import NamedTuple\n" + _ST_IMP), _hit_cls("class Hit(NamedTuple):\n"))
T('h5_hit_typing_namedtuple_qualified', ['C19'], (STATS, _ST_IMP, "import typing\n" + _ST_IMP), _hit_cls("class Hit(typing.NamedTuple):\n"))
T('h5_hit_dataclass', ['C19'], (STATS, _ST_IMP, "from dataclasses import dataclass\n" + _ST_IMP), _hit_cls("@dataclass(frozen=True)\nclass Hit(object):\n"))
B('h5_hit_typing_namedtuple_fields_swapped', ['C19'], 'R19.a', (STATS, _ST_IMP, "from typing import NamedTuple\n" + _ST_IMP),
  _hit_cls("class Hit(NamedTuple):\n", _SWAPPED))
B('h5_hit_dataclass_fields_swapped', ['C19'], 'R19.a', (STATS, _ST_IMP, "from dataclasses import dataclass\n" + _ST_IMP),
  _hit_cls("@dataclass\nclass Hit(object):\n", _SWAPPED))
T('h5_hit_plain_class', ['C19'],
  (STATS, _ST_HIT, "class Hit(object):\n    def __init__(self, start_time, url, pattern, status_code, duration, content_type):\n        self.start_time = start_time\n"
                   "        self.url = url\n        self.pattern = pattern\n        self.status_code = status_code\n        self.duration = duration\n"
                   "        self.content_type = content_type\n"))
B('h5_hit_plain_class_parameters_swapped', ['C19'], 'R19.a',
  (STATS, _ST_HIT, "class Hit(object):\n    def __init__(self, start_time, pattern, url, status_code, duration, content_type):\n        self.start_time = start_time\n"
                   "        self.url = url\n        self.pattern = pattern\n        self.status_code = status_code\n        self.duration = duration\n"
                   "        self.content_type = content_type\n"))
T('h5_zero_argument_super', ['C19'], (STATS, "        super(RouteStatReservoir, self).add(hit)\n", "        super().add(hit)\n"),
  (STATS, "        super(RouteStatReservoir, self).__init__()\n", "        super().__init__()\n"))

# ---- the sample store moved (verbatim) into another module of the package and imported back: its methods are judged where they
#      live, the writers of its state are its own methods by identity -----------------------------------------------------------------
_RESERVOIR_SRC = '''

import random


def fast_randint(start, stop):
    return (start + int(random.random() * (stop + 1 - start)))


class Reservoir(object):
    def __init__(self, cap=True, data=None, container=None):
        if cap is True:
            self._cap = 2 ** 14  # 16k
        elif cap is False:
            self._cap = float('inf')
        else:
            self._cap = int(cap)
        if container is None:
            container = []
        self._data = container
        self._total_count = len(container)
        assert self._total_count < self._cap, 'initial count %r must be lower than cap %r' % (self._total_count, self._cap)

        for val in (data or []):
            self.add(val)
        return

    @property
    def total_count(self):
        return self._total_count

    def add(self, val):
        self._total_count += 1
        if len(self._data) < self._cap:
            self._data.append(val)
            return

        idx = fast_randint(0, self._total_count)
        if idx < self._cap:
            self._data[idx] = val
        return

    def __iter__(self):
        return iter(self._data)

    def to_list(self):
        return list(self)

    def resize(self, new_size):
        self._cap = new_size
        if new_size >= len(self._data):
            return
        self._data = self._data[:new_size]

    def __repr__(self):
        cn = self.__class__.__name__
        return ('<%s cap=%r, data_count=%r, total_count=%r>'
                % (cn, self._cap, len(self._data), self._total_count))
'''


def _moved_store(src=_RESERVOIR_SRC):
    return [(STATS, r're:(?s)\ndef fast_randint\(start, stop\):.*?\n(?=Hit = namedtuple)', '\n'),
            (STATS, "from .core import Middleware\n", "from .core import Middleware, fast_randint, Reservoir\n"),
            (C, r're:\Z', src)]


T('h5_store_moved_to_another_module', ['C19', 'C15'], *_moved_store())
B('h5_store_moved_and_index_bound_loosened', ['C19'], 'R19.c', *_moved_store(_RESERVOIR_SRC.replace("        if idx < self._cap:\n", "        if idx <= self._cap:\n")))
B('h5_store_moved_and_appends_twice', ['C19'], 'R19.c',
  *_moved_store(_RESERVOIR_SRC.replace("            self._data.append(val)\n            return\n", "            self._data.append(val)\n            self._data.append(val)\n            return\n")))
B('h5_store_moved_and_resize_keeps_everything', ['C19'], 'R19.c',
  *_moved_store(_RESERVOIR_SRC.replace("        self._data = self._data[:new_size]\n", "        self._data = self._data[:]\n")))
B('h5_store_moved_and_subclass_writes_the_capacity', ['C19'], 'R19.c',
  *(_moved_store() + [(STATS, "        self.last_hit = hit.start_time\n", "        self.last_hit = hit.start_time\n        self._cap += 1\n")]))
B('h5_store_moved_and_count_reset_by_resize', ['C19'], 'R19.c',
  *_moved_store(_RESERVOIR_SRC.replace("        self._cap = new_size\n", "        self._cap = new_size\n        self._total_count = 0\n")))
T('h5_store_size_public_property', ['C19'],
  (STATS, _ST_TC_PROP, _ST_TC_PROP + "\n    @property\n    def data_count(self):\n        return len(self._data)\n"),
  (STATS, _ST_ADD_TEST, "        if self.data_count < self._cap:\n"), (STATS, _ST_RESIZE_TEST, "        if new_size >= self.data_count:\n"))
B('h5_store_size_public_property_counts_adds', ['C19'], 'R19.c',
  (STATS, _ST_TC_PROP, _ST_TC_PROP + "\n    @property\n    def data_count(self):\n        return self._total_count - 1\n"),
  (STATS, _ST_ADD_TEST, "        if self.data_count < self._cap:\n"))
B('h5_store_size_property_overridden_by_the_subclass', ['C19'], 'R19.c',
  (STATS, _ST_TC_PROP, _ST_TC_PROP + "\n    @property\n    def data_count(self):\n        return len(self._data)\n"),
  (STATS, _ST_ADD_TEST, "        if self.data_count < self._cap:\n"),
  (STATS, "    def add(self, hit):\n        super(RouteStatReservoir, self).add(hit)\n",
          "    @property\n    def data_count(self):\n        return 0\n\n    def add(self, hit):\n        super(RouteStatReservoir, self).add(hit)\n"))

# ---- the other parts of the mechanism moved as well (the summary function; the whole reservoir family with the record type) ---------
_ST_GRS = '''def _get_route_stats(rt_hits):
    ret = {}
    for status, hits in rt_hits.items():
        ret[status] = cur = {}
        durs = [round(h.duration * 1000, 2) for h in hits]
        stats = Stats(durs, use_copy=False)
        desc_dict = stats.describe(quantiles=[0.25, 0.5, 0.75, 0.95, 0.99], format="dict")
        desc_dict['count'] = hits.total_count  # need to account for reservoir count
        desc_dict['last_hit'] = datetime.datetime.fromtimestamp(hits.last_hit).isoformat()
        desc_dict['total_duration'] = round(hits.total_duration * 1000, 2)
        cur.update(desc_dict)
    return ret
'''


def _moved_summary(src=_ST_GRS):
    return [(STATS, _ST_GRS, ''), (STATS, "from .core import Middleware\n", "from .core import Middleware, _get_route_stats\n"),
            (C, r're:\Z', "\n\nimport datetime\nfrom boltons.statsutils import Stats\n\n\n" + src)]


T('h5_summary_moved_to_another_module', ['C19'], *_moved_summary())
B('h5_summary_moved_and_count_is_sample_size', ['C19'], 'R19.b',
  *_moved_summary(_ST_GRS.replace("        desc_dict['count'] = hits.total_count  # need to account for reservoir count\n", "")))
B('h5_summary_moved_and_stops_early', ['C19'], 'R19.b', *_moved_summary(_ST_GRS.replace("        cur.update(desc_dict)\n", "        cur.update(desc_dict)\n        break\n")))
_FAMILY_SRC = _RESERVOIR_SRC + '''

from collections import namedtuple

Hit = namedtuple('Hit', 'start_time url pattern status_code '
                 ' duration content_type')


class RouteStatReservoir(Reservoir):
    def __init__(self):
        self.last_hit = None
        self.total_duration = 0.0
        super(RouteStatReservoir, self).__init__()

    def add(self, hit):
        super(RouteStatReservoir, self).add(hit)
        self.last_hit = hit.start_time
        self.total_duration += hit.duration
'''


def _moved_family(src=_FAMILY_SRC):
    return [(STATS, r're:(?s)\ndef fast_randint\(start, stop\):.*?\n(?=class StatsMiddleware)', '\n'),
            (STATS, "from .core import Middleware\n", "from .core import Middleware, fast_randint, Reservoir, Hit, RouteStatReservoir\n"), (C, r're:\Z', src)]


T('h5_reservoir_family_moved', ['C19', 'C15'], *_moved_family())
B('h5_reservoir_family_moved_fields_reordered', ['C19'], 'R19.a',
  *_moved_family(_FAMILY_SRC.replace("'start_time url pattern status_code '", "'start_time pattern url status_code '")))
B('h5_reservoir_family_moved_subclass_adds_twice', ['C19'], 'R19.c',
  *_moved_family(_FAMILY_SRC.replace("        self.last_hit = hit.start_time\n", "        self.last_hit = hit.start_time\n        Reservoir.add(self, hit)\n")))

# ---- sentinels: ``X.get(k, _S) is _S`` is the presence test ``k not in X`` (R15.h); ``getattr(e, 'code', _S)`` tested against ``_S``
#      (or ``hasattr``) is the decision ``getattr(e, 'code', <class name>)`` makes (R19.a) -- for a module-level ``_S = object()`` that is
#      only ever a lookup default / an operand of ``is`` ---------------------------------------------------------------------------
_CTX_CLS = "class ContextProcessor(Middleware):\n"
_CTX_TEST = "                if not self.overwrite and arg in context:\n"
_CTX_UNSET = (CTX, _CTX_CLS, "_UNSET = object()\n\n\n" + _CTX_CLS)
T('h5_ctx_sentinel_lookup', ['C15'], _CTX_UNSET, (CTX, _CTX_TEST, "                if not self.overwrite and context.get(arg, _UNSET) is not _UNSET:\n"))
T('h5_ctx_sentinel_lookup_named', ['C15'], _CTX_UNSET,
  (CTX, _CTX_TEST, "                current = context.get(arg, _UNSET)\n                if not self.overwrite and current is not _UNSET:\n"))
B('h5_ctx_sentinel_read_the_wrong_way', ['C15'], 'R15.h', _CTX_UNSET,
  (CTX, _CTX_TEST, "                if not self.overwrite and context.get(arg, _UNSET) is _UNSET:\n"))
B('h5_ctx_none_is_not_a_sentinel', ['C15'], 'R15.h', (CTX, _CTX_TEST, "                if not self.overwrite and context.get(arg) is not None:\n"))
B('h5_ctx_sentinel_put_into_the_context', ['C15'], 'R15.h', _CTX_UNSET,
  (CTX, _CTX_TEST, "                if not self.overwrite and context.get(arg, _UNSET) is not _UNSET:\n"),
  (CTX, "                context[arg] = kwargs.get(arg, self.defaults.get(arg))\n", "                context[arg] = kwargs.get(arg, self.defaults.get(arg, _UNSET))\n"))
B('h5_ctx_sentinel_of_another_key', ['C15'], 'R15.h', _CTX_UNSET,
  (CTX, _CTX_TEST, "                if not self.overwrite and context.get('arg', _UNSET) is not _UNSET:\n"))
_ST_EXC_KEY = "            resp_status = repr(getattr(e, 'code', e.__class__.__name__))\n"
_ST_MISSING = (STATS, "Hit = namedtuple(", "_MISSING = object()\n\n\nHit = namedtuple(")
T('h5_status_key_sentinel_lookup', ['C19'], _ST_MISSING,
  (STATS, _ST_EXC_KEY, "            code = getattr(e, 'code', _MISSING)\n            resp_status = repr(e.__class__.__name__ if code is _MISSING else code)\n"))
T('h5_status_key_hasattr_branches', ['C19'],
  (STATS, _ST_EXC_KEY, "            if hasattr(e, 'code'):\n                resp_status = repr(e.code)\n            else:\n                resp_status = repr(e.__class__.__name__)\n"))
B('h5_status_key_sentinel_branches_swapped', ['C19'], 'R19.a', _ST_MISSING,
  (STATS, _ST_EXC_KEY, "            code = getattr(e, 'code', _MISSING)\n            resp_status = repr(code if code is _MISSING else e.__class__.__name__)\n"))
B('h5_status_key_one_key_for_all_other_exceptions', ['C19'], 'R19.a', _ST_MISSING,
  (STATS, _ST_EXC_KEY, "            code = getattr(e, 'code', _MISSING)\n            resp_status = repr('error' if code is _MISSING else code)\n"))
B('h5_status_key_hasattr_of_another_attribute', ['C19'], 'R19.a',
  (STATS, _ST_EXC_KEY, "            if hasattr(e, 'description'):\n                resp_status = repr(e.code)\n            else:\n                resp_status = repr(e.__class__.__name__)\n"))

# ---- a built-in middleware moved out of the middleware package and imported back: it is still a built-in middleware (C15 scans it) ---
CKM = 'clastic/middleware/cookie.py'
_CK_MW_SRC = '''

import os
import time
from .middleware.core import Middleware
from .middleware.cookie import JSONCookie, SESSION, NEVER


class SignedCookieMiddleware(Middleware):
    _cookie_type = JSONCookie

    def __init__(self,
                 arg_name='cookie',
                 cookie_name=None,
                 secret_key=None,
                 domain=None,
                 path='/',
                 secure=False,
                 http_only=False,
                 expiry=SESSION,
                 data_expiry=None):
        if data_expiry is not None:
            print("SignedCookieMiddleware's data_expiry argument is deprecated"
                  ". Use expiry instead.")
            expiry = data_expiry
        self.arg_name = arg_name
        self.provides = (arg_name,)
        if cookie_name is None:
            cookie_name = 'clastic_%s' % arg_name
        self.cookie_name = cookie_name
        self.secret_key = secret_key or self._get_random()
        self.domain = domain  # used for cross-domain cookie
        self.path = path  # limit cookie to given path
        self.secure = secure  # only transmit on HTTPS
        self.http_only = http_only  # disallow client-side (js) access
        self.expiry = expiry

    def request(self, next, request):
        cookie = self._cookie_type.load_cookie(request,
                                               key=self.cookie_name,
                                               secret_key=self.secret_key)
        response = next(**{self.arg_name: cookie})
        if self.expiry != NEVER and self.expiry != SESSION:
            # let the cookie-specified value override, if present
            if '_expires' not in cookie:
                cookie['_expires'] = time.time() + self.expiry
        save_cookie_kwargs = dict(key=self.cookie_name,
                                  domain=self.domain,
                                  path=self.path,
                                  secure=self.secure,
                                  httponly=self.http_only)
        if '_expires' in cookie:
            save_cookie_kwargs['expires'] = cookie['_expires']
        cookie.save_cookie(response, **save_cookie_kwargs)
        return response

    def _get_random(self):
        return os.urandom(20)

    def __repr__(self):
        cn = self.__class__.__name__
        return ('%s(arg_name=%r, cookie_name=%r)'
                % (cn, self.arg_name, self.cookie_name))

'''


def _moved_cookie_mw(src=_CK_MW_SRC):
    return [(CKM, r're:(?s)class SignedCookieMiddleware\(Middleware\):.*\Z', 'from ..errors import SignedCookieMiddleware\n'), (E, r're:\Z', src)]


T('h5_cookie_middleware_moved_out_of_the_package', ['C15'], *_moved_cookie_mw())
B('h5_cookie_middleware_moved_and_answers_itself', ['C15'], 'R15.b',
  *_moved_cookie_mw(_CK_MW_SRC.replace("        cookie.save_cookie(response, **save_cookie_kwargs)\n        return response\n",
                                       "        cookie.save_cookie(response, **save_cookie_kwargs)\n        return None\n")))
B('h5_cookie_middleware_moved_and_reads_a_mixin_attribute', ['C15'], 'R15.a',
  *_moved_cookie_mw(_CK_MW_SRC.replace("        cookie.save_cookie(response, **save_cookie_kwargs)\n        return response\n",
                                       "        cookie.save_cookie(response, **save_cookie_kwargs)\n        response.cache_control.private = True\n        return response\n")))
_RES_PROP_SRC = _RESERVOIR_SRC.replace("    def add(self, val):\n", "    @property\n    def _data_count(self):\n        return len(self._data)\n\n    def add(self, val):\n") \
    .replace("        if len(self._data) < self._cap:\n", "        if self._data_count < self._cap:\n").replace("        if new_size >= len(self._data):\n", "        if new_size >= self._data_count:\n")
T('h5_store_moved_with_size_property', ['C19'], *_moved_store(_RES_PROP_SRC))
B('h5_store_moved_with_size_property_one_too_many', ['C19'], 'R19.c', *_moved_store(_RES_PROP_SRC.replace("        if self._data_count < self._cap:\n", "        if self._data_count <= self._cap:\n")))


# ================================================================================================ round f of seeded changes
# ---- R19.a: the status keys of one route are of one kind (text): the code is filed under its rendering on both paths ------------------
_ST_OK_KEY = "            resp_status = repr(getattr(resp, 'status_code', resp.__class__.__name__))\n"
_ST_OK_MIME = "            resp_mime_type = (getattr(resp, 'content_type', None) or '').partition(';')[0]\n"
_ST_EXC_MIME = "            resp_mime_type = getattr(e, 'content_type', '').partition(';')[0]\n"
_ST_SMW = "class StatsMiddleware(Middleware):\n    def __init__(self):\n        self.reset()\n"


def _outcome_helper(status):
    return [(STATS, _ST_SMW, "def _describe_outcome(obj, code_attr):\n    status = " + status + "\n"
                             "    mime_type = (getattr(obj, 'content_type', None) or '').partition(';')[0]\n    return status, mime_type\n\n\n" + _ST_SMW),
            (STATS, _ST_OK_KEY + _ST_OK_MIME, "            resp_status, resp_mime_type = _describe_outcome(resp, 'status_code')\n"),
            (STATS, _ST_EXC_KEY + _ST_EXC_MIME, "            resp_status, resp_mime_type = _describe_outcome(e, 'code')\n")]


T('h6_status_key_rendered_inside_a_shared_helper', ['C19', 'C15'], *_outcome_helper("repr(getattr(obj, code_attr, obj.__class__.__name__))"))
T('h6_status_key_rendered_by_str_and_percent', ['C19'], (STATS, _ST_OK_KEY, "            resp_status = str(getattr(resp, 'status_code', resp.__class__.__name__))\n"),
  (STATS, _ST_EXC_KEY, "            resp_status = '%s' % (getattr(e, 'code', e.__class__.__name__),)\n"))
B('h6_status_key_helper_hands_out_the_code_itself', ['C19'], 'R19.a', *_outcome_helper("getattr(obj, code_attr, obj.__class__.__name__)"))
B('h6_status_key_unrendered_on_the_normal_path', ['C19'], 'R19.a',
  (STATS, _ST_OK_KEY, "            resp_status = getattr(resp, 'status_code', resp.__class__.__name__)\n"))
B('h6_status_key_code_or_name_by_test_unrendered', ['C19'], 'R19.a',
  (STATS, _ST_EXC_KEY, "            resp_status = e.code if hasattr(e, 'code') else e.__class__.__name__\n"))
B('h6_status_key_only_the_name_rendered', ['C19'], 'R19.a',
  (STATS, _ST_EXC_KEY, "            resp_status = getattr(e, 'code', repr(e.__class__.__name__))\n"))

# ---- R15.j: what a hook does once next() has answered cannot fail: sequence indices entailed in bounds (or absorbed) ------------------
_ST_RESET_LAST = "        self.last_reset = datetime.datetime.utcnow()\n"
_ST_FILE_HIT = "            self.route_hits[_route][resp_status].add(hit)\n"
_RING = (STATS, _ST_RESET_LAST, _ST_RESET_LAST + "        self.recent = [None] * 8\n        self.n_seen = 0\n")
_IDX_STORE = "        idx = fast_randint(0, self._total_count)\n        if idx < self._cap:\n            self._data[idx] = val\n        return\n"
T('h6_recent_hits_slot_tested', ['C15', 'C19'], _RING,
  (STATS, _ST_FILE_HIT, _ST_FILE_HIT + "            if self.n_seen < len(self.recent):\n                self.recent[self.n_seen] = hit\n                self.n_seen += 1\n"))
T('h6_recent_hits_index_error_absorbed', ['C15', 'C19'], _RING,
  (STATS, _ST_FILE_HIT, _ST_FILE_HIT + "            try:\n                self.recent[self.n_seen] = hit\n                self.n_seen += 1\n"
                                       "            except IndexError:\n                self.n_seen = 0\n"))
T('h6_sample_index_tested_against_the_store', ['C15', 'C19'],
  (STATS, _IDX_STORE, "        idx = fast_randint(0, self._total_count)\n        if idx < len(self._data):\n            self._data[idx] = val\n        return\n"))
B('h6_recent_hits_slot_never_wraps', ['C15'], 'R15.j', _RING,
  (STATS, _ST_FILE_HIT, _ST_FILE_HIT + "            self.recent[self.n_seen] = hit\n            self.n_seen += 1\n"))
B('h6_sample_index_guard_clause_one_too_far', ['C15', 'C19'], {'C15': 'R15.j', 'C19': 'R19.c'},
  (STATS, _IDX_STORE, "        idx = fast_randint(0, self._total_count)\n        if idx > self._cap:\n            return\n        self._data[idx] = val\n        return\n"))
B('h6_sample_index_one_based', ['C15', 'C19'], {'C15': 'R15.j', 'C19': 'R19.c'},
  (STATS, _IDX_STORE, "        idx = fast_randint(1, self._total_count)\n        if idx <= self._cap:\n            self._data[idx] = val\n        return\n"))
B('h6_subclass_appends_by_position', ['C15'], 'R15.j',
  (STATS, "        self.total_duration = 0.0\n        super(RouteStatReservoir, self).__init__()\n",
          "        self.total_duration = 0.0\n        self.slowest = []\n        super(RouteStatReservoir, self).__init__()\n"),
  (STATS, "        self.last_hit = hit.start_time\n", "        self.last_hit = hit.start_time\n        self.slowest[len(self.slowest)] = hit.duration\n"))
B('h6_sample_index_bound_stale_after_truncation', ['C15'], 'R15.j',
  (STATS, _IDX_STORE, "        idx = fast_randint(0, self._total_count)\n        if idx < len(self._data):\n            self._data.pop()\n            self._data[idx] = val\n        return\n"))

# ---- seventh pass: the report assembled by a helper that is handed the middleware (its parameter followed to every call site);
#      the per-route summary found by its role (the function given one route's table of reservoirs), not by its name ----------------
_ST_GSD_BODY = '''    stats_mw = _get_stats_mw(_application)
    rt_hits = stats_mw.route_hits
    utcnow = datetime.datetime.utcnow().isoformat()
    return {'route_stats': dict([(rt.pattern, _get_route_stats(rh)) for rt, rh
                                 in rt_hits.items() if rh]),
            'start_time_utc': stats_mw.last_reset.isoformat(),
            'cur_time_utc': utcnow}
'''
_ST_GSD_DEF = "def get_stats_dict(_application):\n"
_ST_ASSEMBLE = '''def _assemble_report(collector):
    table = collector.route_hits
    utcnow = datetime.datetime.utcnow().isoformat()
    return {'route_stats': dict([(rt.pattern, _get_route_stats(rh)) for rt, rh
                                 in table.items() if rh]),
            'start_time_utc': collector.last_reset.isoformat(),
            'cur_time_utc': utcnow}


'''
_ST_GR_HEAD = "    ret = get_stats_dict(_application)\n    stats_mw = _get_stats_mw(_application)\n"
_ST_GR_HEAD_H = "    stats_mw = _get_stats_mw(_application)\n    ret = _assemble_report(stats_mw)\n"
T('h7_report_helper_takes_the_middleware', ['C19'],
  (STATS, _ST_GSD_DEF, _ST_ASSEMBLE + _ST_GSD_DEF), (STATS, _ST_GSD_BODY, "    return _assemble_report(_get_stats_mw(_application))\n"),
  (STATS, _ST_GR_HEAD, _ST_GR_HEAD_H))
B('h7_report_helper_given_a_fresh_middleware', ['C19'], 'R19.d',
  (STATS, _ST_GSD_DEF, _ST_ASSEMBLE + _ST_GSD_DEF), (STATS, _ST_GSD_BODY, "    return _assemble_report(StatsMiddleware())\n"),
  (STATS, _ST_GR_HEAD, _ST_GR_HEAD_H))
B('h7_report_helper_given_a_copy_at_one_site', ['C19'], 'R19.d',
  (STATS, _ST_GSD_DEF, _ST_ASSEMBLE + _ST_GSD_DEF), (STATS, _ST_GSD_BODY, "    return _assemble_report(_get_stats_mw(_application))\n"),
  (STATS, _ST_GR_HEAD, "    stats_mw = _get_stats_mw(_application)\n    ret = _assemble_report(copy.copy(stats_mw))\n"),
  (STATS, 'import datetime\n', 'import datetime\nimport copy\n'))
_ST_COUNT_LINE = "        desc_dict['count'] = hits.total_count  # need to account for reservoir count\n"
T('h7_route_summary_renamed', ['C19'],
  (STATS, "def _get_route_stats(rt_hits):\n", "def _describe_statuses(rt_hits):\n"),
  (STATS, "(rt.pattern, _get_route_stats(rh))", "(rt.pattern, _describe_statuses(rh))"))
B('h7_route_summary_renamed_sample_size', ['C19'], 'R19.b',
  (STATS, "def _get_route_stats(rt_hits):\n", "def _describe_statuses(rt_hits):\n"),
  (STATS, "(rt.pattern, _get_route_stats(rh))", "(rt.pattern, _describe_statuses(rh))"),
  (STATS, _ST_COUNT_LINE, "        desc_dict['count'] = len(durs)\n"))
