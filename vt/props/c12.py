"""C12 -- Concurrent requests on one Application do not interfere.

Static non-interference argument, valid for every schedule: if no function on the request path writes
an object another request can reach, requests cannot influence each other (given the same for user code
and werkzeug, which are assumptions).

Decided:
  R12.a  no shared write on the request path: every store / mutating call in every clastic core function
         reachable from Application.__call__ targets a fresh or request-local object; the generated code
         (chain levels, request core) contains no store except locals and __traceback_hide__ and closes over
         ``funcs`` only;
  R12.b  immutability after construction: BoundRoute attributes are written in __init__ only (no method of
         BoundRoute other than __init__ stores to self; nothing stores through a route-typed name);
         Application.routes only in __init__/add (R06.a);
  R12.c  request ids: request_id is assigned from next(_REQ_ID_ITER) only; _REQ_ID_ITER is a module-level
         itertools.count() that is never rebound or re-created;
  R12.d  built-in middlewares: per-request writes to ``self`` are inventoried (StatsMiddleware counters, by
         design); a new per-request self-write in any other middleware fires.
Declined: interleavings inside werkzeug / user code; anything below the Python level.
"""
import ast
import textwrap

from ..core import AnalysisError, norm, short
from .. import effects, codegen
from ..callgraph import ROLE_TABLE
from . import chain
from .noninterf import RequestPath
from .c08 import check_no_shared_store
from .c15 import middleware_functions
from .common import cfg_of, fkey, stmts_of, walk_body, call_tail, call_name

APP, ROUTE = 'clastic.application', 'clastic.route'
SELF_WRITES_TABLE = {
    'clastic.middleware.stats::StatsMiddleware.request': 'route_hits counters: shared by design (the middleware exists to aggregate across requests)',
}


def run(rep):
    repo = rep.repo
    app, route = repo.mod(APP), repo.mod(ROUTE)
    rep.decide('R12.a no shared write on the request path (incl. generated code); R12.b BoundRoute immutable after '
               'construction; R12.c request-id source; R12.d middleware self-write inventory')
    rep.decline('interleavings inside werkzeug / user code; memory-model questions below the Python level')
    rep.assume('itertools.count.__next__ is a single C call under the GIL')
    rep.assume('user-supplied endpoints / middlewares / renderers and werkzeug do not share state between requests')
    rep.rule('R12.a', 'effect classification over the call-graph closure from Application.__call__; generated code has no heap store')
    rep.rule('R12.b', 'who-may-write BoundRoute attributes')
    rep.rule('R12.c', 'single source of request ids')
    rep.rule('R12.d', 'inventory of per-request self-writes in built-in middlewares')

    rp = RequestPath(repo)
    check_no_shared_store(rep, 'R12.a', rp)
    # generated code
    fi, te, parts, stop, main = chain.analyse_level_template(repo)
    r, text = chain._render_level(repo, fi, parts, 0)
    core = repo.mod('clastic.middleware.core')
    ci = core.func('_create_request_inner')
    cc = [c for c in walk_body(ci.node) if isinstance(c, ast.Call) and call_name(c) == 'compile_code'][0]
    parts2 = codegen.TemplateEval(repo, ci).ev(cc.args[0], cc.lineno)
    text2 = codegen.render(parts2).text
    for label, t, mod_, node in (('chain level', text, fi.mod, main), ('request core', text2, core, cc)):
        try:
            tree = ast.parse(textwrap.dedent(t))
        except SyntaxError as e:
            raise AnalysisError('generated %s does not parse: %s' % (label, e))
        bad = []
        for n in ast.walk(tree):
            if isinstance(n, (ast.Global, ast.Nonlocal)):
                bad.append(norm(n))
            if isinstance(n, (ast.Attribute, ast.Subscript)) and isinstance(n.ctx, (ast.Store, ast.Del)):
                bad.append(norm(n))
            if isinstance(n, ast.Call) and isinstance(n.func, ast.Attribute) and n.func.attr in effects.MUTATORS:
                bad.append(norm(n))
        rep.check('R12.a', 'generated::%s' % label, not bad,
                  'generated %s stores only into locals; per-request values live in call frames' % label if not bad else
                  'generated %s contains a heap store / global: %s' % (label, bad), mod_, node)
        free = set()
        for n in ast.walk(tree):
            if isinstance(n, ast.Name) and isinstance(n.ctx, ast.Load):
                free.add(n.id)
        bound = set(a.arg for f_ in ast.walk(tree) if isinstance(f_, ast.FunctionDef) for a in f_.args.args) | \
            set(f_.name for f_ in ast.walk(tree) if isinstance(f_, ast.FunctionDef)) | \
            set(n.id for n in ast.walk(tree) if isinstance(n, ast.Name) and isinstance(n.ctx, ast.Store))
        closed = sorted(x for x in free - bound if not x.startswith('__H') and x not in ('True', 'False', 'None', 'isinstance'))
        want = ['funcs'] if label == 'chain level' else ['BaseResponse', 'endpoint', 'render']
        rep.check('R12.a', 'generated::%s closure' % label, closed == want, 'closes over %s only' % want if closed == want else
                  'generated %s reads free names %s (expected %s)' % (label, closed, want), mod_, node)

    # ---- R12.b -----------------------------------------------------------
    br = route.cls('BoundRoute')
    for name, m in sorted(br.methods.items()):
        if name == '__init__':
            continue
        effs = [e for e in effects.effects_in(m.node) if e.root == 'self']
        rep.check('R12.b', fkey(m), not effs, 'does not write self' if not effs else
                  'BoundRoute.%s writes the shared route object after construction: %s' % (name, [short(e.node) for e in effs]),
                  route, effs[0].node if effs else m.node)
    route_roles = set(k for k, v in ROLE_TABLE.items() if ('clastic.route', 'BoundRoute') in v)
    n = 0
    for m in repo.all_internal_modules():
        for fi2 in m.functions.values():
            for e in effects.effects_in(fi2.node):
                if e.root in route_roles and e.root != 'self' and len(e.chain or []) >= 2:
                    n += 1
                    rep.fail('R12.b', '%s::%s' % (fi2.key, norm(e.node)[:80]),
                             '%s stores through the route-typed name %s: bound routes are shared by all requests' % (fi2.key, e.root), m, e.node)
    rep.ok('R12.b', 'clastic::stores through route-typed names', 'no store through %s (%d found)' % (sorted(route_roles), n))
    rep.floor('R12.b', 6)

    # ---- R12.c -----------------------------------------------------------
    vals = app.assigns.get('_REQ_ID_ITER', [])
    ok = len(vals) == 1 and isinstance(vals[0], ast.Call) and norm(vals[0].func) in ('itertools.count', 'count') and not vals[0].args
    rep.check('R12.c', '%s::_REQ_ID_ITER' % APP, ok, '_REQ_ID_ITER is one module-level itertools.count()' if ok else
              '_REQ_ID_ITER is not a single module-level itertools.count(): %s' % [norm(v) for v in vals], app)
    rebinds = []
    for m in repo.all_internal_modules():
        for n_ in ast.walk(m.tree):
            if isinstance(n_, ast.Global) and '_REQ_ID_ITER' in n_.names:
                rebinds.append((m, n_))
            if isinstance(n_, ast.Attribute) and n_.attr == '_REQ_ID_ITER' and isinstance(n_.ctx, ast.Store):
                rebinds.append((m, n_))
    rep.check('R12.c', 'clastic::_REQ_ID_ITER rebinding', not rebinds, 'the counter is never rebound or reset' if not rebinds else
              'the request-id counter is rebound at %s' % ['%s:%s' % (m.relpath, n_.lineno) for m, n_ in rebinds], app)
    stores = []
    for m in repo.all_internal_modules():
        for fi2 in m.functions.values():
            for s in stmts_of(fi2.node):
                if isinstance(s, ast.Assign) and any(isinstance(t, ast.Attribute) and t.attr == 'request_id' for t in s.targets):
                    stores.append((m, fi2, s))
    ok = len(stores) == 1 and norm(stores[0][2].value) == 'next(_REQ_ID_ITER)' and stores[0][1].qualname == 'Application._dispatch_wsgi'
    rep.check('R12.c', 'clastic::request_id source', ok, 'request_id is assigned once per request from next(_REQ_ID_ITER)' if ok else
              'request_id is assigned from something other than next(_REQ_ID_ITER): %s' % [short(s) for _, _, s in stores], app,
              stores[0][2] if stores else None)
    dw = app.func('Application._dispatch_wsgi')
    g = [s for s in stmts_of(dw.node) if isinstance(s, ast.Assign) and norm(s.targets[0]) == 'request.request_guid']
    ok = len(g) == 1 and norm(g[0].value) == 'int2hexguid(request.request_id)'
    rep.check('R12.c', fkey(dw, 'request_guid'), ok, 'request_guid derives from this request\'s id' if ok else 'request_guid does not derive from request.request_id', app, dw.node)
    rq = [s for s in stmts_of(dw.node) if isinstance(s, ast.Assign) and norm(s.targets[0]) == 'request']
    ok = len(rq) == 1 and norm(rq[0].value) == 'self.request_type(environ)'
    rep.check('R12.c', fkey(dw, 'fresh request'), ok, 'every call builds its own request object from its own environ' if ok else
              'the request object is not freshly built from environ', app, dw.node)

    # ---- R12.d -----------------------------------------------------------
    for fi2 in sorted(middleware_functions(repo), key=lambda f: f.key):
        effs = [e for e in effects.effects_in(fi2.node) if e.root == 'self']
        if fi2.key in SELF_WRITES_TABLE:
            rep.ok('R12.d', fkey(fi2), 'table entry (%d self-writes): %s' % (len(effs), SELF_WRITES_TABLE[fi2.key]), fi2.mod, fi2.node)
            continue
        rep.check('R12.d', fkey(fi2), not effs, 'no per-request write to the shared middleware object' if not effs else
                  'middleware function writes its shared instance per request: %s' % [short(e.node) for e in effs], fi2.mod,
                  effs[0].node if effs else fi2.node)
    rep.floor('R12.d', 9)
