"""C12 -- Concurrent requests on one Application do not interfere.

Static non-interference argument, valid for every schedule: if no function on the request path writes
an object another request can reach, requests cannot influence each other (given the same for user code
and werkzeug, which are assumptions).

Decided:
  R12.a  no shared write on the request path: every store / mutating call in every clastic core function
         reachable from Application.__call__ targets a fresh or request-local object; the generated code
         (chain levels, request core) contains no store except locals and __traceback_hide__ and closes over
         ``funcs`` only;
  R12.b  immutability after construction: BoundRoute attributes are written in __init__ only (no method of
         BoundRoute other than __init__ stores to self; nothing stores through a route-typed name);
         Application.routes only in __init__/add (R06.a);
  R12.c  request ids: request_id is assigned from next(_REQ_ID_ITER) only; _REQ_ID_ITER is a module-level
         itertools.count() that is never rebound or re-created;
  R12.d  built-in middlewares: per-request writes to ``self`` are inventoried (StatsMiddleware counters, by
         design); a new per-request self-write in any other middleware fires.
Declined: interleavings inside werkzeug / user code; anything below the Python level.
"""
import ast
import textwrap

from ..core import AnalysisError, norm, short
from .. import effects, codegen
from ..callgraph import ROLE_TABLE, never_referenced
from . import chain
from .noninterf import RequestPath
from .c08 import check_no_shared_store
from .c15 import middleware_functions
from .common import cfg_of, fkey, stmts_of, walk_body, call_tail, call_name

APP, ROUTE = 'clastic.application', 'clastic.route'
SELF_WRITES_TABLE = {
    'clastic.middleware.stats::StatsMiddleware.request': 'route_hits counters: shared by design (the middleware exists to aggregate across requests)',
}


def _group(rep, fn, *args):
    """One group of rules: "cannot analyse" (also an unexpected shape that trips the rule's own code) is a gap of this
    group, never a crash and never a verdict; the other groups still run."""
    def wrapped():
        try:
            return fn(*args)
        except AnalysisError:
            raise
        except Exception as e:   # a shape the rule did not anticipate
            raise AnalysisError('%s: unexpected construct (%s: %s)' % (fn.__name__, type(e).__name__, e))
    wrapped.__name__ = fn.__name__
    return rep.guard(wrapped)


def run(rep):
    repo = rep.repo
    app, route = repo.mod(APP), repo.mod(ROUTE)
    rep.decide('R12.a no shared write on the request path (incl. generated code); R12.b BoundRoute immutable after '
               'construction; R12.c request-id source; R12.d middleware self-write inventory')
    rep.decline('interleavings inside werkzeug / user code; memory-model questions below the Python level')
    rep.assume('itertools.count.__next__ is a single C call under the GIL')
    rep.assume('user-supplied endpoints / middlewares / renderers and werkzeug do not share state between requests')
    rep.rule('R12.a', 'effect classification over the call-graph closure from Application.__call__; generated code has no heap store')
    rep.rule('R12.b', 'who-may-write BoundRoute attributes')
    rep.rule('R12.c', 'single source of request ids')
    rep.rule('R12.d', 'inventory of per-request self-writes in built-in middlewares')

    rp = RequestPath(repo)
    _group(rep, check_no_shared_store, rep, 'R12.a', rp)
    _group(rep, check_generated_code, rep)
    _group(rep, check_route_immutable, rep, route)
    # ---- R12.c -----------------------------------------------------------
    _group(rep, check_request_ids, rep, rp, app)

    _group(rep, check_middleware_self_writes, rep)


# ---- R12.c: request ids ---------------------------------------------------------------------------------------------
def _is_counter_ctor(v):
    """``itertools.count()`` / ``count()`` without arguments."""
    return isinstance(v, ast.Call) and norm(v.func) in ('itertools.count', 'count') and not v.args and not v.keywords


def _request_id_stores(repo):
    """Every construct in the analysed tree that stores the attribute ``request_id``: (module, FuncInfo or None, statement,
    receiver expr, value expr or None)."""
    out = []
    for m in repo.all_internal_modules():
        owner = {}
        for fi in m.functions.values():
            for n in walk_body(fi.node):
                owner.setdefault(id(n), fi)
        for n in ast.walk(m.tree):
            recv = []
            if isinstance(n, ast.Assign):
                for t0 in n.targets:
                    for t in effects._targets(t0):
                        if isinstance(t, ast.Attribute) and t.attr == 'request_id':
                            recv.append((t.value, n.value if t is t0 else None))
            elif isinstance(n, (ast.AugAssign, ast.AnnAssign)) and isinstance(n.target, ast.Attribute) and n.target.attr == 'request_id':
                recv.append((n.target.value, n.value if isinstance(n, ast.AnnAssign) else None))
            elif isinstance(n, (ast.For, ast.With)):
                tg = [n.target] if isinstance(n, ast.For) else [i.optional_vars for i in n.items if i.optional_vars is not None]
                for t0 in tg:
                    for t in effects._targets(t0):
                        if isinstance(t, ast.Attribute) and t.attr == 'request_id':
                            recv.append((t.value, None))
            elif isinstance(n, ast.Call) and isinstance(n.func, ast.Name) and n.func.id == 'setattr' and len(n.args) == 3 and \
                    isinstance(n.args[1], ast.Constant) and n.args[1].value == 'request_id':
                recv.append((n.args[0], n.args[2]))
            for r, v in recv:
                out.append((m, owner.get(id(n)), n, r, v))
    return out


def _fresh_request_receiver(rp, fi, name, depth=0):
    """Is local / parameter ``name`` of fi the request object this activation of the request path built from its own
    environ?  -> (ok, function that builds it, building statement).  A parameter is followed to every caller."""
    from ..astutil import assigned_value
    if name in fi.params():
        if depth > 3:
            return False, None, None
        idx = fi.params().index(name)
        callers = [e for e in rp.cg.callers(fi) if e.kind in ('call', 'self', 'classattr', 'role', 'cha') and isinstance(e.node, ast.Call)]
        if not callers:
            return False, None, None
        found = None
        for e in callers:
            call = e.node
            static = any(isinstance(d, ast.Name) and d.id == 'staticmethod' for d in fi.node.decorator_list)
            shift = 1 if (fi.cls is not None and not static and isinstance(call.func, ast.Attribute)) else 0
            from ..astutil import argn
            a = argn(call, name, idx - shift if idx - shift >= 0 else None)
            if not isinstance(a, ast.Name):
                return False, None, None
            ok, bf, bs = _fresh_request_receiver(rp, e.caller, a.id, depth + 1)
            if not ok:
                return False, None, None
            found = (bf, bs)
        return True, found[0], found[1]
    vals = assigned_value(fi.node, name)
    if len(vals) != 1:
        return False, None, None
    st, v, idx = vals[0]
    env = [p for p in fi.params() if p not in ('self', 'cls')]
    ok = idx is None and isinstance(v, ast.Call) and norm(v.func) == 'self.request_type' and len(v.args) == 1 and not v.keywords and \
        isinstance(v.args[0], ast.Name) and v.args[0].id in env
    return ok, fi, st


def check_request_ids(rep, rp, app):
    """The judgement is about the request path, not about a function name: the process-wide counter is advanced in exactly
    one place that can run while a request is served, and the value lands on the request object that activation built."""
    repo = rep.repo
    dw = app.func('Application._dispatch_wsgi')
    stores = _request_id_stores(repo)
    live = [s for s in stores if s[1] is None or not never_referenced(repo, s[1])]
    dead = [s for s in stores if s not in live]
    # which counter?
    ctr = None
    if len(live) == 1 and isinstance(live[0][4], ast.Call) and norm(live[0][4].func) == 'next' and len(live[0][4].args) == 1 and \
            isinstance(live[0][4].args[0], ast.Name) and live[0][1] is not None:
        nm = live[0][4].args[0].id
        fi_ = live[0][1]
        shadowed = nm in fi_.params() or any(isinstance(n, ast.Name) and n.id == nm and isinstance(n.ctx, ast.Store) for n in ast.walk(fi_.node))
        kind, cm, obj = repo.resolve(fi_.mod, nm)
        if not shadowed and kind == 'value' and cm is not None and not cm.external:
            ctr = (nm, cm, obj)
    cname, cmod = (ctr[0], ctr[1]) if ctr else ('_REQ_ID_ITER', app)
    vals = cmod.assigns.get(cname, [])
    ok = len(vals) == 1 and _is_counter_ctor(vals[0])
    rep.check('R12.c', '%s::_REQ_ID_ITER' % APP, ok, '%s is one module-level itertools.count()' % cname if ok else
              '%s is not a single module-level itertools.count(): %s' % (cname, [norm(v) if v is not None else '?' for v in vals]), cmod)
    rebinds = []
    for m in repo.all_internal_modules():
        for n_ in ast.walk(m.tree):
            if isinstance(n_, ast.Global) and cname in n_.names:
                rebinds.append((m, n_))
            if isinstance(n_, ast.Attribute) and n_.attr == cname and isinstance(n_.ctx, (ast.Store, ast.Del)):
                rebinds.append((m, n_))
            if isinstance(n_, ast.Call) and isinstance(n_.func, ast.Name) and n_.func.id in ('setattr', 'delattr') and len(n_.args) >= 2 and \
                    isinstance(n_.args[1], ast.Constant) and n_.args[1].value == cname:
                rebinds.append((m, n_))
    rep.check('R12.c', 'clastic::_REQ_ID_ITER rebinding', not rebinds, 'the counter is never rebound or reset' if not rebinds else
              'the request-id counter is rebound at %s' % ['%s:%s' % (m.relpath, n_.lineno) for m, n_ in rebinds], app)
    on_path = len(live) == 1 and live[0][1] is not None and live[0][1] in rp.reach
    ok = ctr is not None and on_path
    rep.check('R12.c', 'clastic::request_id source', ok,
              'request_id is assigned in one place on the request path (%s), from next(%s)%s' %
              (live[0][1].qualname, cname, '; %d further store(s) only in functions nothing refers to' % len(dead) if dead else '') if ok else
              'request_id is assigned from something other than next(_REQ_ID_ITER) in exactly one place on the request path: %s'
              % ['%s: %s' % (f.qualname if f is not None else m.name, short(s)) for m, f, s, _, _ in live], app,
              live[0][2] if live else None)
    if not live:
        return
    sfi = live[0][1] if on_path else dw
    recvs = sorted(set(norm(s[3]) for s in live if s[1] is sfi and isinstance(s[3], ast.Name)))
    rq = recvs[0] if len(recvs) == 1 else 'request'
    gs = [s for s in stmts_of(sfi.node) if isinstance(s, ast.Assign) and any(isinstance(t, ast.Attribute) and t.attr == 'request_guid' for t in s.targets)]
    ok = len(gs) == 1 and len(gs[0].targets) == 1 and norm(gs[0].targets[0].value) == rq and isinstance(gs[0].value, ast.Call) and \
        call_name(gs[0].value) == 'int2hexguid' and [norm(a) for a in gs[0].value.args] == ['%s.request_id' % rq] and not gs[0].value.keywords
    rep.check('R12.c', fkey(sfi, 'request_guid'), ok, 'request_guid derives from this request\'s id' if ok else
              'request_guid does not derive from %s.request_id' % rq, sfi.mod, gs[0] if gs else sfi.node)
    ok, bf, bs = _fresh_request_receiver(rp, sfi, rq)
    rep.check('R12.c', fkey(sfi, 'fresh request'), ok, 'every call builds its own request object from its own environ' if ok else
              'the request object that receives the id is not freshly built from this call\'s environ', sfi.mod, bs if bs is not None else sfi.node)


def _env_keys(fi, call, callee):
    """Names the generated code is executed with: keys of the ``env`` mapping handed to compile_code (a dict display or
    ``dict(k=v)``, possibly named by a single-assignment local) -- None when not resolvable."""
    from ..astutil import argn, assigned_value
    ps = callee.params()
    e = argn(call, 'env', ps.index('env') if 'env' in ps else None)
    if isinstance(e, ast.Name) and e.id not in fi.params():
        vals = assigned_value(fi.node, e.id)
        if len(vals) != 1 or vals[0][2] is not None:
            return None
        if any(ef.root == e.id for ef in effects.effects_in(fi.node)):
            return None
        e = vals[0][1]
    if isinstance(e, ast.Dict) and all(isinstance(k, ast.Constant) and isinstance(k.value, str) for k in e.keys):
        return sorted(k.value for k in e.keys)
    if isinstance(e, ast.Call) and isinstance(e.func, ast.Name) and e.func.id == 'dict' and not e.args and all(k.arg for k in e.keywords):
        return sorted(k.arg for k in e.keywords)
    return None


def _judge_generated(rep, label, text, env, mod_, node, how):
    try:
        tree = ast.parse(textwrap.dedent(text))
    except SyntaxError as e:
        raise AnalysisError('generated %s does not parse: %s' % (label, e))
    # the sample must be what the rule is about: a function definition that calls out; otherwise the template
    # was not understood (which is not a verdict on the generated code)
    defs = [n for n in tree.body if isinstance(n, ast.FunctionDef)]
    if len(defs) != 1 or len(tree.body) != 1 or not any(isinstance(n, ast.Return) for n in ast.walk(defs[0])):
        raise AnalysisError('generated %s: the rendered sample is not a single function definition (template not understood)' % label)
    bad = []
    for n in ast.walk(tree):
        if isinstance(n, (ast.Global, ast.Nonlocal)):
            bad.append(norm(n))
        if isinstance(n, (ast.Attribute, ast.Subscript)) and isinstance(n.ctx, (ast.Store, ast.Del)):
            bad.append(norm(n))
        if isinstance(n, ast.Call) and isinstance(n.func, ast.Attribute) and n.func.attr in effects.MUTATORS:
            bad.append(norm(n))
    rep.check('R12.a', 'generated::%s' % label, not bad,
              'generated %s stores only into locals; per-request values live in call frames (%s)' % (label, how) if not bad else
              'generated %s contains a heap store / global: %s' % (label, bad), mod_, node)
    free = set()
    for n in ast.walk(tree):
        if isinstance(n, ast.Name) and isinstance(n.ctx, ast.Load):
            free.add(n.id)
    bound = set(a.arg for f_ in ast.walk(tree) if isinstance(f_, ast.FunctionDef) for a in f_.args.args) | \
        set(f_.name for f_ in ast.walk(tree) if isinstance(f_, ast.FunctionDef)) | \
        set(n.id for n in ast.walk(tree) if isinstance(n, ast.Name) and isinstance(n.ctx, ast.Store))
    closed = sorted(x for x in free - bound if not x.startswith('__H') and x not in ('True', 'False', 'None', 'isinstance'))
    # the names it may read are exactly the per-chain objects it is executed with (fixed at construction)
    want = env if env is not None else (['funcs'] if label == 'chain level' else ['BaseResponse', 'endpoint', 'render'])
    rep.check('R12.a', 'generated::%s closure' % label, closed == want, 'closes over %s only' % want if closed == want else
              'generated %s reads free names %s (expected %s)' % (label, closed, want), mod_, node)


def check_generated_code(rep):
    from ..astutil import argn
    repo = rep.repo
    sinter = repo.mod('clastic.sinter')
    compile_code = sinter.func('compile_code')
    cps = compile_code.params()
    core = repo.mod('clastic.middleware.core')
    ci = core.func('_create_request_inner')

    def via_template(label):
        """-> (text, env keys, module, node): the text as a template rendered with placeholder identifiers"""
        if label == 'chain level':
            fi, te, parts, stop, main = chain.analyse_level_template(repo)
            r, text = chain._render_level(repo, fi, parts, 0)
            # the environment the chain text is executed in: the compile_code call of the function that builds the text
            env = None
            for f2 in sinter.functions.values():
                calls = [c for c in walk_body(f2.node) if isinstance(c, ast.Call)]
                if any(call_name(c) == fi.name for c in calls) and f2 is not fi:
                    for c in calls:
                        if call_name(c) == 'compile_code':
                            env = _env_keys(f2, c, compile_code)
            mod_, node = fi.mod, main
        else:
            ccs = [c for c in walk_body(ci.node) if isinstance(c, ast.Call) and call_name(c) == 'compile_code']
            if len(ccs) != 1:
                raise AnalysisError('_create_request_inner: expected one compile_code call, found %d' % len(ccs))
            src = argn(ccs[0], cps[0], 0)
            if src is None:
                raise AnalysisError('_create_request_inner: the code argument of compile_code not found')
            r = codegen.render(codegen.TemplateEval(repo, ci).ev(src, ccs[0].lineno))
            text = r.text
            env = _env_keys(ci, ccs[0], compile_code)
            mod_, node = core, ccs[0]
        opaque = [h for h in r.holes.values() if isinstance(h, codegen.Sym) and h.kind == 'expr']
        if opaque:
            raise AnalysisError('generated %s: part of the text is built in a way the template evaluator cannot follow (%s)'
                                % (label, short(opaque[0].expr)))
        tree = None
        try:
            tree = ast.parse(textwrap.dedent(text))
        except SyntaxError as e:
            raise AnalysisError('generated %s does not parse: %s' % (label, e))
        if len(tree.body) != 1 or not isinstance(tree.body[0], ast.FunctionDef):
            raise AnalysisError('generated %s: the rendered sample is not a single function definition (template not understood)' % label)
        return text, env, mod_, node

    for label in ('chain level', 'request core'):
        try:
            text, env, mod_, node = via_template(label)
            how = 'template rendered with placeholder names'
        except AnalysisError as e1:
            try:
                text, env, mod_, node = sample_generated(repo, label)
                how = 'text produced for sample inputs, every text-producing statement of the builder covered'
            except AnalysisError as e2:
                raise AnalysisError('%s; and the builder could not be run on sample inputs either: %s' % (e1, e2))
        _judge_generated(rep, label, text, env, mod_, node, how)


def sample_generated(repo, label):
    """-> (text, env keys, module, node): the text the builder hands to compile_code for sample inputs (see SampleRun)"""
    sinter = repo.mod('clastic.sinter')
    cps = sinter.func('compile_code').params()
    o = lambda n, names: _Opaque(n, names)
    if label == 'chain level':
        fn = sinter.func('compile_chain')
        args = {'funcs': [o('f0', ['next', 'a', 'q']), o('f1', ['next', 'b', 'a']), o('f2', ['a', 'b', 'c', 'd'])],
                'params': [['a'], ['b'], ['c', 'd']], 'inner_name': 'next'}
    else:
        fn = repo.mod('clastic.middleware.core').func('_create_request_inner')
        args = {'endpoint': o('endpoint', ['a']), 'render': o('render', ['b', 'context']), 'all_args': ['a', 'b'],
                'endpoint_args': ['a'], 'render_args': ['b', 'context']}
    run = SampleRun(repo, 'compile_code')
    got = run.capture(fn, args)
    bound = dict(zip(cps, got[0]))
    bound.update(got[1])
    text, env = bound.get(cps[0]), bound.get('env')
    if not isinstance(text, str) or not isinstance(env, dict) or not all(isinstance(k, str) for k in env):
        raise AnalysisError('generated %s: compile_code is not handed a text and a name->object mapping on the sample run' % label)
    run.require_coverage()
    return text, sorted(env), fn.mod, fn.node


# ---- following a text builder by running it on sample inputs -----------------------------------------------------------
class _Opaque(object):
    """A value the builder only passes around (a callable of the chain, an imported class)."""

    def __init__(self, label, arg_names=None):
        self.label, self.arg_names = label, arg_names

    def __repr__(self):
        return '<%s>' % self.label


class _FB(object):
    """Model of sinter.get_fb(f): what the builders use of a FunctionBuilder."""

    def __init__(self, f):
        if not isinstance(f, _Opaque) or f.arg_names is None:
            raise AnalysisError('get_fb() applied to %r on the sample run' % (f,))
        self.f = f
        self.varkw = None

    def get_arg_names(self, only_required=False):
        return list(self.f.arg_names)

    def get_defaults_dict(self):
        return {}


class _Captured(Exception):
    def __init__(self, args, kwargs):
        Exception.__init__(self)
        self.call = (args, kwargs)


class _Flow(Exception):
    def __init__(self, value=None):
        Exception.__init__(self)
        self.value = value


class _Return(_Flow):
    pass


class _Break(_Flow):
    pass


class _Continue(_Flow):
    pass


class SampleRun(object):
    """Interpreter for the side-effect-free subset of Python the text builders are written in (strings, numbers, lists,
    tuples, sets, dicts; loops, comprehensions, recursion, helper functions of the same module), applied to the *syntax
    tree* of the analysed functions with sample arguments.  The run stops at the call of ``stop_at`` and yields its
    arguments.  Anything outside the subset is an AnalysisError.  ``require_coverage`` then demands that every statement
    of the interpreted functions that can contribute text was executed, so no fragment of generated code stays unseen."""

    PLAIN = (str, int, float, bool, type(None), list, tuple, set, frozenset, dict, bytes)
    BUILTINS = {'len': len, 'range': lambda *a: list(range(*a)), 'sorted': sorted, 'set': set, 'list': list, 'tuple': tuple, 'dict': dict,
                'zip': lambda *a: list(zip(*a)), 'enumerate': lambda *a: list(enumerate(*a)), 'reversed': lambda x: list(reversed(x)),
                'str': str, 'repr': repr, 'min': min, 'max': max, 'any': any, 'all': all, 'bool': bool, 'int': int,
                'frozenset': frozenset, 'sum': sum, 'print': lambda *a, **k: None}
    METHODS = {
        str: {'join', 'format', 'strip', 'lstrip', 'rstrip', 'split', 'rsplit', 'startswith', 'endswith', 'replace', 'upper', 'lower',
              'splitlines', 'partition', 'rpartition', 'title', 'zfill', 'ljust', 'rjust', 'center', 'count', 'find', 'index', 'isdigit',
              'isidentifier', 'expandtabs', 'capitalize'},
        list: {'append', 'extend', 'insert', 'pop', 'index', 'count', 'copy', 'reverse', 'sort', 'remove', 'clear'},
        tuple: {'index', 'count'},
        set: {'add', 'update', 'discard', 'remove', 'union', 'difference', 'intersection', 'copy', 'issubset', 'issuperset',
              'difference_update', 'intersection_update', 'symmetric_difference', 'isdisjoint', 'clear', 'pop'},
        frozenset: {'union', 'difference', 'intersection', 'copy', 'issubset', 'issuperset', 'symmetric_difference', 'isdisjoint'},
        dict: {'get', 'items', 'keys', 'values', 'update', 'setdefault', 'pop', 'copy', 'clear'},
    }
    MODELLED = {'get_fb': lambda f, *a, **k: _FB(f), 'get_arg_names': lambda f, *a, **k: _FB(f).get_arg_names()}
    BINOPS = {ast.Add: lambda a, b: a + b, ast.Sub: lambda a, b: a - b, ast.Mult: lambda a, b: a * b, ast.Mod: lambda a, b: a % b,
              ast.BitOr: lambda a, b: a | b, ast.BitAnd: lambda a, b: a & b, ast.BitXor: lambda a, b: a ^ b, ast.FloorDiv: lambda a, b: a // b}
    CMPOPS = {ast.Eq: lambda a, b: a == b, ast.NotEq: lambda a, b: a != b, ast.Lt: lambda a, b: a < b, ast.LtE: lambda a, b: a <= b,
              ast.Gt: lambda a, b: a > b, ast.GtE: lambda a, b: a >= b, ast.Is: lambda a, b: a is b, ast.IsNot: lambda a, b: a is not b,
              ast.In: lambda a, b: a in b, ast.NotIn: lambda a, b: a not in b}

    def __init__(self, repo, stop_at, budget=40000):
        self.repo, self.stop_at, self.budget = repo, stop_at, budget
        self.executed = set()
        self.seen = []

    # -- driver
    def capture(self, fi, args):
        ps = fi.params()
        missing = [k for k in args if k not in ps]
        if missing:
            raise AnalysisError('%s has no parameter(s) %s' % (fi.qualname, missing))
        try:
            self.call_function(fi, [], dict(args), 0)
        except _Captured as c:
            return c.call
        except AnalysisError:
            raise
        except RecursionError:
            raise AnalysisError('%s: sample run recursed too deep' % fi.qualname)
        except Exception as e:
            raise AnalysisError('%s: sample run failed (%s: %s)' % (fi.qualname, type(e).__name__, e))
        raise AnalysisError('%s: sample run finished without calling %s' % (fi.qualname, self.stop_at))

    def require_coverage(self):
        for fi in self.seen:
            body = list(fi.node.body)
            doc = body[0] if body and isinstance(body[0], ast.Expr) and isinstance(body[0].value, ast.Constant) else None
            for st in stmts_of(fi.node):
                if st is doc or id(st) in self.executed or not isinstance(st, (ast.Assign, ast.AugAssign, ast.AnnAssign, ast.Expr, ast.Return)):
                    continue
                if any(isinstance(n, ast.Constant) and isinstance(n.value, str) and n.value.strip() for n in ast.walk(st)) or \
                        any(isinstance(n, ast.JoinedStr) for n in ast.walk(st)):
                    raise AnalysisError('%s: line %d can contribute text but was not reached on the sample run' % (fi.qualname, st.lineno))

    def tick(self):
        self.budget -= 1
        if self.budget < 0:
            raise AnalysisError('sample run exceeded its step budget')

    def plain(self, v):
        if isinstance(v, self.PLAIN) or isinstance(v, (_Opaque, _FB)):
            return v
        raise AnalysisError('sample run produced a value outside the modelled types: %r' % type(v).__name__)

    # -- functions
    def call_function(self, fi, pos, kw, depth):
        if depth > 40:
            raise AnalysisError('%s: sample run recursed too deep' % fi.qualname)
        a = fi.node.args
        if fi.node.decorator_list or a.vararg or a.kwarg or a.posonlyargs or any(isinstance(n, (ast.Yield, ast.YieldFrom, ast.Await)) for n in ast.walk(fi.node)):
            raise AnalysisError('%s: not a plain function' % fi.qualname)
        names = [x.arg for x in a.args]
        if len(pos) > len(names):
            raise AnalysisError('%s: too many arguments on the sample run' % fi.qualname)
        env = dict(zip(names, pos))
        for k, v in kw.items():
            if k in env or k not in names + [x.arg for x in a.kwonlyargs]:
                raise AnalysisError('%s: bad keyword %s on the sample run' % (fi.qualname, k))
            env[k] = v
        defaults = dict(zip(names[len(names) - len(a.defaults):], a.defaults))
        for x, d in zip(a.kwonlyargs, a.kw_defaults):
            if d is not None:
                defaults[x.arg] = d
        for n in names + [x.arg for x in a.kwonlyargs]:
            if n not in env:
                if n not in defaults:
                    raise AnalysisError('%s: parameter %s unbound on the sample run' % (fi.qualname, n))
                env[n] = self.ev(defaults[n], {}, fi, depth)
        if fi not in self.seen:
            self.seen.append(fi)
        try:
            self.block(fi.node.body, env, fi, depth)
        except _Return as r:
            return r.value
        return None

    # -- statements
    def block(self, stmts, env, fi, depth):
        for st in stmts:
            self.tick()
            self.executed.add(id(st))
            if isinstance(st, ast.Expr):
                self.ev(st.value, env, fi, depth)
            elif isinstance(st, ast.Assign):
                v = self.ev(st.value, env, fi, depth)
                for t in st.targets:
                    self.store(t, v, env, fi, depth)
            elif isinstance(st, ast.AnnAssign):
                if st.value is not None:
                    self.store(st.target, self.ev(st.value, env, fi, depth), env, fi, depth)
            elif isinstance(st, ast.AugAssign):
                if type(st.op) not in self.BINOPS:
                    raise AnalysisError('line %d: operator not modelled' % st.lineno)
                cur = self.ev(self._as_load(st.target), env, fi, depth)
                new = self.ev(st.value, env, fi, depth)
                if isinstance(cur, (list, set, dict)) and isinstance(st.op, (ast.Add, ast.BitOr, ast.BitAnd, ast.Sub)):
                    # in-place operators of mutable containers keep the object's identity
                    if isinstance(cur, list) and isinstance(st.op, ast.Add):
                        cur.extend(new)
                    elif isinstance(cur, set) and isinstance(st.op, ast.BitOr):
                        cur |= new
                    elif isinstance(cur, set) and isinstance(st.op, ast.BitAnd):
                        cur &= new
                    elif isinstance(cur, set) and isinstance(st.op, ast.Sub):
                        cur -= new
                    else:
                        raise AnalysisError('line %d: in-place operator not modelled' % st.lineno)
                    self.store(st.target, cur, env, fi, depth)
                else:
                    self.store(st.target, self.plain(self.BINOPS[type(st.op)](cur, new)), env, fi, depth)
            elif isinstance(st, ast.If):
                self.block(st.body if self.ev(st.test, env, fi, depth) else st.orelse, env, fi, depth)
            elif isinstance(st, ast.For):
                it = self.ev(st.iter, env, fi, depth)
                if not isinstance(it, (list, tuple, set, frozenset, dict, str)):
                    raise AnalysisError('line %d: loop over a value of type %s' % (st.lineno, type(it).__name__))
                broke = False
                for x in list(it):
                    self.store(st.target, x, env, fi, depth)
                    try:
                        self.block(st.body, env, fi, depth)
                    except _Break:
                        broke = True
                        break
                    except _Continue:
                        continue
                if not broke:
                    self.block(st.orelse, env, fi, depth)
            elif isinstance(st, ast.While):
                broke = False
                while self.ev(st.test, env, fi, depth):
                    self.tick()
                    try:
                        self.block(st.body, env, fi, depth)
                    except _Break:
                        broke = True
                        break
                    except _Continue:
                        continue
                if not broke:
                    self.block(st.orelse, env, fi, depth)
            elif isinstance(st, ast.Return):
                raise _Return(self.ev(st.value, env, fi, depth) if st.value is not None else None)
            elif isinstance(st, ast.Break):
                raise _Break()
            elif isinstance(st, ast.Continue):
                raise _Continue()
            elif isinstance(st, (ast.Pass, ast.Assert)):
                pass
            else:
                raise AnalysisError('%s line %d: %s is outside the modelled subset' % (fi.qualname, st.lineno, type(st).__name__))

    @staticmethod
    def _as_load(t):
        import copy
        t2 = copy.deepcopy(t)
        for n in ast.walk(t2):
            if hasattr(n, 'ctx'):
                n.ctx = ast.Load()
        return t2

    def store(self, t, v, env, fi, depth):
        if isinstance(t, ast.Name):
            env[t.id] = v
        elif isinstance(t, (ast.Tuple, ast.List)):
            vs = list(v)
            star = [i for i, e in enumerate(t.elts) if isinstance(e, ast.Starred)]
            if star:
                i = star[0]
                after = len(t.elts) - i - 1
                if len(vs) < len(t.elts) - 1:
                    raise AnalysisError('line %d: not enough values to unpack' % t.lineno)
                parts = vs[:i] + [vs[i:len(vs) - after]] + vs[len(vs) - after:]
                for e, x in zip(t.elts, parts):
                    self.store(e.value if isinstance(e, ast.Starred) else e, x, env, fi, depth)
            else:
                if len(vs) != len(t.elts):
                    raise AnalysisError('line %d: unpacking %d values into %d targets' % (t.lineno, len(vs), len(t.elts)))
                for e, x in zip(t.elts, vs):
                    self.store(e, x, env, fi, depth)
        elif isinstance(t, ast.Subscript) and not isinstance(t.slice, ast.Slice):
            c = self.ev(t.value, env, fi, depth)
            if not isinstance(c, (list, dict)):
                raise AnalysisError('line %d: item store into %s' % (t.lineno, type(c).__name__))
            c[self.ev(t.slice, env, fi, depth)] = v
        else:
            raise AnalysisError('line %d: store target outside the modelled subset' % t.lineno)

    # -- expressions
    def lookup(self, name, env, fi):
        if name in env:
            return env[name]
        if name in self.MODELLED:
            return ('model', name)
        kind, m, obj = self.repo.resolve(fi.mod, name)
        if kind == 'func':
            if obj.name == self.stop_at:
                return ('stop', obj)
            if m is not None and not m.external:
                return ('func', obj)
        if kind == 'value' and m is not None:
            try:
                return self.plain(self.repo.fold(ast.Name(id=name, ctx=ast.Load()), m))
            except AnalysisError:
                raise
            except Exception:
                raise AnalysisError('module-level name %s has no constant value' % name)
        if name in self.BUILTINS:
            return ('builtin', name)
        if kind in ('class', 'external', 'module') or name in fi.mod.imports or name in fi.mod.classes:
            return _Opaque(name)
        raise AnalysisError('name %s cannot be resolved on the sample run' % name)

    def comp(self, gens, env, fi, depth, emit):
        def rec(i, scope):
            if i == len(gens):
                emit(scope)
                return
            g = gens[i]
            if g.is_async:
                raise AnalysisError('async comprehension')
            it = self.ev(g.iter, scope, fi, depth)
            if not isinstance(it, (list, tuple, set, frozenset, dict, str)):
                raise AnalysisError('comprehension over a value of type %s' % type(it).__name__)
            for x in list(it):
                self.tick()
                sc = dict(scope)
                self.store(g.target, x, sc, fi, depth)
                if all(self.ev(c, sc, fi, depth) for c in g.ifs):
                    rec(i + 1, sc)
        rec(0, dict(env))

    def args_of(self, call, env, fi, depth):
        pos, kw = [], {}
        for a in call.args:
            if isinstance(a, ast.Starred):
                pos.extend(list(self.ev(a.value, env, fi, depth)))
            else:
                pos.append(self.ev(a, env, fi, depth))
        for k in call.keywords:
            if k.arg is None:
                d = self.ev(k.value, env, fi, depth)
                if not isinstance(d, dict):
                    raise AnalysisError('** of a non-dict on the sample run')
                kw.update(d)
            else:
                kw[k.arg] = self.ev(k.value, env, fi, depth)
        return pos, kw

    def ev(self, e, env, fi, depth):
        self.tick()
        if isinstance(e, ast.Constant):
            return self.plain(e.value)
        if isinstance(e, ast.Name):
            v = self.lookup(e.id, env, fi)
            if isinstance(v, tuple) and len(v) == 2 and v[0] in ('model', 'stop', 'func', 'builtin'):
                raise AnalysisError('line %d: function %s used as a value' % (e.lineno, e.id))
            return v
        if isinstance(e, ast.JoinedStr):
            out = []
            for v in e.values:
                if isinstance(v, ast.Constant):
                    out.append(str(v.value))
                else:
                    x = self.ev(v.value, env, fi, depth)
                    if v.conversion == ord('r'):
                        x = repr(x)
                    elif v.conversion == ord('s'):
                        x = str(x)
                    spec = self.ev(v.format_spec, env, fi, depth) if v.format_spec is not None else ''
                    out.append(format(x, spec))
            return ''.join(out)
        if isinstance(e, (ast.List, ast.Tuple, ast.Set)):
            items = []
            for x in e.elts:
                if isinstance(x, ast.Starred):
                    items.extend(list(self.ev(x.value, env, fi, depth)))
                else:
                    items.append(self.ev(x, env, fi, depth))
            return list(items) if isinstance(e, ast.List) else (tuple(items) if isinstance(e, ast.Tuple) else set(items))
        if isinstance(e, ast.Dict):
            d = {}
            for k, v in zip(e.keys, e.values):
                if k is None:
                    d.update(self.ev(v, env, fi, depth))
                else:
                    d[self.ev(k, env, fi, depth)] = self.ev(v, env, fi, depth)
            return d
        if isinstance(e, (ast.ListComp, ast.SetComp, ast.GeneratorExp)):
            out = []
            self.comp(e.generators, env, fi, depth, lambda sc: out.append(self.ev(e.elt, sc, fi, depth)))
            return set(out) if isinstance(e, ast.SetComp) else out
        if isinstance(e, ast.DictComp):
            d = {}

            def put(sc):
                d[self.ev(e.key, sc, fi, depth)] = self.ev(e.value, sc, fi, depth)
            self.comp(e.generators, env, fi, depth, put)
            return d
        if isinstance(e, ast.BinOp):
            if type(e.op) not in self.BINOPS:
                raise AnalysisError('line %d: operator not modelled' % e.lineno)
            l, r = self.ev(e.left, env, fi, depth), self.ev(e.right, env, fi, depth)
            if not isinstance(l, self.PLAIN) or not isinstance(r, self.PLAIN):
                raise AnalysisError('line %d: operator applied to an opaque value' % e.lineno)
            if isinstance(e.op, ast.Mult) and ((isinstance(l, int) and l > 200) or (isinstance(r, int) and r > 200)):
                raise AnalysisError('line %d: repetition count too large on the sample run' % e.lineno)
            return self.plain(self.BINOPS[type(e.op)](l, r))
        if isinstance(e, ast.UnaryOp):
            v = self.ev(e.operand, env, fi, depth)
            if isinstance(e.op, ast.Not):
                return not v
            if isinstance(e.op, ast.USub) and isinstance(v, (int, float)):
                return -v
            raise AnalysisError('line %d: unary operator not modelled' % e.lineno)
        if isinstance(e, ast.BoolOp):
            v = None
            for x in e.values:
                v = self.ev(x, env, fi, depth)
                if (isinstance(e.op, ast.And) and not v) or (isinstance(e.op, ast.Or) and v):
                    return v
            return v
        if isinstance(e, ast.Compare):
            l = self.ev(e.left, env, fi, depth)
            for op, c in zip(e.ops, e.comparators):
                r = self.ev(c, env, fi, depth)
                if not self.CMPOPS[type(op)](l, r):
                    return False
                l = r
            return True
        if isinstance(e, ast.IfExp):
            return self.ev(e.body if self.ev(e.test, env, fi, depth) else e.orelse, env, fi, depth)
        if isinstance(e, ast.Subscript):
            c = self.ev(e.value, env, fi, depth)
            if not isinstance(c, (str, list, tuple, dict)):
                raise AnalysisError('line %d: subscript of %s' % (e.lineno, type(c).__name__))
            if isinstance(e.slice, ast.Slice):
                f = lambda x: self.ev(x, env, fi, depth) if x is not None else None
                return c[slice(f(e.slice.lower), f(e.slice.upper), f(e.slice.step))]
            return self.plain(c[self.ev(e.slice, env, fi, depth)])
        if isinstance(e, ast.Attribute):
            c = self.ev(e.value, env, fi, depth)
            if isinstance(c, _FB) and e.attr == 'varkw':
                return c.varkw
            raise AnalysisError('line %d: attribute .%s read on the sample run' % (e.lineno, e.attr))
        if isinstance(e, ast.Call):
            return self.call(e, env, fi, depth)
        raise AnalysisError('line %d: %s is outside the modelled subset' % (getattr(e, 'lineno', 0), type(e).__name__))

    def call(self, e, env, fi, depth):
        f = e.func
        if isinstance(f, ast.Name):
            tgt = self.lookup(f.id, env, fi)
            pos, kw = self.args_of(e, env, fi, depth)
            if isinstance(tgt, tuple) and tgt[0] == 'stop':
                raise _Captured(pos, kw)
            if isinstance(tgt, tuple) and tgt[0] == 'model':
                return self.MODELLED[tgt[1]](*pos, **kw)
            if isinstance(tgt, tuple) and tgt[0] == 'func':
                return self.call_function(tgt[1], pos, kw, depth + 1)
            if isinstance(tgt, tuple) and tgt[0] == 'builtin':
                if any(isinstance(x, (_Opaque, _FB)) for x in pos) and tgt[1] not in ('repr', 'str', 'list', 'tuple', 'len', 'bool'):
                    raise AnalysisError('line %d: %s applied to an opaque value' % (e.lineno, tgt[1]))
                if 'key' in kw:
                    raise AnalysisError('line %d: key functions are not modelled' % e.lineno)
                v = self.BUILTINS[tgt[1]](*pos, **kw)
                return self.plain(v)
            raise AnalysisError('line %d: call of the value %s' % (e.lineno, f.id))
        if isinstance(f, ast.Attribute):
            dn = None
            x, parts = f, []
            while isinstance(x, ast.Attribute):
                parts.append(x.attr)
                x = x.value
            if isinstance(x, ast.Name) and x.id not in env:
                dn = '.'.join([x.id] + parts[::-1])
            if dn in ('itertools.chain.from_iterable', 'chain.from_iterable') and (dn.split('.')[0] in fi.mod.imports):
                pos, kw = self.args_of(e, env, fi, depth)
                return [y for sub in pos[0] for y in sub]
            if dn in ('itertools.chain',) and 'itertools' in fi.mod.imports:
                pos, kw = self.args_of(e, env, fi, depth)
                return [y for sub in pos for y in sub]
            recv = self.ev(f.value, env, fi, depth)
            pos, kw = self.args_of(e, env, fi, depth)
            if isinstance(recv, _FB) and f.attr in ('get_arg_names', 'get_defaults_dict'):
                return getattr(recv, f.attr)(*pos, **kw)
            for ty, ok in self.METHODS.items():
                if type(recv) is ty and f.attr in ok:
                    if 'key' in kw:
                        raise AnalysisError('line %d: key functions are not modelled' % e.lineno)
                    v = getattr(recv, f.attr)(*pos, **kw)
                    if f.attr in ('items', 'keys', 'values'):
                        v = list(v)
                    return self.plain(v)
            raise AnalysisError('line %d: method .%s of %s is not modelled' % (e.lineno, f.attr, type(recv).__name__))
        raise AnalysisError('line %d: call form outside the modelled subset' % e.lineno)


def _construction_only_methods(repo, ci):
    """Private methods of the class that can only run while ``__init__`` runs: every occurrence of the name anywhere in
    the analysed tree is the callee of a ``self.<name>(...)`` call located in ``__init__`` of the class or in another
    method of this set (and the name is not overridden / re-bound).  Such a method is a piece of the constructor."""
    cand = set(n for n in ci.methods if n.startswith('_') and not (n.startswith('__') and n.endswith('__')))
    uses = dict((n, []) for n in cand)          # name -> [(module, enclosing function node, is a self-call)]
    for m in repo.all_internal_modules():
        for node in ast.walk(m.tree):
            nm = None
            if isinstance(node, ast.Attribute) and node.attr in cand:
                nm = node.attr
                par = m.parents.get(node)
                selfcall = isinstance(par, ast.Call) and par.func is node and isinstance(node.value, ast.Name) and node.value.id == 'self' \
                    and isinstance(node.ctx, ast.Load)
                uses[nm].append((m, m.enclosing_function(node), selfcall))
            elif isinstance(node, ast.Name) and node.id in cand:
                uses[node.id].append((m, None, False))
            elif isinstance(node, ast.Constant) and isinstance(node.value, str) and node.value in cand:
                uses[node.value].append((m, None, False))
            elif isinstance(node, (ast.FunctionDef, ast.AsyncFunctionDef)) and node.name in cand and node is not ci.methods[node.name].node:
                uses[node.name].append((m, None, False))      # another definition of the name (override / namesake)
    ok = set(n for n in cand if uses[n] and all(sc for _, _, sc in uses[n]))
    changed = True
    while changed:
        changed = False
        allowed = set([ci.methods['__init__'].node] if '__init__' in ci.methods else []) | set(ci.methods[n].node for n in ok)
        for n in sorted(ok):
            if not all(m is ci.mod and fn in allowed for m, fn, _ in uses[n]):
                ok.discard(n)
                changed = True
    return ok


def check_route_immutable(rep, route):
    repo = rep.repo
    # ---- R12.b -----------------------------------------------------------
    br = route.cls('BoundRoute')
    ctor_only = _construction_only_methods(repo, br)
    for name, m in sorted(br.methods.items()):
        if name == '__init__':
            continue
        effs = [e for e in effects.effects_in(m.node) if e.root == 'self']
        if effs and name in ctor_only:
            rep.ok('R12.b', fkey(m), 'writes self, but is a private part of the constructor: every mention of %s in the analysed tree is a '
                                     'self.%s(...) call from __init__ (or from another such part)' % (name, name), route, m.node)
            continue
        rep.check('R12.b', fkey(m), not effs, 'does not write self' if not effs else
                  'BoundRoute.%s writes the shared route object after construction: %s' % (name, [short(e.node) for e in effs]),
                  route, effs[0].node if effs else m.node)
    route_roles = set(k for k, v in ROLE_TABLE.items() if ('clastic.route', 'BoundRoute') in v)
    n = 0
    for m in repo.all_internal_modules():
        for fi2 in m.functions.values():
            for e in effects.effects_in(fi2.node):
                if e.root in route_roles and e.root != 'self' and len(e.chain or []) >= 2:
                    n += 1
                    rep.fail('R12.b', '%s::%s' % (fi2.key, norm(e.node)[:80]),
                             '%s stores through the route-typed name %s: bound routes are shared by all requests' % (fi2.key, e.root), m, e.node)
    rep.ok('R12.b', 'clastic::stores through route-typed names', 'no store through %s (%d found)' % (sorted(route_roles), n))
    rep.floor('R12.b', 6)



def check_middleware_self_writes(rep):
    repo = rep.repo
    # ---- R12.d -----------------------------------------------------------
    for fi2 in sorted(middleware_functions(repo), key=lambda f: f.key):
        effs = [e for e in effects.effects_in(fi2.node) if e.root == 'self']
        if fi2.key in SELF_WRITES_TABLE:
            rep.ok('R12.d', fkey(fi2), 'table entry (%d self-writes): %s' % (len(effs), SELF_WRITES_TABLE[fi2.key]), fi2.mod, fi2.node)
            continue
        rep.check('R12.d', fkey(fi2), not effs, 'no per-request write to the shared middleware object' if not effs else
                  'middleware function writes its shared instance per request: %s' % [short(e.node) for e in effs], fi2.mod,
                  effs[0].node if effs else fi2.node)
    rep.floor('R12.d', 9)

