"""C12 -- Concurrent requests on one Application do not interfere.

Static non-interference argument, valid for every schedule: if no function on the request path writes
an object another request can reach, requests cannot influence each other (given the same for user code
and werkzeug, which are assumptions).

Decided:
  R12.a  no shared write on the request path: every store / mutating call in every clastic core function
         reachable from Application.__call__ targets a fresh or request-local object; the generated code
         (chain levels, request core) contains no store except locals and __traceback_hide__ and closes over
         ``funcs`` only; ``x op= v`` on a local that may name a mutable object counts as a mutation of that object;
         ownership: an object held in a field of a per-request object (DispatchState, ...) is updated in place (method
         call, ``field op= v``, through a local naming it -- inside the class or wherever an instance is at hand) only
         if every value ever stored into that field was allocated by the storing activation (never an adopted alias
         of a route's / the application's object);
  R12.b  immutability after construction: BoundRoute attributes are written in __init__ only (no method of
         BoundRoute other than __init__ stores to self; nothing stores through a route-typed name);
         Application.routes only in __init__/add (R06.a);
  R12.c  request ids: request_id is assigned from next(_REQ_ID_ITER) only; _REQ_ID_ITER is a module-level
         itertools.count() that is never rebound or re-created;
  R12.d  built-in middlewares: per-request writes to ``self`` are inventoried (StatsMiddleware counters, by
         design); a new per-request self-write in any other middleware fires.
  R12.e  the rest of the tree that runs while a request is served (built-in middlewares, renderers, the applications
         clastic ships) updates no positively long-lived object (c12_ring.py): a long-lived instance (also through a local
         naming one of its fields), a class object (``cls.x`` / ``type(self).x`` / ``self.__class__.x`` / ``Class.x``), a
         class-level mutable attribute reached through an instance, a module-level object, the default object of a
         parameter; a default expression is not a call evaluated once at definition.  The same kinds are shared in the
         core's classification (R12.a): a parameter's default object whatever the parameter is called, ``cls`` and
         ``__class__`` whatever the class, a local that only names a module-level object, a field of a per-request class
         that is initialised in the class body only, and an object taken out of the caller's ``*args`` / ``**kwargs``
         (``kw.get(k)`` / ``kw.pop(k)`` / ``kw[k]`` / ``args[i]``, directly or through a local a definition of which reaching
         the update is such an expression): the mapping / tuple is built per call, what the caller put into it is not.
  R12.f  what a request is handed is its own: no function that runs while a request is served returns / yields one long-lived
         mutable object -- a container the enclosing construction-time function built once and a closure hands to every
         caller (the converters of a route), a module-level container, the default object of a parameter, a class-level
         container no instance re-binds (c12_ring.check_handed_out).
Declined: interleavings inside werkzeug / user code; anything below the Python level.
"""
import ast
import textwrap

from ..core import AnalysisError, norm, short
from .. import effects, codegen
from ..callgraph import ROLE_TABLE, never_referenced
from . import chain
from .noninterf import RequestPath
from .c08 import check_no_shared_store
from .c15 import middleware_functions
from .common import cfg_of, fkey, stmts_of, walk_body, call_tail, call_name

APP, ROUTE = 'clastic.application', 'clastic.route'
SELF_WRITES_TABLE = {
    'clastic.middleware.stats::StatsMiddleware.request': 'route_hits counters: shared by design (the middleware exists to aggregate across requests)',
}


def _group(rep, fn, *args):
    """One group of rules: "cannot analyse" (also an unexpected shape that trips the rule's own code) is a gap of this
    group, never a crash and never a verdict; the other groups still run."""
    def wrapped():
        try:
            return fn(*args)
        except AnalysisError:
            raise
        except Exception as e:   # a shape the rule did not anticipate
            raise AnalysisError('%s: unexpected construct (%s: %s)' % (fn.__name__, type(e).__name__, e))
    wrapped.__name__ = fn.__name__
    return rep.guard(wrapped)


def run(rep):
    repo = rep.repo
    app, route = repo.mod(APP), repo.mod(ROUTE)
    rep.decide('R12.a no shared write on the request path (incl. generated code); R12.b BoundRoute immutable after '
               'construction; R12.c request-id source; R12.d middleware self-write inventory; R12.e no long-lived receiver '
               'is updated by the middlewares / renderers / shipped applications; R12.f no long-lived mutable object is handed '
               'out as a per-request value')
    rep.decline('interleavings inside werkzeug / user code; memory-model questions below the Python level')
    rep.assume('itertools.count.__next__ is a single C call under the GIL')
    rep.assume('user-supplied endpoints / middlewares / renderers and werkzeug do not share state between requests')
    rep.rule('R12.a', 'effect classification over the call-graph closure from Application.__call__ (incl. in-place augmented assignments); '
                      'fields of per-request objects that are updated in place only hold objects allocated by the request; generated code has no heap store')
    rep.rule('R12.b', 'who-may-write BoundRoute attributes')
    rep.rule('R12.c', 'single source of request ids')
    rep.rule('R12.d', 'inventory of per-request self-writes in built-in middlewares')

    rp = RequestPath(repo)
    _group(rep, check_no_shared_store, rep, 'R12.a', rp)
    _group(rep, check_generated_code, rep)
    _group(rep, check_route_immutable, rep, route)
    # ---- R12.c -----------------------------------------------------------
    _group(rep, check_request_ids, rep, rp, app)

    _group(rep, check_middleware_self_writes, rep)
    rep.rule('R12.e', 'outside the core (built-in middlewares, renderers, shipped applications): no update of a positively long-lived receiver '
                      '(long-lived instance, class object, class-level attribute, module-level object, default object); defaults are not '
                      'evaluated-once calls')
    from .c12_ring import check_ring, check_handed_out
    _group(rep, check_ring, rep, 'R12.e', rp)
    rep.rule('R12.f', 'no function that runs while a request is served hands out (returns / yields) one long-lived mutable object: a container '
                      'captured from a construction-time scope, a module-level container, a default object, a class-level container')
    _group(rep, check_handed_out, rep, 'R12.f', rp)


# ---- R12.c: request ids ---------------------------------------------------------------------------------------------
def _is_counter_ctor(v):
    """``itertools.count()`` / ``count()`` without arguments."""
    return isinstance(v, ast.Call) and norm(v.func) in ('itertools.count', 'count') and not v.args and not v.keywords


def _request_id_stores(repo):
    """Every construct in the analysed tree that stores the attribute ``request_id``: (module, FuncInfo or None, statement,
    receiver expr, value expr or None)."""
    out = []
    for m in repo.all_internal_modules():
        owner = {}
        for fi in m.functions.values():
            for n in walk_body(fi.node):
                owner.setdefault(id(n), fi)
        for n in ast.walk(m.tree):
            recv = []
            if isinstance(n, ast.Assign):
                for t0 in n.targets:
                    for t in effects._targets(t0):
                        if isinstance(t, ast.Attribute) and t.attr == 'request_id':
                            recv.append((t.value, n.value if t is t0 else None))
            elif isinstance(n, (ast.AugAssign, ast.AnnAssign)) and isinstance(n.target, ast.Attribute) and n.target.attr == 'request_id':
                recv.append((n.target.value, n.value if isinstance(n, ast.AnnAssign) else None))
            elif isinstance(n, (ast.For, ast.With)):
                tg = [n.target] if isinstance(n, ast.For) else [i.optional_vars for i in n.items if i.optional_vars is not None]
                for t0 in tg:
                    for t in effects._targets(t0):
                        if isinstance(t, ast.Attribute) and t.attr == 'request_id':
                            recv.append((t.value, None))
            elif isinstance(n, ast.Call) and isinstance(n.func, ast.Name) and n.func.id == 'setattr' and len(n.args) == 3 and \
                    isinstance(n.args[1], ast.Constant) and n.args[1].value == 'request_id':
                recv.append((n.args[0], n.args[2]))
            for r, v in recv:
                out.append((m, owner.get(id(n)), n, r, v))
    return out


def _fresh_request_receiver(rp, fi, name, depth=0):
    """Is local / parameter ``name`` of fi the request object this activation of the request path built from its own
    environ?  -> (ok, function that builds it, building statement).  A parameter is followed to every caller."""
    from ..astutil import assigned_value
    if name in fi.params():
        if depth > 3:
            return False, None, None
        idx = fi.params().index(name)
        callers = [e for e in rp.cg.callers(fi) if e.kind in ('call', 'self', 'classattr', 'role', 'cha') and isinstance(e.node, ast.Call)]
        if not callers:
            return False, None, None
        found = None
        for e in callers:
            call = e.node
            static = any(isinstance(d, ast.Name) and d.id == 'staticmethod' for d in fi.node.decorator_list)
            shift = 1 if (fi.cls is not None and not static and isinstance(call.func, ast.Attribute)) else 0
            from ..astutil import argn
            a = argn(call, name, idx - shift if idx - shift >= 0 else None)
            if not isinstance(a, ast.Name):
                return False, None, None
            ok, bf, bs = _fresh_request_receiver(rp, e.caller, a.id, depth + 1)
            if not ok:
                return False, None, None
            found = (bf, bs)
        return True, found[0], found[1]
    vals = assigned_value(fi.node, name)
    if len(vals) != 1:
        return False, None, None
    st, v, idx = vals[0]
    env = [p for p in fi.params() if p not in ('self', 'cls')]
    ok = idx is None and isinstance(v, ast.Call) and norm(v.func) == 'self.request_type' and len(v.args) == 1 and not v.keywords and \
        isinstance(v.args[0], ast.Name) and v.args[0].id in env
    return ok, fi, st


def check_request_ids(rep, rp, app):
    """The judgement is about the request path, not about a function name: the process-wide counter is advanced in exactly
    one place that can run while a request is served, and the value lands on the request object that activation built."""
    repo = rep.repo
    dw = app.func('Application._dispatch_wsgi')
    stores = _request_id_stores(repo)
    live = [s for s in stores if s[1] is None or not never_referenced(repo, s[1])]
    dead = [s for s in stores if s not in live]
    # which counter?
    ctr = None
    if len(live) == 1 and isinstance(live[0][4], ast.Call) and norm(live[0][4].func) == 'next' and len(live[0][4].args) == 1 and \
            isinstance(live[0][4].args[0], ast.Name) and live[0][1] is not None:
        nm = live[0][4].args[0].id
        fi_ = live[0][1]
        shadowed = nm in fi_.params() or any(isinstance(n, ast.Name) and n.id == nm and isinstance(n.ctx, ast.Store) for n in ast.walk(fi_.node))
        kind, cm, obj = repo.resolve(fi_.mod, nm)
        if not shadowed and kind == 'value' and cm is not None and not cm.external:
            ctr = (nm, cm, obj)
    cname, cmod = (ctr[0], ctr[1]) if ctr else ('_REQ_ID_ITER', app)
    vals = cmod.assigns.get(cname, [])
    ok = len(vals) == 1 and _is_counter_ctor(vals[0])
    rep.check('R12.c', '%s::_REQ_ID_ITER' % APP, ok, '%s is one module-level itertools.count()' % cname if ok else
              '%s is not a single module-level itertools.count(): %s' % (cname, [norm(v) if v is not None else '?' for v in vals]), cmod)
    rebinds = []
    for m in repo.all_internal_modules():
        for n_ in ast.walk(m.tree):
            if isinstance(n_, ast.Global) and cname in n_.names:
                rebinds.append((m, n_))
            if isinstance(n_, ast.Attribute) and n_.attr == cname and isinstance(n_.ctx, (ast.Store, ast.Del)):
                rebinds.append((m, n_))
            if isinstance(n_, ast.Call) and isinstance(n_.func, ast.Name) and n_.func.id in ('setattr', 'delattr') and len(n_.args) >= 2 and \
                    isinstance(n_.args[1], ast.Constant) and n_.args[1].value == cname:
                rebinds.append((m, n_))
    rep.check('R12.c', 'clastic::_REQ_ID_ITER rebinding', not rebinds, 'the counter is never rebound or reset' if not rebinds else
              'the request-id counter is rebound at %s' % ['%s:%s' % (m.relpath, n_.lineno) for m, n_ in rebinds], app)
    on_path = len(live) == 1 and live[0][1] is not None and live[0][1] in rp.reach
    ok = ctr is not None and on_path
    rep.check('R12.c', 'clastic::request_id source', ok,
              'request_id is assigned in one place on the request path (%s), from next(%s)%s' %
              (live[0][1].qualname, cname, '; %d further store(s) only in functions nothing refers to' % len(dead) if dead else '') if ok else
              'request_id is assigned from something other than next(_REQ_ID_ITER) in exactly one place on the request path: %s'
              % ['%s: %s' % (f.qualname if f is not None else m.name, short(s)) for m, f, s, _, _ in live], app,
              live[0][2] if live else None)
    if not live:
        return
    sfi = live[0][1] if on_path else dw
    recvs = sorted(set(norm(s[3]) for s in live if s[1] is sfi and isinstance(s[3], ast.Name)))
    rq = recvs[0] if len(recvs) == 1 else 'request'
    gs = [s for s in stmts_of(sfi.node) if isinstance(s, ast.Assign) and any(isinstance(t, ast.Attribute) and t.attr == 'request_guid' for t in s.targets)]
    ok = len(gs) == 1 and len(gs[0].targets) == 1 and norm(gs[0].targets[0].value) == rq and isinstance(gs[0].value, ast.Call) and \
        call_name(gs[0].value) == 'int2hexguid' and [norm(a) for a in gs[0].value.args] == ['%s.request_id' % rq] and not gs[0].value.keywords
    rep.check('R12.c', fkey(sfi, 'request_guid'), ok, 'request_guid derives from this request\'s id' if ok else
              'request_guid does not derive from %s.request_id' % rq, sfi.mod, gs[0] if gs else sfi.node)
    ok, bf, bs = _fresh_request_receiver(rp, sfi, rq)
    rep.check('R12.c', fkey(sfi, 'fresh request'), ok, 'every call builds its own request object from its own environ' if ok else
              'the request object that receives the id is not freshly built from this call\'s environ', sfi.mod, bs if bs is not None else sfi.node)


def _env_keys(fi, call, callee):
    """Names the generated code is executed with: keys of the ``env`` mapping handed to compile_code (a dict display or
    ``dict(k=v)``, possibly named by a single-assignment local) -- None when not resolvable."""
    from ..astutil import argn, assigned_value
    ps = callee.params()
    e = argn(call, 'env', ps.index('env') if 'env' in ps else None)
    if isinstance(e, ast.Name) and e.id not in fi.params():
        vals = assigned_value(fi.node, e.id)
        if len(vals) != 1 or vals[0][2] is not None:
            return None
        if any(ef.root == e.id for ef in effects.effects_in(fi.node)):
            return None
        e = vals[0][1]
    if isinstance(e, ast.Dict) and all(isinstance(k, ast.Constant) and isinstance(k.value, str) for k in e.keys):
        return sorted(k.value for k in e.keys)
    if isinstance(e, ast.Call) and isinstance(e.func, ast.Name) and e.func.id == 'dict' and not e.args and all(k.arg for k in e.keywords):
        return sorted(k.arg for k in e.keywords)
    return None


def _judge_generated(rep, label, text, env, mod_, node, how):
    try:
        tree = ast.parse(textwrap.dedent(text))
    except SyntaxError as e:
        raise AnalysisError('generated %s does not parse: %s' % (label, e))
    # the sample must be what the rule is about: a function definition that calls out; otherwise the template
    # was not understood (which is not a verdict on the generated code)
    defs = [n for n in tree.body if isinstance(n, ast.FunctionDef)]
    if len(defs) != 1 or len(tree.body) != 1 or not any(isinstance(n, ast.Return) for n in ast.walk(defs[0])):
        raise AnalysisError('generated %s: the rendered sample is not a single function definition (template not understood)' % label)
    bad = []
    for n in ast.walk(tree):
        if isinstance(n, (ast.Global, ast.Nonlocal)):
            bad.append(norm(n))
        if isinstance(n, (ast.Attribute, ast.Subscript)) and isinstance(n.ctx, (ast.Store, ast.Del)):
            bad.append(norm(n))
        if isinstance(n, ast.Call) and isinstance(n.func, ast.Attribute) and n.func.attr in effects.MUTATORS:
            bad.append(norm(n))
    rep.check('R12.a', 'generated::%s' % label, not bad,
              'generated %s stores only into locals; per-request values live in call frames (%s)' % (label, how) if not bad else
              'generated %s contains a heap store / global: %s' % (label, bad), mod_, node)
    free = set()
    for n in ast.walk(tree):
        if isinstance(n, ast.Name) and isinstance(n.ctx, ast.Load):
            free.add(n.id)
    bound = set(a.arg for f_ in ast.walk(tree) if isinstance(f_, ast.FunctionDef) for a in f_.args.args) | \
        set(f_.name for f_ in ast.walk(tree) if isinstance(f_, ast.FunctionDef)) | \
        set(n.id for n in ast.walk(tree) if isinstance(n, ast.Name) and isinstance(n.ctx, ast.Store))
    closed = sorted(x for x in free - bound if not x.startswith('__H') and x not in ('True', 'False', 'None', 'isinstance'))
    # the names it may read are exactly the per-chain objects it is executed with (fixed at construction)
    want = env if env is not None else (['funcs'] if label == 'chain level' else ['BaseResponse', 'endpoint', 'render'])
    rep.check('R12.a', 'generated::%s closure' % label, closed == want, 'closes over %s only' % want if closed == want else
              'generated %s reads free names %s (expected %s)' % (label, closed, want), mod_, node)


def check_generated_code(rep):
    from ..astutil import argn
    repo = rep.repo
    sinter = repo.mod('clastic.sinter')
    compile_code = sinter.func('compile_code')
    cps = compile_code.params()
    core = repo.mod('clastic.middleware.core')
    ci = core.func('_create_request_inner')

    def via_template(label):
        """-> (text, env keys, module, node): the text as a template rendered with placeholder identifiers"""
        if label == 'chain level':
            fi, te, parts, stop, main = chain.analyse_level_template(repo)
            r, text = chain._render_level(repo, fi, parts, 0)
            # the environment the chain text is executed in: the compile_code call of the function that builds the text
            env = None
            for f2 in sinter.functions.values():
                calls = [c for c in walk_body(f2.node) if isinstance(c, ast.Call)]
                if any(call_name(c) == fi.name for c in calls) and f2 is not fi:
                    for c in calls:
                        if call_name(c) == 'compile_code':
                            env = _env_keys(f2, c, compile_code)
            mod_, node = fi.mod, main
        else:
            ccs = [c for c in walk_body(ci.node) if isinstance(c, ast.Call) and call_name(c) == 'compile_code']
            if len(ccs) != 1:
                raise AnalysisError('_create_request_inner: expected one compile_code call, found %d' % len(ccs))
            src = argn(ccs[0], cps[0], 0)
            if src is None:
                raise AnalysisError('_create_request_inner: the code argument of compile_code not found')
            r = codegen.render(codegen.TemplateEval(repo, ci).ev(src, ccs[0].lineno))
            text = r.text
            env = _env_keys(ci, ccs[0], compile_code)
            mod_, node = core, ccs[0]
        opaque = [h for h in r.holes.values() if isinstance(h, codegen.Sym) and h.kind == 'expr']
        if opaque:
            raise AnalysisError('generated %s: part of the text is built in a way the template evaluator cannot follow (%s)'
                                % (label, short(opaque[0].expr)))
        tree = None
        try:
            tree = ast.parse(textwrap.dedent(text))
        except SyntaxError as e:
            raise AnalysisError('generated %s does not parse: %s' % (label, e))
        if len(tree.body) != 1 or not isinstance(tree.body[0], ast.FunctionDef):
            raise AnalysisError('generated %s: the rendered sample is not a single function definition (template not understood)' % label)
        return text, env, mod_, node

    for label in ('chain level', 'request core'):
        # (a builder the template evaluator cannot follow is an analysis gap: the text is never obtained by running
        # the builder, concretely or otherwise -- that would leave the family of technique this checker belongs to)
        try:
            text, env, mod_, node = via_template(label)
        except AnalysisError as first:
            if label != 'chain level':
                raise
            # a builder that accumulates the text over a loop with carried state: the *set of line templates* it can emit is
            # still computed by abstract evaluation (c12_gen.py) -- enough for what this rule asks of the generated text
            try:
                _judge_line_bag(rep, label, compile_code)
            except AnalysisError as second:
                raise AnalysisError('%s; as a set of line templates: %s' % (first, second))
            continue
        how = 'template rendered with placeholder names'
        _judge_generated(rep, label, text, env, mod_, node, how)


def _judge_line_bag(rep, label, compile_code):
    from . import c12_gen
    repo = rep.repo
    sinter = repo.mod('clastic.sinter')
    fi = sinter.func('build_chain_str')
    lines, node = c12_gen.line_bag(repo, fi, 'level' if 'level' in fi.params() else None)
    bad, closed = c12_gen.judge_lines(lines, label)
    env = None
    for f2 in sinter.functions.values():
        calls = [c for c in walk_body(f2.node) if isinstance(c, ast.Call)]
        if any(call_name(c) == fi.name for c in calls) and f2 is not fi:
            for c in calls:
                if call_name(c) == 'compile_code':
                    env = _env_keys(f2, c, compile_code)
    how = 'the set of line templates of the accumulating builder, %d lines, order and number abstracted' % len(lines)
    rep.check('R12.a', 'generated::%s' % label, not bad,
              'generated %s stores only into locals; per-request values live in call frames (%s)' % (label, how) if not bad else
              'generated %s contains a heap store / global: %s' % (label, bad), sinter, node)
    want = env if env is not None else ['funcs']
    rep.check('R12.a', 'generated::%s closure' % label, closed == want, 'closes over %s only' % want if closed == want else
              'generated %s reads free names %s (expected %s)' % (label, closed, want), sinter, node)


def _construction_only_methods(repo, ci):
    """Private methods of the class that can only run while ``__init__`` runs: every occurrence of the name anywhere in
    the analysed tree is the callee of a ``self.<name>(...)`` call located in ``__init__`` of the class or in another
    method of this set (and the name is not overridden / re-bound).  Such a method is a piece of the constructor."""
    cand = set(n for n in ci.methods if n.startswith('_') and not (n.startswith('__') and n.endswith('__')))
    uses = dict((n, []) for n in cand)          # name -> [(module, enclosing function node, is a self-call)]
    for m in repo.all_internal_modules():
        for node in ast.walk(m.tree):
            nm = None
            if isinstance(node, ast.Attribute) and node.attr in cand:
                nm = node.attr
                par = m.parents.get(node)
                selfcall = isinstance(par, ast.Call) and par.func is node and isinstance(node.value, ast.Name) and node.value.id == 'self' \
                    and isinstance(node.ctx, ast.Load)
                uses[nm].append((m, m.enclosing_function(node), selfcall))
            elif isinstance(node, ast.Name) and node.id in cand:
                uses[node.id].append((m, None, False))
            elif isinstance(node, ast.Constant) and isinstance(node.value, str) and node.value in cand:
                uses[node.value].append((m, None, False))
            elif isinstance(node, (ast.FunctionDef, ast.AsyncFunctionDef)) and node.name in cand and node is not ci.methods[node.name].node:
                uses[node.name].append((m, None, False))      # another definition of the name (override / namesake)
    ok = set(n for n in cand if uses[n] and all(sc for _, _, sc in uses[n]))
    changed = True
    while changed:
        changed = False
        allowed = set([ci.methods['__init__'].node] if '__init__' in ci.methods else []) | set(ci.methods[n].node for n in ok)
        for n in sorted(ok):
            if not all(m is ci.mod and fn in allowed for m, fn, _ in uses[n]):
                ok.discard(n)
                changed = True
    return ok


def check_route_immutable(rep, route):
    repo = rep.repo
    # ---- R12.b -----------------------------------------------------------
    br = route.cls('BoundRoute')
    ctor_only = _construction_only_methods(repo, br)
    for name, m in sorted(br.methods.items()):
        if name == '__init__':
            continue
        effs = [e for e in effects.effects_in(m.node) if e.root == 'self']
        if effs and name in ctor_only:
            rep.ok('R12.b', fkey(m), 'writes self, but is a private part of the constructor: every mention of %s in the analysed tree is a '
                                     'self.%s(...) call from __init__ (or from another such part)' % (name, name), m.mod, m.node)
            continue
        rep.check('R12.b', fkey(m), not effs, 'does not write self' if not effs else
                  'BoundRoute.%s writes the shared route object after construction: %s' % (name, [short(e.node) for e in effs]),
                  m.mod, effs[0].node if effs else m.node)
    from .noninterf import role_classes
    route_roles = set(k for k in ROLE_TABLE if br in role_classes(repo, k))       # (the class by definition, wherever it lives)
    n = 0
    for m in repo.all_internal_modules():
        for fi2 in m.functions.values():
            for e in effects.effects_in(fi2.node):
                if e.root in route_roles and e.root != 'self' and len(e.chain or []) >= 2:
                    n += 1
                    rep.fail('R12.b', '%s::%s' % (fi2.key, norm(e.node)[:80]),
                             '%s stores through the route-typed name %s: bound routes are shared by all requests' % (fi2.key, e.root), m, e.node)
    rep.ok('R12.b', 'clastic::stores through route-typed names', 'no store through %s (%d found)' % (sorted(route_roles), n))
    rep.floor('R12.b', 6)



def _self_writes_table(repo):
    """{FuncInfo: reason} -- the table names a function as ``module::qualname``; it denotes the definition that name
    resolves to in that module (a class that moved to another module of the package and is imported back is followed)."""
    out = {}
    for key, why in SELF_WRITES_TABLE.items():
        mn, _, qn = key.partition('::')
        m = repo.try_mod(mn)
        if m is None or m.external:
            continue
        try:
            out[m.func(qn)] = why
        except AnalysisError:
            continue
    return out


def check_middleware_self_writes(rep):
    repo = rep.repo
    # ---- R12.d -----------------------------------------------------------
    table = _self_writes_table(repo)
    for fi2 in sorted(middleware_functions(repo), key=lambda f: f.key):
        effs = [e for e in effects.effects_in(fi2.node) if e.root == 'self']
        if fi2 in table:
            rep.ok('R12.d', fkey(fi2), 'table entry (%d self-writes): %s' % (len(effs), table[fi2]), fi2.mod, fi2.node)
            continue
        rep.check('R12.d', fkey(fi2), not effs, 'no per-request write to the shared middleware object' if not effs else
                  'middleware function writes its shared instance per request: %s' % [short(e.node) for e in effs], fi2.mod,
                  effs[0].node if effs else fi2.node)
    rep.floor('R12.d', 9)

