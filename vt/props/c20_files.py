"""C20, "monitored file lists: None, empty, long, names containing markup": the file names cannot stop the construction.

  R20.k  Outside a sound catch-all handler, create_app and the functions of the module it calls (followed through the
         calls that are not themselves contained, with the parameters the list / its entries are bound to) apply to the
         *entries* of the monitored-file list -- the loop / comprehension / ``key=lambda`` variables that run over it and
         what is made from them -- only operations that are total on strings: methods of the string itself that cannot
         raise, slices, comparison, membership, and the pure string functions of os.path.  An operation that is *known to
         raise for some strings* stops the construction for some file name and is a violation:
           - an element access ``name[0]`` (the empty name),
           - ``.index`` / ``.rindex`` / ``.encode`` / ``.format`` ... on the name,
           - a library call that is handed the name and is documented to raise for some names: the file system
             (``open``, ``os.stat``, ``os.path.getmtime`` / ``getsize`` / ``samefile``, ``os.listdir``: the file may be
             gone -- that is why the program was restarted), path algebra with preconditions (``os.path.commonpath``:
             mixing absolute and relative names; ``os.path.relpath``: the empty name, another drive), conversions
             (``int``, ``float``, ``literal_eval``), ``re.compile`` of the name.
         A constant-index access of the *list* itself needs a dominating test that the list is not empty.
         Operations of unknown totality are not judged (a note).  The classification is a finite table about the Python
         library, not about clastic; nothing is evaluated.
"""
import ast

from ..core import norm, short
from ..astutil import assigned_value, walk_body, stmts_of
from .common import fkey, conds, implies_present

_TOTAL_METHODS = frozenset((
    'startswith', 'endswith', 'lower', 'upper', 'strip', 'lstrip', 'rstrip', 'replace', 'split', 'rsplit', 'partition',
    'rpartition', 'splitlines', 'find', 'rfind', 'count', 'casefold', 'title', 'capitalize', 'swapcase', 'isdigit', 'isalpha',
    'isalnum', 'isspace', 'isidentifier', 'islower', 'isupper', 'istitle', 'isdecimal', 'isnumeric', 'isprintable', 'isascii',
    'expandtabs', 'removeprefix', 'removesuffix', '__len__', '__contains__'))
_PARTIAL_METHODS = {
    'index': 'ValueError when the piece is not in the name', 'rindex': 'ValueError when the piece is not in the name',
    'encode': 'UnicodeEncodeError for names outside the codec', 'decode': 'AttributeError on a text',
    'format': 'KeyError / IndexError / ValueError for names with braces', 'format_map': 'KeyError / ValueError for names with braces',
    'center': None, 'ljust': None, 'rjust': None, 'zfill': None}
_TOTAL_FUNCS = frozenset((
    'len', 'str', 'repr', 'bool', 'isinstance', 'id', 'hash', 'type', 'callable', 'ascii',
    'os.path.basename', 'os.path.dirname', 'os.path.split', 'os.path.splitext', 'os.path.join', 'os.path.normcase',
    'os.path.isabs', 'os.path.normpath', 'os.path.splitdrive', 'os.path.commonprefix', 'os.path.exists', 'os.path.lexists',
    'os.path.isfile', 'os.path.isdir', 'os.path.islink', 'os.fspath', 'posixpath.basename', 'posixpath.dirname', 'posixpath.join',
    'fnmatch.fnmatch', 'fnmatch.fnmatchcase', 'html.escape', 'cgi.escape'))
_PARTIAL_FUNCS = {
    'os.path.commonpath': 'ValueError when absolute and relative names (or drives) are mixed, or the list is empty',
    'os.path.relpath': 'ValueError for the empty name and across drives',
    'os.path.samefile': 'OSError when a file is gone', 'os.path.sameopenfile': 'OSError',
    'os.path.getmtime': 'OSError when the file is gone', 'os.path.getsize': 'OSError when the file is gone',
    'os.path.getatime': 'OSError when the file is gone', 'os.path.getctime': 'OSError when the file is gone',
    'os.stat': 'OSError when the file is gone', 'os.lstat': 'OSError when the file is gone', 'os.listdir': 'OSError',
    'os.readlink': 'OSError', 'os.scandir': 'OSError', 'os.open': 'OSError', 'os.access': None,
    'open': 'OSError when the file is gone', 'io.open': 'OSError when the file is gone', 'codecs.open': 'OSError when the file is gone',
    'int': 'ValueError', 'float': 'ValueError', 'literal_eval': 'ValueError / SyntaxError', 'ast.literal_eval': 'ValueError / SyntaxError',
    'ast.parse': 'SyntaxError', 'compile': 'SyntaxError', 're.compile': 're.error for names that are not a pattern',
    're.match': 're.error when the name is the pattern', 're.search': 're.error when the name is the pattern',
    'chr': 'TypeError', 'ord': 'TypeError unless the name is one character', 'bytes': 'TypeError without an encoding',
    'tokenize.open': 'OSError / SyntaxError', 'linecache.getline': None, 'json.loads': 'ValueError',
    'os.path.realpath': None, 'os.path.abspath': None, 'os.path.expanduser': None, 'os.path.expandvars': None,
    'pathlib.Path': None, 'Path': None}
_LIST_KEEPS = ('list', 'tuple', 'sorted', 'reversed', 'iter', 'set', 'frozenset')


def _c20():
    from . import c20
    return c20


def _loads(e):
    return set(n.id for n in ast.walk(e) if isinstance(n, ast.Name) and isinstance(n.ctx, ast.Load)) if e is not None else set()


def _stores(t):
    return set(n.id for n in ast.walk(t) if isinstance(n, ast.Name) and isinstance(n.ctx, ast.Store)) if t is not None else set()


class _Taint(object):
    """Flow-insensitive: the names of one function that hold the given list (or a list made from it) -- ``lists`` --
    and the names that hold one of its entries (or a string made from one) -- ``entries``."""

    def __init__(self, fi, lists, entries):
        self.fi, self.lists, self.entries = fi, set(lists), set(entries)
        changed = True
        while changed:
            changed = False
            for n in ast.walk(fi.node):
                new_l, new_e = set(), set()
                if isinstance(n, ast.Assign):
                    kind = self.kind_of(n.value)
                    for t in n.targets:
                        if isinstance(t, ast.Name):
                            (new_l if kind == 'L' else new_e if kind == 'E' else set()).add(t.id)
                        elif isinstance(t, (ast.Tuple, ast.List)) and kind == 'E':
                            new_e |= _stores(t)            # head, tail = os.path.split(name)
                elif isinstance(n, ast.AugAssign) and isinstance(n.target, ast.Name):
                    kind = self.kind_of(n.value)
                    (new_l if kind == 'L' else new_e if kind == 'E' else set()).add(n.target.id)
                elif isinstance(n, (ast.For, ast.AsyncFor, ast.comprehension)):
                    new_e |= self.element_targets(n.target, n.iter)
                elif isinstance(n, ast.Call):
                    # key=lambda x: ... / filter(lambda x: .., names) / map(lambda x: .., names): the lambda's parameter is an entry
                    on_list = (isinstance(n.func, ast.Attribute) and self.kind_of(n.func.value) == 'L') or \
                        any(self.kind_of(a) == 'L' for a in n.args)
                    if on_list:
                        for a in list(n.args) + [k.value for k in n.keywords]:
                            if isinstance(a, ast.Lambda) and a.args.args:
                                new_e.add(a.args.args[0].arg)
                if new_l - self.lists or new_e - self.entries:
                    self.lists |= new_l
                    self.entries |= new_e
                    changed = True

    def element_targets(self, target, it):
        if self.kind_of(it) == 'L':
            return _stores(target)
        if isinstance(it, ast.Call) and isinstance(it.func, ast.Name) and it.func.id == 'enumerate' and it.args and \
                self.kind_of(it.args[0]) == 'L' and isinstance(target, (ast.Tuple, ast.List)) and len(target.elts) == 2:
            return _stores(target.elts[1])
        if isinstance(it, ast.Call) and isinstance(it.func, ast.Name) and it.func.id == 'zip' and \
                isinstance(target, (ast.Tuple, ast.List)) and len(target.elts) == len(it.args):
            out = set()
            for t, a in zip(target.elts, it.args):
                if self.kind_of(a) == 'L':
                    out |= _stores(t)
            return out
        return set()

    def kind_of(self, e, depth=0):
        """'L' (the list / a list of entries), 'E' (an entry / a string made from one), None."""
        if e is None or depth > 6:
            return None
        if isinstance(e, ast.Name):
            return 'L' if e.id in self.lists else ('E' if e.id in self.entries else None)
        if isinstance(e, ast.BoolOp):
            kinds = set(self.kind_of(v, depth + 1) for v in e.values)
            return 'L' if 'L' in kinds else ('E' if 'E' in kinds else None)
        if isinstance(e, ast.IfExp):
            kinds = set((self.kind_of(e.body, depth + 1), self.kind_of(e.orelse, depth + 1)))
            return 'L' if 'L' in kinds else ('E' if 'E' in kinds else None)
        if isinstance(e, ast.Subscript):
            k = self.kind_of(e.value, depth + 1)
            if isinstance(e.slice, ast.Slice):
                return k
            return 'E' if k == 'L' else None
        if isinstance(e, ast.BinOp) and isinstance(e.op, (ast.Add, ast.Mod)):
            kinds = set((self.kind_of(e.left, depth + 1), self.kind_of(e.right, depth + 1)))
            return 'L' if 'L' in kinds else ('E' if 'E' in kinds else None)
        if isinstance(e, (ast.ListComp, ast.GeneratorExp, ast.SetComp)):
            if any(self.kind_of(g.iter, depth + 1) == 'L' for g in e.generators):
                return 'L'
            return None
        if isinstance(e, ast.Call):
            f = e.func
            if isinstance(f, ast.Name) and f.id in _LIST_KEEPS and len(e.args) >= 1:
                return 'L' if self.kind_of(e.args[0], depth + 1) == 'L' else None
            if isinstance(f, ast.Name) and f.id in ('filter', 'map') and len(e.args) == 2:
                return 'L' if self.kind_of(e.args[1], depth + 1) == 'L' else None
            if isinstance(f, ast.Attribute) and self.kind_of(f.value, depth + 1) == 'E':
                return 'E'                       # name.strip()
            if isinstance(f, ast.Attribute) and f.attr == 'copy' and self.kind_of(f.value, depth + 1) == 'L':
                return 'L'
            if norm(f) in _TOTAL_FUNCS and any(self.kind_of(a, depth + 1) == 'E' for a in e.args):
                return 'E'                       # os.path.basename(name)
        if isinstance(e, ast.JoinedStr):
            return 'E' if any(self.kind_of(v.value, depth + 1) == 'E' for v in e.values if isinstance(v, ast.FormattedValue)) else None
        return None


def _mentions_entry(t, e):
    """An entry is *handed* to the call: it is the argument, or an element of a display that is."""
    if t.kind_of(e) == 'E':
        return True
    if isinstance(e, (ast.List, ast.Tuple, ast.Set)):
        return any(_mentions_entry(t, x) for x in e.elts)
    if isinstance(e, ast.Starred):
        return _mentions_entry(t, e.value) or t.kind_of(e.value) == 'L'
    return False


def file_names_total(rep, fs):
    base = _c20()
    repo, flaw, ca = fs.repo, fs.flaw, fs.ca
    rep.rule('R20.k', 'outside a catch-all handler the entries of the monitored-file list are only handled by operations that are '
                      'total on strings')
    ps = ca.params()
    if len(ps) < 2:
        rep.notes.append('R20.k declined: create_app has no file-list parameter')
        return
    todo = [(ca, frozenset([ps[1]]), frozenset())]
    done = set()
    judged = 0
    while todo:
        fi, lists, entries = todo.pop(0)
        if (fi.key, lists, entries) in done or len(done) > 40:
            continue
        done.add((fi.key, lists, entries))
        t = _Taint(fi, lists, entries)

        def contained(node):
            tr, h, problem = base._catch_all(fi, node)
            return h is not None and not problem
        for n in ast.walk(fi.node):
            if isinstance(n, ast.Subscript) and isinstance(n.ctx, ast.Load) and not isinstance(n.slice, ast.Slice):
                k = t.kind_of(n.value)
                if k == 'E' and not contained(n):
                    judged += 1
                    rep.fail('R20.k', fkey(fi, n), '%s takes one character of a file name, outside any catch-all handler: IndexError for the '
                             'empty name, create_app does not construct' % short(n, 40), flaw, n)
                elif k == 'L' and isinstance(n.value, ast.Name) and not contained(n):
                    judged += 1
                    try:
                        cs = conds(fi, n)
                    except Exception:
                        cs = []
                    ok = any(implies_present(cs, a) for a in t.lists)
                    rep.check('R20.k', fkey(fi, n), ok, '%s is read where the list is known not to be empty' % short(n, 40) if ok else
                              '%s is read where the file list may be empty (or None), outside any catch-all handler: create_app does not '
                              'construct' % short(n, 40), flaw, n)
            if not isinstance(n, ast.Call):
                continue
            f = n.func
            if isinstance(f, ast.Attribute) and t.kind_of(f.value) == 'E':
                if f.attr in _TOTAL_METHODS:
                    judged += 1
                    rep.ok('R20.k', fkey(fi, n), '%s cannot raise for any file name' % short(n, 40), flaw, n)
                elif f.attr in _PARTIAL_METHODS and _PARTIAL_METHODS[f.attr] and not contained(n):
                    judged += 1
                    rep.fail('R20.k', fkey(fi, n), '%s is applied to a file name outside any catch-all handler (%s): for such a name '
                             'create_app does not construct' % (short(n, 50), _PARTIAL_METHODS[f.attr]), flaw, n)
                continue
            # a library function handed on by reference to be applied to every entry: names.sort(key=os.path.getmtime),
            # map(int, names), filter(os.path.getsize, names)
            on_list = (isinstance(f, ast.Attribute) and t.kind_of(f.value) == 'L') or any(t.kind_of(a) == 'L' for a in n.args)
            if on_list:
                for a in list(n.args) + [k.value for k in n.keywords]:
                    if isinstance(a, (ast.Name, ast.Attribute)) and _PARTIAL_FUNCS.get(norm(a)) and not contained(n) and \
                            not (isinstance(a, ast.Name) and (a.id in base._all_params(fi) or assigned_value(fi.node, a.id))):
                        judged += 1
                        rep.fail('R20.k', fkey(fi, n), '%s applies %s to every file name outside any catch-all handler (%s): for such a '
                                 'name create_app does not construct' % (short(n, 60), norm(a), _PARTIAL_FUNCS[norm(a)]), flaw, n)
            handed = [a for a in list(n.args) + [k.value for k in n.keywords] if _mentions_entry(t, a)]
            lists_handed = [(i, a) for i, a in enumerate(n.args) if t.kind_of(a) == 'L']
            g = base._module_callee(repo, fi, n)
            if g is not None and (handed or lists_handed) and not contained(n) and g.node is not fi.node:
                gps = g.params()
                nl = frozenset(gps[i] for i, a in enumerate(n.args) if i < len(gps) and t.kind_of(a) == 'L') | \
                    frozenset(k.arg for k in n.keywords if k.arg in gps and t.kind_of(k.value) == 'L')
                ne = frozenset(gps[i] for i, a in enumerate(n.args) if i < len(gps) and t.kind_of(a) == 'E') | \
                    frozenset(k.arg for k in n.keywords if k.arg in gps and t.kind_of(k.value) == 'E')
                if nl or ne:
                    todo.append((g, nl, ne))
                continue
            if not handed:
                continue
            name = norm(f)
            if isinstance(f, ast.Name) and (f.id in base._all_params(fi) or assigned_value(fi.node, f.id)):
                continue                 # a local callable: not a library function
            if name in _TOTAL_FUNCS:
                judged += 1
                rep.ok('R20.k', fkey(fi, n), '%s cannot raise for any file name' % short(n, 40), flaw, n)
            elif name in _PARTIAL_FUNCS and _PARTIAL_FUNCS[name]:
                if contained(n):
                    judged += 1
                    rep.ok('R20.k', fkey(fi, n), '%s can raise, under a catch-all handler' % short(n, 40), flaw, n)
                    continue
                judged += 1
                rep.fail('R20.k', fkey(fi, n), '%s is handed a file name outside any catch-all handler (%s): for such a name create_app '
                         'does not construct' % (short(n, 60), _PARTIAL_FUNCS[name]), flaw, n)
    if not judged:
        rep.notes.append('R20.k declined: no operation on the entries of the monitored-file list was found')
