"""C19 -- Stats count every request once and keep bounded samples.

Decided:
  R19.a  StatsMiddleware.request: the ``...add(hit)`` call(s) run exactly once after next() on the normal
         and on the exceptional path (outside loops); the handler re-raises; the status key comes from
         status_code of the result / ``getattr(exc, 'code', <class name>)`` of the exception; the hit is filed
         under self.route_hits[_route][<status key>] (receiver read through named temporaries) and
         ``self.route_hits`` is read *after* next() ran (reset() re-binds it: a table captured before would be
         an orphan); the recorded value is Hit(...) with the fields in the namedtuple's declared order
         (positional or keyword);
  R19.b  get_and_reset_stats_dict computes its report (a get_stats_dict call) before reset() on every path and
         returns that report (or a dict built over it); reset() rebinds route_hits to a fresh mapping; the
         constructor initialises through reset() or such a binding; in the per-status dict that
         _get_route_stats *reports* (followed through ``ret[k] = cur = {}`` aliases, dict comprehensions,
         dict()/{**} copies and module-level helpers) the 'count' entry taken from total_count is the last
         writer of that key (describe() brings its own 'count');  the endpoints may only look the middleware up and hand
         over to one of its methods, the summary may be a method of the reservoir: calls are followed into plain methods
         when the class of the receiver is known from the source (constructor call, selecting isinstance test, ``self``,
         factory of the defaultdict that reset() builds, every call site of a parameter) -- never from names;
  R19.c  Reservoir: _total_count is incremented exactly once on every path of add(); every append on
         _data and every indexed store is entailed in-bounds by its path condition (difference constraints
         over terms with named temporaries / aliases of self._data looked through) and is the first write of the
         call (the facts are stale after a write); resize() leaves len(_data) <= _cap (bound test, possibly via a
         named flag, or truncation); only the value passed to add() is stored; nobody outside Reservoir's own
         methods writes _data/_cap/_total_count; iteration is over _data (return iter(..) or generator form);
         the subclass delegates to the base add exactly once (super() or explicit base call).
  R19.d  instance custody: the object whose route_hits the stats endpoints read (and reset) is an *element* of
         ``_application.middlewares`` picked by isinstance(.., StatsMiddleware) -- never a copy or a fresh instance (reads /
         resets inside methods of the middleware count for the receiver of the endpoint's call that led there); a bound
         route's own middleware list is merge(<route level>, <that application's list>) with the application being the one
         later injected as ``_application``; the merge result holds every element of the application-level argument by
         identity (it starts as a copy of it and no element is replaced or removed afterwards -- Middleware.__eq__ compares
         by type, so ``x in merged`` says nothing about identity); the chain is compiled from that list.  Otherwise a route
         carrying its own StatsMiddleware() counts on an instance nobody reads.
Added in the fourth pass:
  R19.a  the status key is the code itself, only rendered as text (repr / str / %r of ``getattr(x, 'status_code' | 'code', ..)``), not a
         value computed from it; the table fetch is judged against next(): no fetch can be followed by next(), and -- only next() and
         explicit raises being taken to raise -- none is reached without next() having run;
  R19.b  a reservoir per (route, status): the factories of the table reset() builds construct (a class, a zero-argument lambda /
         partial / function of the tree whose result is a construction) and never hand out an existing object; the report path
         (get_stats_dict and what it calls inside the module, receivers typed as above) is read-only: no reset(), no removing / bulk
         write on the tables, no call of a method that writes its receiver's state; the routing table of the stats application has a
         route whose endpoint resets, and no route answering GET does;
  R19.c  _total_count is written only by __init__ and add(); it starts as len() of the object bound to _data; the constructor puts
         values into the store only through add(); one add() on the subclass is one activation of the base add: inherited, or an
         override delegating once, and no method that activation dispatches to on the receiver (template-method hooks, resolved on
         the subclass) enters add() again;
  R19.d  Application.__init__ binds self.middlewares to a copy (the list the endpoints search cannot be edited from outside).
Added in the fifth pass (moves across modules, modernisation):
  every anchor is followed to the module its definition lives in now (``fi.mod``): statements, path conditions and constants are looked
  up there; the writers of the store's state are Reservoir's own methods *by identity*; call sites of a followed function and the
  functions on the report path are looked for across the analysed tree;
  R19.a  the declared field order of the record type is read from ``namedtuple(..)``, a ``typing.NamedTuple`` class, a dataclass /
         attrs class or a plain class whose constructor stores every parameter under its own name; the exceptional status key may be
         spelt as a test (``hasattr(e, 'code')`` / a lookup with a module-level sentinel compared by identity): the code where there is
         one, the class name where there is none;
  R19.b  where the report is assembled inside the report-and-reset function itself (the assembling helper was dissolved), the report
         statements are the statements that read ``<mw>.route_hits`` (or a local that only ever names that table): all of them before
         reset() on every path, and what is returned holds what they computed;
  R19.c  a read-only property of the store (``self._data_count``) is read through its return expression (front-end, read_properties).
Each group runs in isolation (a gap in one does not hide violations of the others).
Declined: sampling statistics (uniformity); totals per status over histories.
"""
import ast

from ..core import AnalysisError, norm, short
from .. import diffcon, effects
from ..cfg import expand_conds
from .common import (cfg_of, fkey, conds, has_cond, cond_texts, stmts_of, walk_body, call_tail, call_name,
                     returns_of, handler_reraises_always, stmt_of)
from ..astutil import assigned_value
from .c15 import next_derived, is_next_call, _guarded
from .c15_paths import module_sentinels

STATS = 'clastic.middleware.stats'


def _exactly_once(cfg, nodes, src_nodes, dsts, exc_from=None):
    """Every path src->dst passes ``nodes`` and never twice.  With exc_from: only those statements (and
    explicit ``raise``s) are assumed able to raise; bookkeeping statements are assumed not to."""
    kw = {} if exc_from is None else {'normal_only': True, 'exc_from': set(exc_from)}
    if not nodes:
        return False, 'no such statement'
    if not cfg.must_pass(nodes, src_nodes, dsts, **kw):
        return False, 'a path to the end of the call skips it'
    for n in nodes:
        again = cfg.reach(cfg.succ[n], **kw)
        if set(nodes) & again:
            return False, 'it can run more than once per call (loop or duplicate)'
    return True, ''


def run(rep):
    repo = rep.repo
    st = repo.mod(STATS)
    rep.decide('R19.a exactly one recorded hit per call, keyed by status/exception; R19.b report-before-reset; '
               'R19.c bounded writes on the sample store; R19.d the instance the report reads/resets is the one the routes run '
               '(element of _application.middlewares; the merge keeps the application-level instances by identity)')
    rep.assume("Middleware.__eq__ compares by type (clastic.middleware.core): membership in a middleware list says nothing about identity")
    rep.decline('uniformity of sampling; totals per status over request histories')
    rep.assume('random.random() returns a float in [0, 1) so fast_randint(0, n) is a non-negative int')
    rep.rule('R19.a', 'the hit is recorded exactly once per call on normal and exceptional paths, under [_route][status]')
    rep.rule('R19.b', 'report is computed before reset; reset rebinds to a fresh mapping; count is total_count')
    rep.rule('R19.c', 'Reservoir: count once per add; appends and indexed stores entailed in-bounds; resize keeps len<=cap')
    # every group runs even when another one cannot be analysed (its gap is reported as ANALYSIS-ERROR at the end)
    rep.rule('R19.d', 'the StatsMiddleware instance the report reads / resets is the instance the routes run')
    for group in (_request_records_once, _report_before_reset, _reported_count, _report_read_only, _report_complete, _stats_app_routes, _reservoir_add, _reservoir_resize,
                  _reservoir_init, _reservoir_rest, _report_reads_running_instance):
        _guarded(rep, group, rep, repo, st)
    for rule, n in (('R19.a', 8), ('R19.b', 6), ('R19.c', 12), ('R19.d', 5)):
        rep.guard(rep.floor, rule, n)


# ---- R19.a ---------------------------------------------------------------------------------------------------------
def _request_records_once(rep, repo, st):
    rq = st.func('StatsMiddleware.request')
    st = rq.mod         # (where the middleware lives now)
    cfg = cfg_of(rq)
    next_stmts = [s for s in stmts_of(rq.node) if not isinstance(s, (ast.Try, ast.If, ast.For, ast.While, ast.With))
                  and any(is_next_call(c) for c in ast.walk(s) if isinstance(c, ast.Call))]
    if len(next_stmts) != 1:
        raise AnalysisError('StatsMiddleware.request: expected exactly one next() call, found %d' % len(next_stmts))
    nd = next_derived(rq)
    Lq = diffcon.Locals(rq.node, cfg, keep=nd)
    # the recording call: ``<...route_hits...>.add(hit)``, the receiver read through named temporaries
    add_calls, add_recv, add_via = [], {}, {}
    for c in walk_body(rq.node):
        if isinstance(c, ast.Call) and call_tail(c) == 'add' and isinstance(c.func, ast.Attribute):
            via = []
            r = Lq.resolve(c.func.value, stmt_of(st, c), via=via)
            if 'route_hits' in norm(r) or 'route_hits' in norm(c.func.value):
                add_calls.append(c)
                add_recv[id(c)], add_via[id(c)] = r, via
    if not add_calls:
        raise AnalysisError('StatsMiddleware.request: no route_hits[...].add(...) call')
    add_stmts = [stmt_of(st, c) for c in add_calls]
    add_nodes = cfg.nodes_of_all(add_stmts)
    next_nodes = cfg.nodes_of(next_stmts[0])
    rep.assume('in StatsMiddleware.request only next() (user code) and explicit raise statements raise; the '
               'time/namedtuple bookkeeping statements do not')
    ok, why = _exactly_once(cfg, add_nodes, next_nodes, [cfg.exit, cfg.raise_exit], exc_from=next_nodes)
    rep.check('R19.a', fkey(rq, 'add(hit) once'), ok,
              'route_hits[..][..].add(hit) runs exactly once after next() on every normal and exceptional path' if ok else
              'recording the hit: ' + why, st, add_stmts[0])
    # the handler around next() re-raises
    tries = [t for t in stmts_of(rq.node) if isinstance(t, ast.Try) and any(s is next_stmts[0] for b in t.body for s in ast.walk(b))]
    for t in tries:
        for h in t.handlers:
            ok = handler_reraises_always(rq, h)
            rep.check('R19.a', fkey(rq, 'except ' + norm(h.type)), ok, 'handler re-raises the exception it counted' if ok else
                      'handler around next() swallows the exception', st, h)
    # where the hit is filed
    add = add_calls[0]
    recv = add_recv[id(add)]      # self.route_hits[_route][resp_status]
    keys = []
    cur = recv
    while isinstance(cur, ast.Subscript):
        keys.append(norm(cur.slice))
        cur = cur.value
    keys.reverse()
    ok = len(keys) == 2 and keys[0] == '_route' and norm(cur) == 'self.route_hits'
    rep.check('R19.a', fkey(rq, 'key order'), ok, 'hit is filed under self.route_hits[_route][%s]' % (keys[1] if len(keys) == 2 else '?') if ok else
              'hit is not filed under self.route_hits[_route][<status>]: %s' % short(recv), st, add)
    # the cell exists when the hit is filed: a receiver spelt with plain subscripts relies on the table making the per-route
    # mapping and the per-status reservoir on first use (defaultdict factories, two levels, ending in a reservoir class)
    if ok and isinstance(recv, ast.Subscript) and isinstance(recv.value, ast.Subscript):
        t = _type_of(repo, rq, cur, stmt_of(st, add), look=False)
        made = t is not None and t[0] == 'map' and t[1] is not None and t[1][0] == 'map' and t[1][1] is not None and t[1][1][0] == 'inst' \
            and repo.find_method(t[1][1][1], 'add') is not None
        if t is None:
            # what is bound to self.route_hits: a plain dict never makes a cell; anything else is not understood
            vals = [v for m in (rq.cls.methods.values() if rq.cls is not None else []) for s_ in stmts_of(m.node) for tg, v in _assign_pairs(s_)
                    if norm(tg) == norm(cur)]
            def plain_map(v):
                return isinstance(v, (ast.Dict, ast.DictComp)) or (isinstance(v, ast.Call) and call_name(v) in ('dict', 'OrderedDict'))

            def no_cells(v):
                """a mapping that, at the first or at the second level, is a plain one"""
                if plain_map(v):
                    return True
                if isinstance(v, ast.Call) and call_tail(v) == 'defaultdict' and v.args:
                    f = v.args[0]
                    if isinstance(f, ast.Name) and f.id in ('dict', 'list', 'set', 'int', 'float', 'str', 'OrderedDict'):
                        return True
                    if isinstance(f, ast.Lambda) and (plain_map(f.body) or isinstance(f.body, (ast.List, ast.Set, ast.Constant))):
                        return True
                return False
            plain = [v for v in vals if no_cells(v)]
            if not plain:
                raise AnalysisError('StatsMiddleware.request: cannot tell whether %s creates the cell %s on first use' % (norm(cur), short(recv)))
        rep.check('R19.a', fkey(rq, 'cell exists'), made,
                  'the table makes the per-route mapping and the per-status reservoir on first use (%s)' % t[1][1][1].name if made else
                  'the hit is filed under %s with plain subscripts, but the table bound to %s does not create missing cells (no factories down to a '
                  'reservoir): the first request of a route raises KeyError inside the middleware and is not counted' % (short(recv), norm(cur)), st, add)
    # the table is looked up when the hit is recorded: reset() re-binds self.route_hits, so a table fetched before
    # next() ran may be an orphan by the time the hit is added (the request would be counted nowhere)
    readers = [s_ for s_ in [stmt_of(st, add)] + add_via[id(add)]
               if any(isinstance(x, ast.Attribute) and x.attr == 'route_hits' for x in diffcon._header_nodes(s_))]
    # (early: next() can still run once the table was fetched, or -- where only next() and explicit raises are taken to raise,
    # the assumption stated above -- the fetch can be reached without next() having run at all)
    early = [s_ for s_ in readers if set(next_nodes) & cfg.reach(cfg.nodes_of(s_)) or
             not cfg.must_pass(next_nodes, cfg.entry, cfg.nodes_of(s_), normal_only=True, exc_from=set(next_nodes))]
    rep.check('R19.a', fkey(rq, 'table looked up after next()'), bool(readers) and not early,
              'self.route_hits is read after next() returned/raised, where the hit is recorded' if readers and not early else
              'self.route_hits is captured before next() runs (%s): a reset() during the request leaves the hit in an orphaned table'
              % ('; '.join(short(s_) for s_ in early) or 'no read of self.route_hits found'), st, (early or [stmt_of(st, add)])[0])
    # status key provenance
    status_var = keys[1] if len(keys) == 2 else None
    sv_assigns = [s for s in stmts_of(rq.node) if isinstance(s, ast.Assign) and norm(s.targets[0]) == status_var]
    body_ok = exc_ok = False

    def _class_name_of(e, v):
        return norm(e) in ('%s.__class__.__name__' % v, 'type(%s).__name__' % v)

    def _lenient(e, v, attr, any_default=False):
        """``getattr(v, attr, <class name of v>)`` somewhere in e (named temporaries already looked through)"""
        for n in ast.walk(e):
            if isinstance(n, ast.Call) and call_name(n) == 'getattr' and len(n.args) == 3 and norm(n.args[0]) == v and \
                    isinstance(n.args[1], ast.Constant) and n.args[1].value == attr and (any_default or _class_name_of(n.args[2], v)):
                return True
        return False
    computed = []

    def _rendered(e):
        """the expression whose text rendering ``e`` is: repr(x) / str(x) / '%r' % x / f'{x!r}' -> x (else e itself)"""
        while True:
            if isinstance(e, ast.Call) and call_name(e) in ('repr', 'str', 'ascii') and len(e.args) == 1 and not e.keywords:
                e = e.args[0]
            elif isinstance(e, ast.BinOp) and isinstance(e.op, ast.Mod) and isinstance(e.left, ast.Constant) and e.left.value in ('%r', '%s'):
                e = e.right.elts[0] if isinstance(e.right, ast.Tuple) and len(e.right.elts) == 1 else e.right
            elif isinstance(e, ast.JoinedStr) and len(e.values) == 1 and isinstance(e.values[0], ast.FormattedValue) and e.values[0].format_spec is None:
                e = e.values[0].value
            else:
                return e
    sentinels = module_sentinels(repo, st)
    split_kinds = set()

    def _pieces(e, cs):
        """[(value, conditions)]: the alternatives of a conditional expression, each with the outcome of its test"""
        e = _rendered(e)
        if isinstance(e, ast.IfExp):
            return _pieces(e.body, cs + [(e.test, True)]) + _pieces(e.orelse, cs + [(e.test, False)])
        return [(e, cs)]

    def _code_lookup(e, v):
        """``v.code`` / ``getattr(v, 'code', <sentinel of the module>)``: the code, where there is one"""
        if isinstance(e, ast.Attribute) and e.attr == 'code' and norm(e.value) == v:
            return True
        return isinstance(e, ast.Call) and call_name(e) == 'getattr' and len(e.args) == 3 and not e.keywords and norm(e.args[0]) == v and \
            isinstance(e.args[1], ast.Constant) and e.args[1].value == 'code' and isinstance(e.args[2], ast.Name) and e.args[2].id in sentinels

    def _has_code(cs, v):
        """what the conditions say about ``v`` having a code: True / False / None"""
        for t, p in cs:
            if isinstance(t, ast.Call) and call_name(t) == 'hasattr' and len(t.args) == 2 and norm(t.args[0]) == v and \
                    isinstance(t.args[1], ast.Constant) and t.args[1].value == 'code':
                return p
            if isinstance(t, ast.Compare) and len(t.ops) == 1 and isinstance(t.ops[0], (ast.Is, ast.IsNot)):
                a, b = t.left, t.comparators[0]
                if isinstance(a, ast.Name) and a.id in sentinels:
                    a, b = b, a
                if isinstance(b, ast.Name) and b.id in sentinels and _code_lookup(a, v) and isinstance(a, ast.Call) and a.args[2].id == b.id:
                    return p is isinstance(t.ops[0], ast.IsNot)
        return None
    for s in sv_assigns:
        hs = [p for p in _ancestors(st, s) if isinstance(p, ast.ExceptHandler)]
        val = Lq.resolve(s.value, s)
        core = _rendered(val)
        if hs:
            if hs[0].name and _lenient(val, hs[0].name, 'code'):
                exc_ok = True
                if not (isinstance(core, ast.Call) and call_name(core) == 'getattr'):
                    computed.append(s)
            elif hs[0].name:
                # the same decision spelt as a test: the code where the exception has one (``hasattr`` / a sentinel lookup that did
                # not come back with the sentinel), its class name where it has none
                for piece, cs in _pieces(val, Lq.conds(conds(rq, s), st)):
                    has = _has_code(cs, hs[0].name)
                    if _code_lookup(piece, hs[0].name) and has is True:
                        split_kinds.add('code')
                    elif _class_name_of(piece, hs[0].name) and has is False:
                        split_kinds.add('name')
                    else:
                        split_kinds.add('other')
        elif any(_lenient(val, v, 'status_code', True) or
                 any(isinstance(n, ast.Attribute) and n.attr == 'status_code' and norm(n.value) == v for n in ast.walk(val)) for v in nd):
            body_ok = True
            if not ((isinstance(core, ast.Call) and call_name(core) == 'getattr') or (isinstance(core, ast.Attribute) and core.attr == 'status_code')):
                computed.append(s)
    if not exc_ok and split_kinds == {'code', 'name'}:
        exc_ok = True
    if computed:
        # the key is a function of the code, not the code: several codes would be counted under one key
        body_ok = body_ok and not any(not [p for p in _ancestors(st, s) if isinstance(p, ast.ExceptHandler)] for s in computed)
        exc_ok = exc_ok and not any([p for p in _ancestors(st, s) if isinstance(p, ast.ExceptHandler)] for s in computed)
    rep.check('R19.a', fkey(rq, 'status key (result)'), body_ok, 'status key derives from status_code of the next() result' if body_ok else
              'status key on the normal path is not the result\'s status_code itself (rendered as text)%s'
              % (': it is computed from it (%s)' % short(computed[0]) if computed else ''), st, rq.node)
    rep.check('R19.a', fkey(rq, 'status key (exception)'), exc_ok,
              'status key derives from the exception\'s code, else its class name' if exc_ok else
              'status key on the exceptional path is not the exception\'s code / class name itself%s'
              % (': it is computed from it (%s)' % short(computed[0]) if computed else ''), st, rq.node)
    # the keys of one route's table are of one kind -- text: the code is filed under its rendering, as the class name of an exception
    # without a code is text anyway (a table keyed by 404 and 'ValueError' cannot be sorted / serialised with sorted keys: the report
    # and the totals of the reset endpoint are never delivered).  Kinds over the finite domain {str, int, mixed}; the HTTP code
    # attributes (status_code / code) are ints.
    kinds = [(Lq.resolve(s.value, s), _key_kind(Lq.resolve(s.value, s))) for s in sv_assigns]
    if kinds:
        unknown = [s for s, k in kinds if k is None]
        if unknown:
            raise AnalysisError('StatsMiddleware.request: cannot tell of what kind (text / number) the status key %s is' % short(unknown[0]))
        ks = set(k for _, k in kinds)
        ok = ks == {'str'}
        worst = [s for s, (_, k) in zip(sv_assigns, kinds) if k != 'str']
        rep.check('R19.a', fkey(rq, 'status key kind'), ok,
                  'every status key is text (the code rendered by repr / str / %%, the class name as it is): %d binding(s)' % len(kinds) if ok else
                  'the status keys of one route are not all text (%s): the code itself (an int) is used as a key next to class names (str), so the '
                  'per-route table has keys of mixed kinds -- it cannot be sorted / serialised with sorted keys, the report and the totals of the reset '
                  'endpoint are not delivered' % '; '.join('%s is %s' % (short(s, 60), k) for s, k in kinds), st, (worst or [rq.node])[0])
    # Hit field order: the recorded value is Hit(...) with the arguments lined up with the namedtuple's fields
    fields = _record_fields(repo, st, 'Hit')
    hc = Lq.resolve(add.args[0], stmt_of(st, add), stop=lambda n: n == status_var) if len(add.args) == 1 else None
    if not (isinstance(hc, ast.Call) and call_name(hc) == 'Hit'):
        hit_calls = [c for c in walk_body(rq.node) if isinstance(c, ast.Call) and call_name(c) == 'Hit']
        hc = Lq.resolve(hit_calls[0], stmt_of(st, hit_calls[0]), stop=lambda n: n == status_var) if hit_calls else None
    if hc is None or not fields:
        raise AnalysisError('Hit namedtuple / construction not found')
    got = dict(zip(fields, [norm(a) for a in hc.args]))
    got.update((k.arg, norm(k.value)) for k in hc.keywords)
    want = {'status_code': status_var, 'pattern': '_route.pattern', 'url': 'request.path'}
    bad = dict((k, got.get(k)) for k, v in want.items() if got.get(k) != v)
    ok = not bad and len(hc.args) + len(hc.keywords) == len(fields) and not any(isinstance(a, ast.Starred) for a in hc.args)
    rep.check('R19.a', fkey(rq, 'Hit fields'), ok, 'Hit(...) arguments line up with the namedtuple fields %s' % fields if ok else
              'Hit(...) arguments do not line up with fields %s: %r' % (fields, bad or got), st, add)
    # return value
    rets = returns_of(rq)
    ok = bool(rets) and all(isinstance(r.value, ast.Name) and r.value.id in nd for r in rets)
    rep.check('R19.a', fkey(rq, 'return'), ok, 'returns the next() result' if ok else 'does not return the next() result', st, rq.node)


CODE_ATTRS = {'status_code', 'code'}       # HTTP status codes: ints (werkzeug BaseResponse.status_code, HTTPException.code)


def _key_kind(e):
    """of what kind the value of expression ``e`` (named temporaries already looked through) is as a dictionary key: 'str', 'int',
    'mixed' (one or the other, depending on the path / the object), or None when it cannot be told"""
    def join(ks):
        ks = list(ks)
        if not ks or any(k is None for k in ks):
            return None
        return ks[0] if all(k == ks[0] for k in ks) else 'mixed'
    if isinstance(e, ast.Constant):
        return 'str' if isinstance(e.value, str) else 'int' if isinstance(e.value, int) and not isinstance(e.value, bool) else None
    if isinstance(e, ast.JoinedStr):
        return 'str'
    if isinstance(e, ast.BinOp) and isinstance(e.op, ast.Mod) and (isinstance(e.left, ast.JoinedStr) or
                                                                  (isinstance(e.left, ast.Constant) and isinstance(e.left.value, str))):
        return 'str'
    if isinstance(e, ast.BinOp) and isinstance(e.op, ast.Add):
        return join([_key_kind(e.left), _key_kind(e.right)])
    if isinstance(e, ast.Call):
        if isinstance(e.func, ast.Name) and e.func.id in ('repr', 'str', 'ascii', 'format'):
            return 'str'
        if isinstance(e.func, ast.Name) and e.func.id == 'int':
            return 'int'
        if isinstance(e.func, ast.Attribute) and e.func.attr in ('format', 'join', 'lower', 'upper', 'strip', 'title') and \
                (isinstance(e.func.value, ast.Constant) and isinstance(e.func.value.value, str) or _key_kind(e.func.value) == 'str'):
            return 'str'
        if isinstance(e.func, ast.Name) and e.func.id == 'getattr' and len(e.args) in (2, 3) and not e.keywords and isinstance(e.args[1], ast.Constant):
            own = 'int' if e.args[1].value in CODE_ATTRS else 'str' if e.args[1].value in ('__name__', '__qualname__') else None
            return own if len(e.args) == 2 else join([own, _key_kind(e.args[2])])
        return None
    if isinstance(e, ast.Attribute):
        return 'int' if e.attr in CODE_ATTRS else 'str' if e.attr in ('__name__', '__qualname__') else None
    if isinstance(e, ast.IfExp):
        return join([_key_kind(e.body), _key_kind(e.orelse)])
    if isinstance(e, ast.BoolOp):
        return join(_key_kind(v) for v in e.values)
    return None


def _record_fields(repo, mod, name):
    """Declared field order of the record type module ``mod`` knows as ``name`` (imports followed): what the positional arguments of
    its constructor mean.  ``namedtuple('N', <fields>)`` (also as the only base of a class that adds methods only), a
    ``typing.NamedTuple`` class, a ``@dataclass`` / ``@attr.s`` class (annotated fields / ``attr.ib()`` bindings, in order), a plain class
    whose ``__init__`` stores every parameter under its own name.  None when the type is none of these."""
    def spec_of(call, m):
        if isinstance(call, ast.Call) and call_tail(call) == 'namedtuple' and len(call.args) >= 2:
            f = repo.try_fold(call.args[1], m)
            return f.replace(',', ' ').split() if isinstance(f, str) else (list(f) if f else None)
        return None
    try:
        kind, m, obj = repo.resolve(mod, name)
    except Exception:
        return None
    if kind == 'value':
        for v in obj:
            f = spec_of(v, m)
            if f:
                return f
        return None
    if kind != 'class' or m is None or m.external:
        return None
    node = obj.node
    body_defs = set(x.name for x in node.body if isinstance(x, (ast.FunctionDef, ast.AsyncFunctionDef)))
    annotated = [x.target.id for x in node.body if isinstance(x, ast.AnnAssign) and isinstance(x.target, ast.Name)
                 and 'ClassVar' not in norm(x.annotation)]
    if len(node.bases) == 1 and not node.keywords:
        b = node.bases[0]
        if spec_of(b, m) and not body_defs & {'__new__', '__init__'}:
            return spec_of(b, m)
        if not node.decorator_list and ((isinstance(b, ast.Name) and m.imports.get(b.id) == ('typing', 'NamedTuple')) or
                                        (isinstance(b, ast.Attribute) and b.attr == 'NamedTuple' and isinstance(b.value, ast.Name)
                                         and m.imports.get(b.value.id) == ('typing', None))):
            return annotated or None
    decos = [norm(d.func if isinstance(d, ast.Call) else d) for d in node.decorator_list]
    if decos and not body_defs & {'__new__', '__init__'}:
        if any(isinstance(d, ast.Call) and any(k.arg in ('init', 'kw_only', 'these') for k in d.keywords) for d in node.decorator_list):
            return None
        if len(decos) == 1 and decos[0].rpartition('.')[2] == 'dataclass':
            return annotated or None
        if len(decos) == 1 and decos[0] in ('attr.s', 'attr.attrs', 'attr.define', 'attr.frozen', 'attrs.define', 'attrs.frozen', 'attr.dataclass'):
            made = [t.id for x in node.body if isinstance(x, ast.Assign) and isinstance(x.value, ast.Call)
                    and call_tail(x.value) in ('ib', 'attrib', 'attr', 'field') for t in x.targets if isinstance(t, ast.Name)]
            if made and annotated:
                return None         # (two ways of declaring mixed: the order is attrs' business)
            return made or annotated or None
        return None
    if not decos and '__init__' in obj.methods and '__new__' not in body_defs and not node.keywords:
        init = obj.methods['__init__']
        a = init.node.args
        ps = init.params()[1:]
        if a.vararg or a.kwarg or not ps:
            return None
        sn = init.params()[0]
        stored = dict((t.attr, v.id) for s_ in stmts_of(init.node) for t, v in _assign_pairs(s_)
                      if isinstance(t, ast.Attribute) and isinstance(t.value, ast.Name) and t.value.id == sn and isinstance(v, ast.Name))
        rebound = set(n.id for n in ast.walk(init.node) if isinstance(n, ast.Name) and isinstance(n.ctx, (ast.Store, ast.Del)))
        if all(stored.get(p_) == p_ for p_ in ps) and not rebound & set(ps):
            return ps
    return None


# ---- R19.b ---------------------------------------------------------------------------------------------------------
def _report_before_reset(rep, repo, st):
    # the report function: the endpoint get_stats_dict and, when that only looks the middleware up and hands over to one of
    # its methods, that method (and so on)
    report_funcs = _delegation_chain(repo, st.func('get_stats_dict'))

    def report_calls(fi):
        out = []
        for c in walk_body(fi.node):
            if isinstance(c, ast.Call) and call_tail(c) != 'reset':
                f = _resolve_call(repo, fi, c)[0] if call_name(c) != 'get_stats_dict' else None
                if call_name(c) == 'get_stats_dict' or (f is not None and (any(f is g for g in report_funcs) or _reads_table(repo, f))):
                    out.append(c)
        return out

    def reset_calls(fi):
        return [c for c in walk_body(fi.node) if isinstance(c, ast.Call) and call_tail(c) == 'reset']
    # the function that reports and resets: the endpoint, or the method it hands over to
    gr = st.func('get_and_reset_stats_dict')
    for f in _delegation_chain(repo, gr):
        gr = f
        if report_calls(f) or reset_calls(f):
            break
    cfg_gr = cfg_of(gr)
    Lg = diffcon.Locals(gr.node, cfg_gr)
    # statements that compute the report / reset the counters (wherever the calls sit in them)
    rep_calls = report_calls(gr)
    rep_texts = set(norm(c) for c in rep_calls)
    # ... or reads the table where it stands (the report assembled in the function itself): loads of <x>.route_hits and of locals
    # that only ever name such a table (``rt_hits = stats_mw.route_hits``)
    aliases = set(n for n, ds in Lg.defs.items() if ds and all(isinstance(Lg._value[(id(d), n)], ast.Attribute) and
                                                                Lg._value[(id(d), n)].attr == 'route_hits' for d in ds))

    def reads(e):
        return any((isinstance(x, ast.Call) and norm(x) in rep_texts) or
                   (isinstance(x, ast.Attribute) and x.attr == 'route_hits' and isinstance(x.ctx, ast.Load)) or
                   (isinstance(x, ast.Name) and x.id in aliases and isinstance(x.ctx, ast.Load)) for x in ast.walk(e))
    read_st = [s_ for s_ in stmts_of(gr.node) if any(isinstance(x, ast.expr) and not isinstance(x, ast.Lambda) and reads(x)
                                                      for x in diffcon._header_nodes(s_) if x is not s_)]
    rep_st = _uniq([stmt_of(gr.mod, c) for c in rep_calls] + read_st)
    reset_st = _uniq(stmt_of(gr.mod, c) for c in reset_calls(gr))
    if not rep_st and not reset_st:
        raise AnalysisError('get_and_reset_stats_dict: neither a get_stats_dict(...) nor a reset() call found')
    rep_nodes = cfg_gr.nodes_of_all(rep_st)
    ok = len(rep_st) >= 1 and len(reset_st) >= 1 and \
        all(cfg_gr.must_pass(rep_nodes, cfg_gr.entry, cfg_gr.nodes_of(r)) for r in reset_st) and \
        not (set(rep_nodes) & cfg_gr.reach(cfg_gr.nodes_of_all(reset_st), include_src=False))
    rep.check('R19.b', fkey(gr, 'report before reset'), ok, 'totals are collected before the counters are reset' if ok else
              'reset() can run before the report is computed', gr.mod, gr.node)
    # what is returned is that report: the local it was bound to, or a dict built over it (dict(report, reset=True))
    rets = returns_of(gr)
    ok = bool(rets)
    for r in rets:
        via = []
        v = Lg.resolve(r.value, r, via=via) if r.value is not None else None
        src = [s_ for s_ in via + [r] if s_ in rep_st]
        good = v is not None and bool(src) and reads(v)
        if not good and v is not None:
            # ``ret = self.get_stats_dict(); self.reset(); return ret``: the name cannot be read as its expression any more (the
            # reset changes what that would compute) but the object it holds is the one bound by the report statement -- or by a
            # statement computing from such an object (``out = dict(ret, reset=True)``), or it is a container made empty and filled
            # by / under statements that read the table (``ret = {}`` / ``for rt, rh in rt_hits.items(): ret[..] = ..``)
            def holds_report(name, nodes, depth=0):
                d = Lg.reaching(name, nodes) if nodes and depth < 4 else None
                if d is None:
                    return False
                val = Lg._value[(id(d), name)]
                if any(d is x for x in rep_st) and reads(val):
                    return True
                d_nodes = [n_ for n_ in cfg_gr.nodes_of(d) if cfg_gr.reachable(n_)]
                if any(isinstance(x, ast.Name) and isinstance(x.ctx, ast.Load) and x.id != name and holds_report(x.id, d_nodes, depth + 1)
                       for x in ast.walk(val)):
                    return True
                empty = (isinstance(val, (ast.Dict, ast.List)) and not (val.keys if isinstance(val, ast.Dict) else val.elts)) or \
                    (isinstance(val, ast.Call) and call_name(val) in ('dict', 'list', 'OrderedDict') and not val.args and not val.keywords)
                if empty:
                    for s_ in stmts_of(gr.node):
                        into = [t for t in (s_.targets if isinstance(s_, ast.Assign) else [s_.target] if isinstance(s_, ast.AugAssign) else [])
                                if isinstance(t, ast.Subscript) and isinstance(t.value, ast.Name) and t.value.id == name]
                        if isinstance(s_, ast.Expr) and isinstance(s_.value, ast.Call) and isinstance(s_.value.func, ast.Attribute) and \
                                isinstance(s_.value.func.value, ast.Name) and s_.value.func.value.id == name:
                            into.append(s_.value)
                        if into and any(any(x is y for y in rep_st) for x in [s_] + [a_ for a_ in _ancestors(gr.mod, s_)
                                                                                     if isinstance(a_, (ast.For, ast.While))]):
                            return True
                return False
            r_nodes = [n for n in cfg_gr.nodes_of(r) if cfg_gr.reachable(n)]
            for n in ast.walk(v):
                if isinstance(n, ast.Name) and isinstance(n.ctx, ast.Load) and holds_report(n.id, r_nodes):
                    good = True
        ok = ok and good
    rep.check('R19.b', fkey(gr, 'returns report'), ok, 'the pre-reset report is what is returned' if ok else
              'the returned value is not the pre-reset report', gr.mod, gr.node)
    ok = bool(reset_st) and cfg_gr.must_pass(cfg_gr.nodes_of_all(reset_st), cfg_gr.entry, cfg_gr.exit)
    rep.check('R19.b', fkey(gr, 'reset on every path'), ok, 'reset() runs on every normal path' if ok else
              'a normal path skips reset()', gr.mod, gr.node)
    rs = st.func('StatsMiddleware.reset')
    cfg_rs = cfg_of(rs)
    Ls = diffcon.Locals(rs.node, cfg_rs)
    asg = [(s, v) for s in stmts_of(rs.node) for t, v in _assign_pairs(s) if norm(t) == 'self.route_hits']
    ok = len(asg) == 1 and isinstance(Ls.resolve(asg[0][1], asg[0][0]), (ast.Call, ast.Dict, ast.DictComp)) and \
        cfg_rs.must_pass(cfg_rs.nodes_of(asg[0][0]), cfg_rs.entry, cfg_rs.exit)
    rep.check('R19.b', fkey(rs, 'self.route_hits'), ok, 'reset() rebinds route_hits to a freshly constructed mapping' if ok else
              'reset() does not rebind route_hits to a fresh mapping', rs.mod, rs.node)
    # counting starts again from zero: the new table is built empty and reset() puts nothing into it
    if len(asg) == 1:
        made = Ls.resolve(asg[0][1], asg[0][0])
        seeded = None
        if isinstance(made, ast.Call):
            extra = list(made.args[1:] if call_tail(made) == 'defaultdict' else made.args) + [k.value for k in made.keywords]
            if extra:
                seeded = 'it is built from %s' % short(extra[0])
        elif isinstance(made, ast.Dict) and made.keys:
            seeded = 'it is built with entries (%s)' % short(made)
        elif isinstance(made, ast.DictComp):
            seeded = 'it is built from %s' % short(made.generators[0].iter)
        sn_ = _self_name(rs) or 'self'
        for e in effects.effects_in(rs.node):
            ch = e.chain or []
            if len(ch) >= 2 and ch[0] == sn_ and ch[1] == 'route_hits' and not (isinstance(e.node, ast.Assign) and e.node is asg[0][0] and len(ch) == 2) and seeded is None:
                seeded = 'reset() writes into it (%s)' % short(e.node)
        rep.check('R19.b', fkey(rs, 'starts empty'), seeded is None, 'the table reset() installs is empty' if seeded is None else
                  'the table reset() installs does not start empty: %s -- counts from before the reset are carried over' % seeded, rs.mod, asg[0][0])
    # every (route, status) cell is a reservoir of its own: the factories of the table construct, they never hand out an object
    # that already exists (one shared reservoir / inner table would add the counts of different routes or statuses together)
    if len(asg) == 1:
        shared = _shared_cell(repo, rs, Ls.resolve(asg[0][1], asg[0][0]), asg[0][0], Ls)
        if shared is not None:
            rep.check('R19.b', fkey(rs, 'a reservoir per (route, status)'), not shared[0],
                      'the factories of the table construct a new inner table / reservoir for every missing key' if not shared[0] else
                      'the table hands out an existing object for a missing key (%s): different routes / statuses are counted in one and the '
                      'same object, so no count is the number of requests of its route and status' % shared[1], rs.mod, asg[0][0])
    init = st.func('StatsMiddleware.__init__')
    cfg_i = cfg_of(init)
    Lin = diffcon.Locals(init.node, cfg_i)
    starts = [stmt_of(init.mod, c) for c in walk_body(init.node) if isinstance(c, ast.Call) and norm(c.func) == 'self.reset'] + \
        [s for s in stmts_of(init.node) for t, v in _assign_pairs(s) if norm(t) == 'self.route_hits'
         and isinstance(Lin.resolve(v, s), (ast.Call, ast.Dict, ast.DictComp))]
    ok = bool(starts) and cfg_i.must_pass(cfg_i.nodes_of_all(starts), cfg_i.entry, cfg_i.exit)
    rep.check('R19.b', fkey(init, 'reset()'), ok, 'constructor initialises the counters (through reset() / a fresh mapping)' if ok else
              'constructor no longer initialises the counters through reset()', init.mod, init.node)


def _shared_cell(repo, fi, e, anchor, L, depth=0):
    """The mapping expression ``e`` (named temporaries looked through): does a missing key get an object that already exists?
    -> (True, text) yes; (False, '') every level constructs; None: no factory here (cells are made elsewhere)."""
    if depth > 4 or not (isinstance(e, ast.Call) and call_tail(e) == 'defaultdict' and e.args):
        return None
    f = e.args[0]
    if isinstance(f, ast.Call) and call_tail(f) == 'partial' and f.args:        # partial(defaultdict, C)
        f = ast.Lambda(args=ast.arguments(posonlyargs=[], args=[], vararg=None, kwonlyargs=[], kw_defaults=[], kwarg=None, defaults=[]),
                       body=ast.Call(func=f.args[0], args=list(f.args[1:]), keywords=list(f.keywords)))
    if isinstance(f, ast.Lambda):
        a = f.args
        if a.args or a.posonlyargs or a.kwonlyargs or a.vararg or a.kwarg:
            raise AnalysisError('%s: factory %s takes arguments' % (fi.key, short(f)))
        return _made_value(repo, fi, f.body, anchor, L, short(f), depth)
    if isinstance(f, (ast.Name, ast.Attribute)):
        if _internal_class(repo, fi.mod, f) is not None or norm(f) in ('dict', 'list', 'set', 'int', 'float'):
            return False, ''
        # a function of the analysed tree taking no arguments: what it returns, on every path
        callee = _callee(repo, fi, ast.Call(func=f, args=[], keywords=[])) if isinstance(f, ast.Name) else None
        if callee is not None and not callee.params():
            Lc = diffcon.Locals(callee.node, cfg_of(callee))
            rets = [r for r in returns_of(callee) if r.value is not None]
            if not rets:
                raise AnalysisError('%s: factory %s returns nothing' % (fi.key, callee.key))
            out = [_made_value(repo, callee, Lc.resolve(r.value, r), r, Lc, callee.name + '()', depth) for r in rets]
            bad = [o for o in out if o[0]]
            return bad[0] if bad else (False, '')
        # a local holding a function / an object: a bound lambda is looked through, anything else is not a constructor
        if isinstance(f, ast.Name):
            b = L.binding(f.id, anchor)
            if b is not None and isinstance(b[0], ast.Lambda):
                return _shared_cell(repo, fi, ast.Call(func=e.func, args=[b[0]], keywords=[]), anchor, L, depth + 1)
        raise AnalysisError('%s: cannot tell what the factory %s of the table makes' % (fi.key, short(f)))
    raise AnalysisError('%s: factory %s of the table not understood' % (fi.key, short(f)))


def _made_value(repo, fi, body, anchor, L, what, depth):
    """what a factory hands out (expression ``body`` in function ``fi``): (True, text) an object that already exists, (False, '') a
    construction; AnalysisError when it cannot be told"""
    if isinstance(body, (ast.Name, ast.Attribute, ast.Subscript)):
        return True, '%s returns %s' % (what, short(body))
    if isinstance(body, ast.Call):
        if call_tail(body) == 'defaultdict':
            sub = _shared_cell(repo, fi, body, anchor, L, depth + 1)
            return sub if sub is not None else (False, '')
        if _internal_class(repo, fi.mod, body.func) is not None or call_name(body) in ('dict', 'list', 'set'):
            return False, ''
    if isinstance(body, (ast.Dict, ast.List, ast.Set, ast.DictComp, ast.ListComp)):
        return False, ''
    raise AnalysisError('%s: cannot tell whether the factory %s constructs a new object per key' % (fi.key, what))


def _reads_table(repo, fi, depth=0, seen=()):
    """``fi`` (a function of the stats module) computes from the counters: it reads <x>.route_hits itself or through the functions
    / methods it calls, and never resets them"""
    if fi.mod.external or depth > 3 or any(fi is f for f in seen):
        return False
    reads = False
    for n in walk_body(fi.node):
        if isinstance(n, ast.Call) and call_tail(n) == 'reset':
            return False
        if isinstance(n, ast.Attribute) and n.attr == 'route_hits':
            if not isinstance(n.ctx, ast.Load):
                return False
            reads = True
    if reads:
        return True
    for n in walk_body(fi.node):
        if isinstance(n, ast.Call):
            f = _resolve_call(repo, fi, n)[0]
            if f is not None and _reads_table(repo, f, depth + 1, tuple(seen) + (fi,)):
                return True
    return False


def _delegation_chain(repo, fi, depth=3):
    """[fi, f1, f2 ..]: ``fi`` whose every return hands over to one call of f1 (a module-level function / a method of an object
    whose class is known -- named temporaries looked through), f1 likewise to f2, ..."""
    out = [fi]
    while len(out) <= depth:
        cur = out[-1]
        rets = returns_of(cur)
        if not rets or any(r.value is None for r in rets):
            break
        L = diffcon.Locals(cur.node, cfg_of(cur))
        nxt = []
        for r in rets:
            via = []
            v = L.resolve(r.value, r, via=via)
            # the call as written (in the return or in the one binding the returned name stands for): resolved where it sits
            orig = r.value if isinstance(r.value, ast.Call) else (L.binding(r.value.id, r) or (None,))[0] if isinstance(r.value, ast.Name) else None
            if not isinstance(v, ast.Call) or not isinstance(orig, ast.Call):
                nxt = []
                break
            nxt.append(_resolve_call(repo, cur, orig)[0])
        if not nxt or nxt[0] is None or any(f is not nxt[0] for f in nxt) or any(nxt[0] is f for f in out):
            break
        out.append(nxt[0])
    return out


def _reported_count(rep, repo, st):
    """layer order of the *reported* per-status dict: the 'count' entry taken from total_count must be the last writer of
    that key (describe() brings its own 'count' = number of retained samples)"""
    grs = _route_summary_func(repo, st)
    vals = _reported_values(repo, grs)
    if not vals:
        raise AnalysisError('_get_route_stats: cannot find the per-status dict it reports')
    ok, why = True, ''
    for vfi, vexpr in vals:
        ls = _dict_layers(repo, vfi, vexpr)
        idx_count = [i for i, l in enumerate(ls) if l.kind == 'literal' and 'count' in (l.keys or []) and _is_total_count(_home(repo, l.values.get('count'), vfi.mod), l.values.get('count'))]
        other_count = [i for i, l in enumerate(ls) if l.kind == 'literal' and 'count' in (l.keys or []) and i not in idx_count]
        if not idx_count:
            ok, why = False, "no 'count' entry taken from total_count among %s" % [repr(l) for l in ls]
            break
        last = idx_count[-1]
        if any(i > last for i in other_count):
            ok, why = False, "'count' is overwritten after the total_count entry"
            break
        for i, l in enumerate(ls):
            if i > last and l.kind == 'source' and ok:
                if _mentions_describe(vfi, l):
                    ok, why = False, "the describe() result (its own 'count' = sample size) is merged over the total_count entry"
                elif not isinstance(l.node, ast.stmt):      # (d[<computed key>] = ... is one other key)
                    raise AnalysisError("_get_route_stats: cannot tell whether %s (merged after the 'count' entry) carries a 'count'" % l.text)
        if not ok:
            break
    rep.check('R19.b', fkey(grs, "['count']"), ok, 'reported count is the reservoir total_count (not the sample size)' if ok else
              'reported count is not the reservoir\'s total_count: %s' % why, grs.mod, grs.node)


def _route_summary_func(repo, st):
    """The function that summarises one route, found by its role: the module-level function on the report path (what the report
    endpoint runs) one of whose parameters is, at every call site, one route's table -- a mapping whose values are reservoirs (objects
    of a class of the tree with an add()).  Where the types do not single one out: the function of that name."""
    cands = []
    try:
        path = _report_path(repo, st, st.func('get_stats_dict'))
    except AnalysisError:
        path = []
    for fi in path:
        if fi.cls is not None:
            continue
        for p in fi.params():
            try:
                t = _param_type(repo, fi, p, 0)
            except AnalysisError:
                t = None
            if t is not None and t[0] == 'map' and t[1] is not None and t[1][0] == 'inst' and repo.find_method(t[1][1], 'add') is not None:
                cands.append(fi)
                break
    if len(cands) == 1:
        repo.functions_touched.add(cands[0].key)
        return cands[0]
    return st.func('_get_route_stats')


MAP_WRITERS = {'pop', 'popitem', 'clear', 'update', 'setdefault', '__delitem__', '__setitem__'}


def _report_path(repo, st, start):
    """the functions a report runs: ``start`` and everything it calls that resolves into the analysed tree (wherever it lives now)"""
    out = []

    def visit(fi):
        if any(fi is f for f in out) or fi.mod.external or len(out) >= 16:
            return
        out.append(fi)
        for c in walk_body(fi.node):
            if isinstance(c, ast.Call):
                f = _resolve_call(repo, fi, c)[0]
                if f is not None:
                    visit(f)
    visit(start)
    return out


def _writes_own_state(repo, m, depth=0):
    """method ``m`` stores into / mutates an attribute of its receiver (itself or through the methods it calls on it)"""
    sn = _self_name(m)
    if sn is None or depth > 3:
        return None
    for e in effects.effects_in(m.node):
        if e.chain and e.chain[0] == sn and len(e.chain) > 1:
            return e
    for c in walk_body(m.node):
        if isinstance(c, ast.Call) and isinstance(c.func, ast.Attribute) and isinstance(c.func.value, ast.Name) and c.func.value.id == sn and m.cls is not None:
            callee = repo.find_method(m.cls, c.func.attr)
            if callee is not None and not callee.mod.external and callee is not m:
                e = _writes_own_state(repo, callee, depth + 1)
                if e is not None:
                    return e
    return None


def _report_read_only(rep, repo, st):
    """the read side leaves the counters as they are: computing a report never resets, removes, resizes or adds anything in the
    table it reads (the only writer on the report-and-reset path is the reset() after the report)"""
    start = st.func('get_stats_dict')
    funcs = _report_path(repo, st, start)
    for fi in funcs:
        bad = None
        for n in walk_body(fi.node):
            if bad is not None:
                break
            if isinstance(n, ast.Call) and isinstance(n.func, ast.Attribute):
                anchor = stmt_of(fi.mod, n)
                if n.func.attr == 'reset' and not n.args and not n.keywords:
                    bad = (n, 'resets the counters (%s)' % short(n))
                    break
                t = _type_of(repo, fi, n.func.value, anchor) if anchor is not None else None
                if t is not None and t[0] == 'map' and n.func.attr in MAP_WRITERS:
                    bad = (n, 'changes the table it reads (%s)' % short(n))
                elif t is not None and t[0] == 'inst':
                    m = repo.find_method(t[1], n.func.attr)
                    if m is not None and not m.mod.external and _self_name(m) is not None and not any(m is f for f in funcs):
                        e = _writes_own_state(repo, m)
                        if e is not None:
                            bad = (n, 'calls %s, which writes %s' % (short(n), norm(e.target)))
            elif isinstance(n, (ast.Subscript, ast.Attribute)) and isinstance(n.ctx, (ast.Store, ast.Del)):
                anchor = stmt_of(fi.mod, n)
                t = _type_of(repo, fi, n.value, anchor) if anchor is not None else None
                if t is not None and (t[0] == 'map' or (t[0] == 'inst' and isinstance(n, ast.Attribute))):
                    bad = (n, 'stores into the live statistics (%s)' % short(anchor))
        rep.check('R19.b', fkey(fi, 'report is read-only'), bad is None,
                  'computing the report changes nothing in the counters it reads' if bad is None else
                  'the report %s: a read of the statistics changes them, so the counts no longer sum to the requests since the last reset'
                  % bad[1], fi.mod, bad[0] if bad is not None else fi.node)


def _report_complete(rep, repo, st):
    """the report shows every (route, status) that has hits: the loops / comprehensions of the report path run over the whole table
    (not a slice / filtered view), leave early by nothing, and skip an entry only when its table is empty"""
    start = st.func('get_stats_dict')
    for fi in _report_path(repo, st, start):
        L = diffcon.Locals(fi.node, cfg_of(fi))
        verdicts = []

        def is_map(e, anchor):
            t = _type_of(repo, fi, e, anchor)
            return t is not None and t[0] == 'map'

        def whole(it, anchor):
            """True: ``it`` runs over the whole mapping; False: over a part of it; None: no mapping of the statistics involved"""
            e = L.resolve(it, anchor) if cfg_of(fi).nodes_of(anchor) else it
            while isinstance(e, ast.Call) and call_name(e) in ('list', 'tuple', 'sorted', 'iter', 'reversed', 'dict') and e.args:
                e = e.args[0]
            if isinstance(e, ast.Call) and isinstance(e.func, ast.Attribute) and e.func.attr in ('items', 'values', 'keys') and not e.args:
                e = e.func.value
            if is_map(e, anchor) or (e is not it and is_map(it, anchor)):
                return True
            inner = [x for x in ast.walk(e) if x is not e and isinstance(x, (ast.Name, ast.Attribute, ast.Call)) and is_map(x, anchor)]
            return False if inner else None

        def filter_verdict(test, value_names, key_names, where):
            """a test deciding whether an entry is shown: fine when it is the truth value of the entry's table"""
            t = test
            neg = False
            while isinstance(t, ast.UnaryOp) and isinstance(t.op, ast.Not):
                t, neg = t.operand, not neg
            if isinstance(t, ast.Name) and t.id in value_names:
                return neg          # ``if rh`` keeps the entries with hits; ``if not rh`` keeps the empty ones
            names = set(x.id for x in ast.walk(t) if isinstance(x, ast.Name))
            if names & key_names and not names & value_names:
                return True         # decided by the key alone: some route / status is left out
            raise AnalysisError('%s: cannot tell whether %s %s leaves out entries that have hits' % (fi.key, where, short(test)))
        for n in walk_body(fi.node):
            gens = n.generators if isinstance(n, (ast.ListComp, ast.SetComp, ast.DictComp, ast.GeneratorExp)) else []
            anchor = stmt_of(fi.mod, n)
            for g in gens:
                w = whole(g.iter, anchor)
                if w is None:
                    continue
                names = [x.id for x in ast.walk(g.target) if isinstance(x, ast.Name)]
                vals, keys = set(names[-1:]), set(names[:-1]) if len(names) > 1 else set()
                bad = None
                if w is False:
                    bad = 'runs over a part of the table only (%s)' % short(g.iter)
                for i in g.ifs:
                    if bad is None and filter_verdict(i, vals, keys, 'the filter'):
                        bad = 'leaves out entries that have hits (if %s)' % short(i)
                verdicts.append((n, bad))
            if isinstance(n, ast.For):
                w = whole(n.iter, n)
                if w is None:
                    continue
                names = [x.id for x in ast.walk(n.target) if isinstance(x, ast.Name)]
                vals, keys = set(names[-1:]), set(names[:-1]) if len(names) > 1 else set()
                bad = None
                if w is False:
                    bad = 'runs over a part of the table only (%s)' % short(n.iter)
                for s_ in ast.walk(n):
                    if bad is not None or not isinstance(s_, (ast.Break, ast.Continue)):
                        continue
                    inner_loops = [p for p in _ancestors(fi.mod, s_) if isinstance(p, (ast.For, ast.While))]
                    if not inner_loops or inner_loops[0] is not n:
                        continue
                    if isinstance(s_, ast.Break):
                        bad = 'stops before the end of the table (break)'
                        continue
                    cs = [(t, p) for t, p in conds(fi, s_) if any(anc is n for anc in _ancestors(fi.mod, t))]
                    if not cs:
                        bad = 'skips every entry (continue)'
                    for t, p in cs:
                        if bad is None and filter_verdict(t if not p else ast.UnaryOp(op=ast.Not(), operand=t), vals, keys, 'the skip under'):
                            bad = 'skips entries that have hits (continue under %s%s)' % ('' if p else 'not ', short(t))
                verdicts.append((n, bad))
        for i, (node, bad) in enumerate(verdicts):
            rep.check('R19.b', fkey(fi, 'report covers the table #%d' % (i + 1)), bad is None,
                      'the loop over the statistics runs over the whole table and leaves out empty entries only' if bad is None else
                      'the report %s: requests that were counted do not show up, the reported counts no longer sum to the requests served' % bad, fi.mod, node)


ROUTE_METHODS = {'GET': ('GET',), 'POST': ('POST',), 'PUT': ('PUT',), 'DELETE': ('DELETE',), 'PATCH': ('PATCH',), 'HEAD': ('HEAD',)}


def _resets(repo, st, fi):
    """``fi`` (transitively, inside the stats module) calls <x>.reset()"""
    return any(isinstance(c, ast.Call) and isinstance(c.func, ast.Attribute) and c.func.attr == 'reset' and not c.args
               for f in _report_path(repo, st, fi) for c in walk_body(f.node))


def _stats_app_routes(rep, repo, st):
    """the routing table of the stats application: some route runs the report-and-reset endpoint, and no route that answers GET
    (a plain read) resets"""
    mk = st.func('create_stats_app')
    st = mk.mod
    L = diffcon.Locals(mk.node, cfg_of(mk))
    apps = [c for c in walk_body(mk.node) if isinstance(c, ast.Call) and call_name(c) == 'Application' and (c.args or c.keywords)]
    if len(apps) != 1:
        raise AnalysisError('create_stats_app: expected one Application(...) construction')
    arg = apps[0].args[0] if apps[0].args else [k.value for k in apps[0].keywords if k.arg == 'routes'][0]
    table = L.resolve(arg, stmt_of(st, apps[0]))
    if not isinstance(table, (ast.List, ast.Tuple)) or any(isinstance(e, ast.Starred) for e in table.elts):
        raise AnalysisError('create_stats_app: the routes given to Application(...) are not a literal list (%s)' % short(table))
    rows = []
    for e in table.elts:
        e = L.resolve(e, stmt_of(st, apps[0]))
        methods = None      # None: every method (GET included)
        if isinstance(e, ast.Call) and not any(isinstance(a, ast.Starred) for a in e.args):
            cname = call_tail(e)
            if cname in ROUTE_METHODS:
                methods = ROUTE_METHODS[cname]
            elif cname == 'Route':
                mk_ = [k.value for k in e.keywords if k.arg == 'methods']
                if mk_:
                    f = repo.try_fold(mk_[0], st)
                    if not isinstance(f, (list, tuple, set, frozenset)):
                        raise AnalysisError('create_stats_app: methods of %s not constant' % short(e))
                    methods = tuple(str(x).upper() for x in f)
            else:
                raise AnalysisError('create_stats_app: route %s not understood' % short(e))
            parts = list(e.args)
            kw = dict((k.arg, k.value) for k in e.keywords)
            ep = parts[1] if len(parts) > 1 else kw.get('endpoint')
        elif isinstance(e, ast.Tuple) and len(e.elts) >= 2:
            ep = e.elts[1]
        else:
            raise AnalysisError('create_stats_app: route %s not understood' % short(e))
        f = _callee(repo, mk, ast.Call(func=ep, args=[], keywords=[])) if isinstance(ep, ast.Name) else None
        if f is None:
            raise AnalysisError('create_stats_app: endpoint %s of route %s is not a function of the analysed tree' % (short(ep), short(e)))
        rows.append((e, methods, f, _resets(repo, st, f)))
    resetting = [r for r in rows if r[3]]
    rep.check('R19.b', fkey(mk, 'a route resets'), bool(resetting),
              'the stats application has a route whose endpoint reports and resets (%s)' % ', '.join(r[2].name for r in resetting) if resetting else
              'no route of the stats application resets the counters (%s): the reset endpoint returns totals but counting never starts again from zero'
              % ', '.join(r[2].name for r in rows), st, table if hasattr(table, 'lineno') else mk.node)
    bad = [r for r in resetting if r[1] is None or 'GET' in r[1] or 'HEAD' in r[1]]
    rep.check('R19.b', fkey(mk, 'reads do not reset'), not bad,
              'every route that answers GET runs an endpoint that leaves the counters alone' if not bad else
              'the route %s answers GET and its endpoint %s resets the counters: merely looking at the statistics zeroes them, so the counts '
              'no longer sum to the requests since the last reset' % (short(bad[0][0]), bad[0][2].name), st, bad[0][0] if bad and hasattr(bad[0][0], 'lineno') else mk.node)


# ---- R19.c ---------------------------------------------------------------------------------------------------------
DATA, LEN, CAP = 'self._data', 'len(self._data)', 'self._cap'
MUTATORS = {'append', 'insert', 'extend', 'pop', 'remove', 'clear', 'sort', 'reverse', '__setitem__', '__delitem__'}


def _reservoir_add(rep, repo, st):
    add_f = st.func('Reservoir.add')
    st = add_f.mod      # (the class may have moved to another module of the package: its statements are looked up where it lives now)
    cfg_a = cfg_of(add_f)
    La = diffcon.Locals(add_f.node, cfg_a)      # ``samples = self._data`` ... ``samples.append(val)``
    incs = [s for s in stmts_of(add_f.node) if isinstance(s, ast.AugAssign) and norm(s.target) == 'self._total_count'
            and isinstance(s.op, ast.Add) and isinstance(s.value, ast.Constant) and s.value.value == 1]
    others = [s for s in stmts_of(add_f.node) if isinstance(s, (ast.Assign, ast.AugAssign)) and s not in incs and
              'self._total_count' in [norm(t) for t in (s.targets if isinstance(s, ast.Assign) else [s.target])]]
    ok, why = _exactly_once(cfg_a, cfg_a.nodes_of_all(incs), [cfg_a.entry], [cfg_a.exit])
    ok = ok and not others
    rep.check('R19.c', fkey(add_f, '_total_count += 1'), ok, 'total count is incremented exactly once on every path of add()' if ok else
              'total count is not incremented exactly once per add(): %s' % (why or 'other writes to _total_count'), st, add_f.node)
    val_param = [p for p in add_f.params() if p != 'self'][0]
    n_writes = 0
    # every write to the store (the facts about len(_data) that bound a write are stale once another write ran before it)
    w_stmts = _uniq([stmt_of(st, c) for c in walk_body(add_f.node) if isinstance(c, ast.Call) and isinstance(c.func, ast.Attribute)
                     and c.func.attr in MUTATORS and La.text(c.func.value, stmt_of(st, c)) == DATA] +
                    [s for s in stmts_of(add_f.node) if isinstance(s, (ast.Assign, ast.AugAssign, ast.Delete)) and
                     any(isinstance(t, ast.Subscript) and La.text(t.value, s) == DATA
                         for t in (s.targets if not isinstance(s, ast.AugAssign) else [s.target]))])
    w_nodes = set(cfg_a.nodes_of_all(w_stmts))

    def fresh(node_stmt):
        """no other write to _data can run before this one"""
        mine = set(cfg_a.nodes_of(node_stmt))
        return not (mine & cfg_a.reach([m for w in w_nodes - mine for m in cfg_a.succ[w]]))
    for c in walk_body(add_f.node):
        if isinstance(c, ast.Call) and call_tail(c) in ('append', 'insert', 'extend') and isinstance(c.func, ast.Attribute) \
                and La.text(c.func.value, stmt_of(st, c)) == DATA:
            n_writes += 1
            cs = La.conds(conds(add_f, c), st)
            facts = diffcon.facts_from_conds(cs)
            ok = call_tail(c) == 'append' and diffcon.entails(facts, (LEN, CAP, True)) and fresh(stmt_of(st, c))
            rep.check('R19.c', fkey(add_f, '%s.append(%s)' % (DATA, ', '.join(norm(a) for a in c.args))), ok,
                      'append is entailed below capacity: %s |- len(_data) < _cap' % '; '.join(cond_texts(cs)) if ok else
                      'growth of _data is not bounded by its path condition (%s does not entail len(self._data) < self._cap): '
                      'the store can exceed its capacity' % ('; '.join(cond_texts(cs)) or 'no condition'), st, c)
            ok = len(c.args) == 1 and La.text(c.args[0], stmt_of(st, c)) == val_param
            rep.check('R19.c', fkey(add_f, 'appended value'), ok, 'the appended value is the argument of add()' if ok else
                      'appended value %s is not the value passed to add()' % short(c.args[0] if c.args else None), st, c)
    for s in stmts_of(add_f.node):
        if isinstance(s, ast.Assign) and isinstance(s.targets[0], ast.Subscript) and La.text(s.targets[0].value, s) == DATA:
            n_writes += 1
            idx_e = La.resolve(s.targets[0].slice, s)
            idx = norm(idx_e)
            cs = La.conds(conds(add_f, s), st)
            facts = diffcon.facts_from_conds(cs)
            ok = diffcon.entails(facts, (idx, LEN, True)) and fresh(s)
            rep.check('R19.c', fkey(add_f, '%s[%s] = %s' % (DATA, norm(s.targets[0].slice), norm(s.value))), ok,
                      'indexed store is entailed in-bounds: %s |- %s < len(_data)' % ('; '.join(cond_texts(cs)), idx) if ok else
                      'indexed store self._data[%s] is not entailed in-bounds by its path condition (%s): IndexError possible '
                      '(e.g. after resize() to a larger capacity)' % (idx, '; '.join(cond_texts(cs)) or 'none'), st, s)
            # non-negative index: comes from fast_randint(0, ...) / randrange
            ok = isinstance(idx_e, ast.Call) and call_tail(idx_e) in ('fast_randint', 'randint', 'randrange') \
                and bool(idx_e.args) and repo.try_fold(idx_e.args[0], st) == 0 and isinstance(repo.try_fold(idx_e.args[0], st), int)
            rep.check('R19.c', fkey(add_f, 'index source'), ok, 'index is drawn from [0, n]' if ok else
                      'index %s is not drawn from a range starting at 0' % idx, st, s)
            ok = La.text(s.value, s) == val_param
            rep.check('R19.c', fkey(add_f, 'stored value'), ok, 'the stored value is the argument of add()' if ok else
                      'stored value %s is not the value passed to add()' % short(s.value), st, s)
    if n_writes < 2:
        raise AnalysisError('Reservoir.add: expected an append and an indexed store on self._data')


def _reservoir_resize(rep, repo, st):
    rz = st.func('Reservoir.resize')
    st = rz.mod
    cfg_r = cfg_of(rz)
    Lr = diffcon.Locals(rz.node, cfg_r)
    newp = [p for p in rz.params() if p != 'self'][0]
    cap_st = [s for s in stmts_of(rz.node) if isinstance(s, ast.Assign) and norm(s.targets[0]) == CAP]
    ok = len(cap_st) == 1 and Lr.text(cap_st[0].value, cap_st[0]) == newp
    # a branch on which what is known entails len(_data) <= new_size (the test may be spelt through a named flag) ...
    good_nodes = []
    for nd_ in cfg_r.nodes:
        if nd_.kind == 'branch':
            own = cfg_r._expand_named(expand_conds([(nd_.test, nd_.pol)]), nd_.id)
            facts = diffcon.facts_from_conds(Lr.conds(own, st))
            if diffcon.entails(facts, (LEN, newp, False)):
                good_nodes.append(nd_.id)
    # ... or a truncation  self._data = self._data[:new_size]
    for s in stmts_of(rz.node):
        if isinstance(s, ast.Assign) and norm(s.targets[0]) == DATA:
            v = Lr.resolve(s.value, s)
            if isinstance(v, ast.Subscript) and isinstance(v.slice, ast.Slice) and v.slice.lower is None and v.slice.step is None \
                    and v.slice.upper is not None and norm(v.slice.upper) == newp and norm(v.value) == DATA:
                good_nodes += cfg_r.nodes_of(s)
    ok = ok and cfg_r.must_pass(good_nodes, cfg_r.nodes_of(cap_st[0]) if cap_st else cfg_r.entry, cfg_r.exit) and \
        cfg_r.must_pass(cfg_r.nodes_of_all(cap_st), cfg_r.entry, cfg_r.exit)
    rep.check('R19.c', fkey(rz, 'len <= cap'), ok,
              'after resize either len(_data) <= new_size was tested or _data was truncated to [:new_size]' if ok else
              'resize() can leave more than _cap values in _data (no truncation / bound test on some path)', st, rz.node)


def _reservoir_init(rep, repo, st):
    # constructor: the capacity parameter doubles as a flag (True = default, False = unbounded); since 1 == True and
    # 0 == False in Python, the flag tests must be identity tests, otherwise cap=1 / cap=0 silently get another capacity
    ri = st.func('Reservoir.__init__')
    st = ri.mod
    Li = diffcon.Locals(ri.node, cfg_of(ri))
    capp = [p for p in ri.params() if p != 'self'][0]
    flag_tests = [n for n in walk_body(ri.node) if isinstance(n, ast.Compare) and
                  (norm(n.left) == capp or any(norm(c) == capp for c in n.comparators)) and
                  any(isinstance(x, ast.Constant) and isinstance(x.value, bool) for x in ast.walk(n))]
    bad = [t for t in flag_tests if not all(isinstance(o, (ast.Is, ast.IsNot)) for o in t.ops)]
    rep.check('R19.c', fkey(ri, 'capacity flag tests'), bool(flag_tests) and not bad,
              'cap is compared with True/False by identity (%d tests)' % len(flag_tests) if flag_tests and not bad else
              'cap is compared with a bool by equality / membership (%s): cap=1 (== True) or cap=0 (== False) would be taken for the flag and '
              'the store would exceed the requested capacity' % [short(t) for t in bad], st, (bad or [ri.node])[0])
    caps = [s for s in stmts_of(ri.node) if isinstance(s, ast.Assign) and CAP in [norm(t) for t in s.targets]]
    ok = any(Li.text(s.value, s) == 'int(%s)' % capp for s in caps)
    if not ok:
        # ``self._cap = cap`` where the local was normalised branch by branch (``cap = int(cap)`` in the else branch)
        loc = [s for s in stmts_of(ri.node) if isinstance(s, ast.Assign) and norm(s.value) == 'int(%s)' % capp]
        ok = any(isinstance(c.value, ast.Name) and any(isinstance(t, ast.Name) and t.id == c.value.id for t in l.targets)
                 for c in caps for l in loc)
    rep.check('R19.c', fkey(ri, 'numeric capacity'), ok, 'any other value is taken as the capacity itself (int(cap))' if ok else
              'a numeric cap is not stored as the capacity', st, ri.node)
    # the count starts as the number of values the store starts with: len() of the very object bound to _data
    data_st = [s for s in stmts_of(ri.node) for t, v in _assign_pairs(s) if norm(t) == DATA]
    cnt_st = [(s, v) for s in stmts_of(ri.node) for t, v in _assign_pairs(s) if norm(t) == 'self._total_count']
    if not data_st or not cnt_st:
        raise AnalysisError('Reservoir.__init__: expected a binding of self._data and an initial self._total_count')
    data_vals = [(v, s) for s in data_st for t, v in _assign_pairs(s) if norm(t) == DATA]      # (one per branch)
    data_val = data_vals[0][0]
    for s, v in cnt_st:
        r = Li.resolve(v, s)
        ok = isinstance(r, ast.Call) and call_name(r) == 'len' and len(r.args) == 1 and not r.keywords and \
            (norm(r.args[0]) == DATA or (len(data_vals) == 1 and (Li.same(r.args[0], s, data_val, data_st[0]) or
                                                                  _same_name_between(cfg_of(ri), r.args[0], s, data_val, data_st[0]))))
        if not ok and all(isinstance(Li.resolve(dv, ds), ast.List) and not Li.resolve(dv, ds).elts for dv, ds in data_vals):
            ok = isinstance(r, ast.Constant) and r.value == 0 and type(r.value) is int
        rep.check('R19.c', fkey(ri, 'initial count'), ok, 'the count starts as len() of the object bound to _data' if ok else
                  'the count starts as %s, not as the number of values the store starts with (len of the object bound to _data): '
                  'count and store disagree from the first add() on' % short(v), st, s)
    # initial values are fed through add() (which counts and bounds them): nothing else in the constructor writes into the store
    mut = [c for c in walk_body(ri.node) if isinstance(c, ast.Call) and isinstance(c.func, ast.Attribute) and c.func.attr in MUTATORS
           and Li.text(c.func.value, stmt_of(st, c)) in [DATA] + [norm(Li.resolve(dv, ds)) for dv, ds in data_vals if isinstance(Li.resolve(dv, ds), ast.Name)]]
    sub_st = [s for s in stmts_of(ri.node) if isinstance(s, (ast.Assign, ast.AugAssign, ast.Delete)) and
              any(isinstance(t, ast.Subscript) and Li.text(t.value, s) == DATA for t in (s.targets if not isinstance(s, ast.AugAssign) else [s.target]))]
    feeds = [l for l in stmts_of(ri.node) if isinstance(l, ast.For) and isinstance(l.target, ast.Name) and
             any(isinstance(c, ast.Call) and norm(c.func) == '%s.add' % (_self_name(ri) or 'self') and len(c.args) == 1 and norm(c.args[0]) == l.target.id
                 for b in l.body for c in ast.walk(b))]
    leaked = []
    for l in feeds:
        for nm in set(n.id for n in ast.walk(l.iter) if isinstance(n, ast.Name) and n.id in ri.params() and n.id != capp):
            in_loop = set(id(n) for n in ast.walk(l.iter))
            for n in walk_body(ri.node):
                if isinstance(n, ast.Name) and n.id == nm and isinstance(n.ctx, ast.Load) and id(n) not in in_loop:
                    par = st.parents.get(n)
                    while isinstance(par, (ast.BoolOp, ast.UnaryOp, ast.Compare)):
                        n, par = par, st.parents.get(par)
                    if not (isinstance(par, (ast.If, ast.While, ast.IfExp, ast.Assert)) and par.test is n):
                        leaked.append(n)
    ok = not mut and not sub_st and not leaked
    rep.check('R19.c', fkey(ri, 'initial values go through add()'), ok,
              'the constructor puts values into the store only by calling add() (%d feeding loop(s))' % len(feeds) if ok else
              'the constructor writes initial values into the store without add() (%s): they are neither counted nor bounded by the capacity'
              % short((mut or sub_st or leaked)[0]), st, (mut or sub_st or leaked)[0] if (mut or sub_st or leaked) else ri.node)


def _reservoir_rest(rep, repo, st):
    # who may write the store
    # (the methods themselves, wherever the class lives now -- not their address)
    res_cls = st.cls('Reservoir')
    allowed = [f for f in (repo.find_method(res_cls, n) for n in ('__init__', 'add', 'resize')) if f is not None and not f.mod.external]
    count_writers = [f for f in (repo.find_method(res_cls, n) for n in ('__init__', 'add')) if f is not None and not f.mod.external]
    writers = []
    for m in repo.all_internal_modules():
        for fi in m.functions.values():
            for e in effects.effects_in(fi.node):
                ch = e.chain or []
                if any(a in ch for a in ('_data', '_cap', '_total_count')):
                    writers.append((m, fi, e))
    # (the number of values added changes only where a value is added)
    for m, fi, e in writers:
        ok = any(fi is f for f in allowed)
        counts = '_total_count' in (e.chain or [])
        if ok and counts and not any(fi is f for f in count_writers):
            rep.check('R19.c', 'writer::%s::%s' % (fi.key, norm(e.target)), False,
                      '%s writes %s: the number of values added is changed by something other than adding a value (the reported '
                      'count is no longer the number of add() calls)' % (fi.key, norm(e.target)), m, e.node)
            continue
        rep.check('R19.c', 'writer::%s::%s' % (fi.key, norm(e.target)), ok,
                  'writer of the sample store is one of Reservoir\'s own methods' if ok else
                  '%s writes the sample store state (%s) outside Reservoir.__init__/add/resize' % (fi.key, norm(e.target)), m, e.node)
    # accessors
    tc = st.func('Reservoir.total_count')
    ok = all(diffcon.Locals(tc.node, cfg_of(tc)).text(r.value, r) == 'self._total_count' for r in returns_of(tc)) and returns_of(tc)
    rep.check('R19.c', fkey(tc), bool(ok), 'total_count reports _total_count' if ok else 'total_count does not report _total_count', tc.mod, tc.node)
    it = st.func('Reservoir.__iter__')
    Lit = diffcon.Locals(it.node, cfg_of(it))
    over = lambda e, s_: Lit.text(e, s_) == DATA
    rets_it = [r for r in returns_of(it) if r.value is not None]
    yields = [n for n in walk_body(it.node) if isinstance(n, (ast.Yield, ast.YieldFrom))]
    if yields:
        # generator spelling: ``yield from self._data`` / ``for v in self._data: yield v`` and nothing else
        ok = not rets_it
        for y in yields:
            ys = stmt_of(it.mod, y)
            if isinstance(y, ast.YieldFrom):
                ok = ok and (over(y.value, ys) or (isinstance(y.value, ast.Call) and call_name(y.value) == 'iter' and len(y.value.args) == 1
                                                   and over(y.value.args[0], ys)))
            else:
                loop = it.mod.parents.get(ys)
                ok = ok and isinstance(loop, ast.For) and len(loop.body) == 1 and not loop.orelse and over(loop.iter, loop) and \
                    isinstance(loop.target, ast.Name) and isinstance(y.value, ast.Name) and y.value.id == loop.target.id
    else:
        ok = rets_it and all(isinstance(r.value, ast.Call) and call_name(r.value) == 'iter' and len(r.value.args) == 1
                             and over(r.value.args[0], r) for r in rets_it)
    rep.check('R19.c', fkey(it), bool(ok), 'iteration is over _data' if ok else 'iteration is not over _data', it.mod, it.node)
    # one add() on the subclass is exactly one activation of the base add (the counting / sampling judged above): the subclass
    # inherits it, or its override delegates exactly once; and no method that activation dispatches to on ``self`` (a hook the
    # subclass overrides -- resolved on the class of the receiver, not on the class the call is written in) enters add again
    sub_cls = st.cls('RouteStatReservoir')
    base_add = st.func('Reservoir.add')
    sub = repo.find_method(sub_cls, 'add')
    if sub is None or sub.mod.external:
        raise AnalysisError('RouteStatReservoir: no add() found along its bases')
    repo.functions_touched.add(sub.key)
    base_names = set(c.name for c in repo.mro(sub_cls)[1:] if hasattr(c, 'name'))

    def add_entries(fi):
        """calls in ``fi`` that run an add() on the same object: self.add(..) / super().add(..) / Base.add(self, ..)"""
        sn = _self_name(fi)
        out = []
        for c in walk_body(fi.node):
            if isinstance(c, ast.Call) and call_tail(c) == 'add' and isinstance(c.func, ast.Attribute):
                r = c.func.value
                if (isinstance(r, ast.Call) and call_name(r) == 'super') or (isinstance(r, ast.Name) and r.id == sn and sn) or \
                        (isinstance(r, ast.Name) and r.id in base_names | {sub_cls.name} and c.args and norm(c.args[0]) == sn):
                    out.append(c)
        return out
    if sub is base_add:
        rep.check('R19.c', fkey(sub, 'super().add'), True, 'RouteStatReservoir inherits Reservoir.add: one add() is one activation of it', sub.mod, sub.node)
    else:
        cfg_s = cfg_of(sub)
        selfname = _self_name(sub) or 'self'
        sup = [stmt_of(sub.mod, c) for c in add_entries(sub) if not (isinstance(c.func.value, ast.Name) and c.func.value.id == selfname)]
        again = [c for c in add_entries(sub) if isinstance(c.func.value, ast.Name) and c.func.value.id == selfname]
        ok, why = _exactly_once(cfg_s, cfg_s.nodes_of_all(sup), [cfg_s.entry], [cfg_s.exit])
        if ok and again:
            ok, why = False, 'it calls %s on itself' % short(again[0])
        rep.check('R19.c', fkey(sub, 'super().add'), ok, 'RouteStatReservoir.add delegates to Reservoir.add exactly once' if ok else
                  'RouteStatReservoir.add: ' + why, sub.mod, sub.node)
    # the methods the activation dispatches to on the receiver itself
    hooks, todo = [], [base_add] + ([sub] if sub is not base_add else [])
    while todo:
        fi = todo.pop()
        sn = _self_name(fi)
        for c in walk_body(fi.node):
            if isinstance(c, ast.Call) and isinstance(c.func, ast.Attribute) and isinstance(c.func.value, ast.Name) and c.func.value.id == sn \
                    and sn and c.func.attr != 'add':
                h = repo.find_method(sub_cls, c.func.attr)
                if h is not None and not h.mod.external and not any(h is x for x in hooks) and len(hooks) < 12:
                    hooks.append(h)
                    todo.append(h)
    for h in hooks:
        re_entry = add_entries(h)
        rep.check('R19.c', fkey(h, 'does not enter add() again'), not re_entry,
                  '%s (run by add() on the receiver) does not enter add() again' % h.qualname if not re_entry else
                  '%s is run by add() on the receiver and enters add() again (%s): one add() counts / stores more than once'
                  % (h.qualname, short(re_entry[0])), h.mod, (re_entry or [h.node])[0])


# ---- R19.d ---------------------------------------------------------------------------------------------------------
APP_PARAM = '_application'      # the injectable (route.py builtins) naming the application a request was dispatched by
ADDERS = {'append', 'extend', 'insert', 'sort', 'reverse', 'index', 'count', 'copy'}       # list methods that keep every element
DROPPERS = {'remove', 'pop', 'clear', '__setitem__', '__delitem__'}


def _selection(e):
    """``e`` selects an element out of an iterable: ``[x for x in IT if ..][k]`` / ``next(x for x in IT if ..)`` /
    ``list(filter(..))`` is not followed.  -> (comprehension node) or None."""
    if isinstance(e, ast.Subscript) and isinstance(e.value, (ast.ListComp, ast.GeneratorExp)) and not isinstance(e.slice, ast.Slice):
        return e.value
    if isinstance(e, ast.Call) and call_name(e) == 'next' and e.args and isinstance(e.args[0], (ast.GeneratorExp, ast.ListComp)):
        return e.args[0]
    if isinstance(e, ast.Call) and call_name(e) in ('first',) and e.args and isinstance(e.args[0], (ast.GeneratorExp, ast.ListComp)):
        return e.args[0]
    return None


def _judge_instance_source(repo, fi, L, expr, anchor, depth=0, ctx=None):
    """Where does the stats middleware object ``expr`` (evaluated by statement ``anchor`` of ``fi``) come from?
    -> (True, text) it is an element of <APP_PARAM>.middlewares chosen by isinstance(.., StatsMiddleware);
       (False, why) it is something else for sure;  raises AnalysisError when it cannot be followed.
    ``ctx`` = (calling function, receiver expression, call node, its own ctx) when ``fi`` is a method reached through that call:
    its ``self`` is that receiver."""
    e = L.resolve(expr, anchor)
    if isinstance(e, ast.Name) and ctx is not None and e.id == _self_name(fi) and not L.counts.get(e.id):
        cfi, crecv, ccall, pctx = ctx
        return _judge_instance_source(repo, cfi, diffcon.Locals(cfi.node, cfg_of(cfi)), crecv, stmt_of(cfi.mod, ccall), depth, pctx)
    for c in ast.walk(e):
        if isinstance(c, ast.Call) and (call_name(c) in ('StatsMiddleware', 'copy', 'deepcopy') or call_tail(c) in ('copy', 'deepcopy', '__class__')
                                        or (isinstance(c.func, ast.Call) and call_name(c.func) == 'type')):
            return False, 'it is a newly made object (%s), not the instance installed on the application' % short(c)
    comp = _selection(e)
    if comp is not None:
        if len(comp.generators) != 1 or not isinstance(comp.generators[0].target, ast.Name):
            raise AnalysisError('%s: selection %s not understood' % (fi.key, short(e)))
        g = comp.generators[0]
        tgt = g.target.id
        if not (isinstance(comp.elt, ast.Name) and comp.elt.id == tgt):
            return False, 'the selected value %s is not the list element itself' % short(comp.elt)
        if not any(isinstance(c, ast.Call) and call_name(c) == 'isinstance' and len(c.args) == 2 and norm(c.args[0]) == tgt
                   and 'StatsMiddleware' in norm(c.args[1]) for i in g.ifs for c in ast.walk(i)):
            return False, 'the element is not chosen by isinstance(%s, StatsMiddleware)' % tgt
        return _judge_list(fi, L, g.iter, anchor)
    if isinstance(e, ast.Name) and len(L.defs.get(e.id, [])) > 1 and depth < 3:
        # one binding per branch / handler (``except IndexError: mw = <fallback>``): each of them is what may be read
        out = [_judge_instance_source(repo, fi, L, L._value[(id(b), e.id)], b, depth + 1, ctx) for b in L.defs[e.id]]
        bad = [o for o in out if not o[0]]
        return bad[0] if bad else out[0]
    if isinstance(e, ast.Name):
        # a loop variable:  for mw in <list>: if isinstance(mw, StatsMiddleware): return mw
        loops = [s_ for s_ in stmts_of(fi.node) if isinstance(s_, ast.For) and isinstance(s_.target, ast.Name) and s_.target.id == e.id]
        if len(loops) == 1 and L.counts.get(e.id) == 1:
            cs = conds(fi, anchor)
            if not any(p is True and isinstance(t, ast.Call) and call_name(t) == 'isinstance' and len(t.args) == 2 and norm(t.args[0]) == e.id
                       and 'StatsMiddleware' in norm(t.args[1]) for t, p in cs):
                return False, 'the element is not chosen by isinstance(%s, StatsMiddleware)' % e.id
            return _judge_list(fi, L, loops[0].iter, loops[0])
    if isinstance(e, ast.Name) and e.id in L.params and not L.counts.get(e.id) and e.id != _self_name(fi) and ctx is None and depth < 3:
        # a parameter of a helper (the report assembled by a function that is handed the middleware): what every call site of the
        # helper, anywhere in the analysed tree, passes for it -- each judged where it is evaluated
        sites = _call_sites(repo, fi, e.id)
        if not sites:
            raise AnalysisError('%s: cannot tell where the stats middleware object %s comes from (%s)'
                                % (fi.key, short(e), 'no call site found' if sites is not None else 'not every use of the function is a plain call'))
        out = [_judge_instance_source(repo, cfi, diffcon.Locals(cfi.node, cfg_of(cfi)), arg, a_, depth + 1) for cfi, arg, a_ in sites]
        bad = [o for o in out if not o[0]]
        return bad[0] if bad else out[0]
    if isinstance(e, ast.Call) and depth < 3:
        callee = _callee(repo, fi, e)
        if callee is not None and len(e.args) == len(callee.params()) and not e.keywords:
            # a helper that was not inlined: every value it returns, its parameters read as the arguments given
            ps = callee.params()
            if [norm(a) for a in e.args] != ps:
                raise AnalysisError('%s: %s renames its arguments; not followed' % (fi.key, short(e)))
            Lc = diffcon.Locals(callee.node, cfg_of(callee))
            rets = [r for r in returns_of(callee) if r.value is not None]
            if not rets:
                raise AnalysisError('%s returns nothing' % callee.key)
            out = [_judge_instance_source(repo, callee, Lc, r.value, r, depth + 1) for r in rets]
            bad = [o for o in out if not o[0]]
            return bad[0] if bad else out[0]
    raise AnalysisError('%s: cannot tell where the stats middleware object %s comes from' % (fi.key, short(e)))


def _call_sites(repo, fi, name):
    """[(calling function, argument expression, statement)]: what every call of ``fi`` in the analysed tree passes for parameter
    ``name``.  None when not every use of the function is a plain call inside a function that resolves to it (the function handed
    on as a value, called with * / **, the argument left to a default, a method call on an object of unknown class)."""
    ps = fi.params()
    sn = _self_name(fi)
    pos = ps.index(name) - (1 if sn else 0)
    out = []
    for m in repo.all_internal_modules():
        # every mention of the function's name that resolves to it is the callee of a call inside a function
        for n in ast.walk(m.tree):
            if isinstance(n, ast.Name) and n.id == fi.name and isinstance(n.ctx, ast.Load):
                try:
                    kind, _m, obj = repo.resolve(m, n.id)
                except Exception:
                    continue
                if kind == 'func' and obj is fi:
                    par = m.parents.get(n)
                    if not (isinstance(par, ast.Call) and par.func is n) or m.enclosing_function(n) is None:
                        return None
        for other in [f for f in m.functions.values() if f.mod is m]:
            for c in walk_body(other.node):
                if not isinstance(c, ast.Call) or call_tail(c) != fi.name:
                    continue
                anchor = stmt_of(other.mod, c)
                callee, _recv = _resolve_call(repo, other, c, anchor, 1)
                if callee is not fi:
                    if callee is None and isinstance(c.func, ast.Attribute):
                        return None
                    continue
                if any(isinstance(a, ast.Starred) for a in c.args) or any(k.arg is None for k in c.keywords):
                    return None
                kw = [k.value for k in c.keywords if k.arg == name]
                arg = kw[0] if kw else (c.args[pos] if 0 <= pos < len(c.args) else None)
                if arg is None or anchor is None:
                    return None
                if not any(c is x[3] for x in out):
                    out.append((other, arg, anchor, c))
    return [x[:3] for x in out]


def _judge_list(fi, L, it, anchor):
    t = norm(L.resolve(it, anchor))
    if t in ('%s.middlewares' % APP_PARAM, 'list(%s.middlewares)' % APP_PARAM, 'tuple(%s.middlewares)' % APP_PARAM):
        if APP_PARAM not in fi.params():
            raise AnalysisError('%s: %s is not a parameter' % (fi.key, APP_PARAM))
        return True, 'an element of %s.middlewares chosen by isinstance(.., StatsMiddleware)' % APP_PARAM
    raise AnalysisError('%s: the stats middleware is looked up in %s, not in %s.middlewares; cannot relate that list to the routes'
                        % (fi.key, t, APP_PARAM))


def _report_reads_running_instance(rep, repo, st):
    # (1) the report / reset side: whose route_hits, whose reset()
    # the module-level functions of the stats module, and the methods they run on an object whose class is known (``self`` of
    # such a method is the receiver of the call that led there)
    sites = []

    def visit(fi, ctx, seen):
        for n in walk_body(fi.node):
            if isinstance(n, ast.Attribute) and isinstance(n.ctx, ast.Load) and n.attr == 'route_hits':
                sites.append((fi, n.value, n, 'reads %s.route_hits' % norm(n.value), ctx))
            elif isinstance(n, ast.Call) and isinstance(n.func, ast.Attribute) and n.func.attr == 'reset' and not n.args:
                sites.append((fi, n.func.value, n, 'calls %s.reset()' % norm(n.func.value), ctx))
            if isinstance(n, ast.Call) and isinstance(n.func, ast.Attribute) and len(seen) < 5:
                callee, recv = _resolve_call(repo, fi, n)
                if callee is not None and recv is not None and not callee.mod.external and not any(callee is f for f in seen):
                    visit(callee, (fi, recv, n, ctx), seen + [callee])
    starts = [fi for fi in st.functions.values() if fi.cls is None and fi.mod is st]
    # (and the module-level functions the stats module imports from the analysed tree that touch the counters: an endpoint that moved)
    for name in sorted(st.imports):
        try:
            kind, m, obj = repo.resolve(st, name)
        except Exception:
            continue
        if kind == 'func' and m is not None and not m.external and obj.cls is None and \
                any(isinstance(n, ast.Attribute) and n.attr in ('route_hits', 'reset') for n in walk_body(obj.node)):
            starts.append(obj)
    for fi in starts:
        visit(fi, None, [fi])
    if len(sites) < 2:
        raise AnalysisError('stats endpoints: expected a read of <mw>.route_hits and a <mw>.reset() call, found %d' % len(sites))
    vmod = {}
    verdicts = {}       # a method reached from several endpoints: one obligation per site, failing if any way to it fails
    order = []
    for fi, recv, node, what, ctx in sites:
        anchor = stmt_of(fi.mod, node)
        L = diffcon.Locals(fi.node, cfg_of(fi))
        ok, why = _judge_instance_source(repo, fi, L, recv, anchor, ctx=ctx)
        k = fkey(fi, what)
        if k not in verdicts:
            order.append(k)
        if k not in verdicts or (verdicts[k][0] and not ok):
            verdicts[k] = (ok, why, what, node)
            vmod[k] = fi.mod
    for k in order:
        ok, why, what, node = verdicts[k]
        rep.check('R19.d', k, ok, '%s: %s' % (what, why) if ok else
                  '%s, but %s: the counters shown / reset are not the ones the routes of the application add to' % (what, why), vmod[k], node)
    # (2) a bound route's list: merge(<route level>, <application level>), the application being the one injected later
    route = repo.mod('clastic.route')
    core = repo.mod('clastic.middleware.core')
    bi = route.func('BoundRoute.__init__')
    route_mods = _uniq([route, bi.mod])
    route = bi.mod
    Lb = diffcon.Locals(bi.node, cfg_of(bi))
    calls = [c for c in walk_body(bi.node) if isinstance(c, ast.Call) and call_name(c) == 'merge_middlewares']
    if len(calls) != 1 or calls[0].keywords or any(isinstance(a, ast.Starred) for a in calls[0].args):
        raise AnalysisError('BoundRoute.__init__: expected one plain merge_middlewares(...) call')
    call = calls[0]
    params = [p for p in bi.params() if p != 'self']

    def level_of(e):
        r = Lb.resolve(e, stmt_of(route, call))
        if isinstance(r, ast.Call) and call_name(r) in ('list', 'tuple') and len(r.args) == 1:
            r = r.args[0]
        if isinstance(r, ast.Call) and call_name(r) == 'getattr' and len(r.args) == 3 and isinstance(r.args[1], ast.Constant):
            r = ast.Attribute(value=r.args[0], attr=r.args[1].value, ctx=ast.Load())
        if isinstance(r, ast.Attribute) and r.attr == 'middlewares' and isinstance(r.value, ast.Name) and r.value.id in params:
            return r.value.id
        return None
    levels = [level_of(a) for a in call.args]
    # which parameter of BoundRoute.__init__ is the application handed out as ``_application``: the last of self.bound_apps
    apps = []
    for s in stmts_of(bi.node):
        for t, v in _assign_pairs(s):
            if norm(t) == 'self.bound_apps':
                v = Lb.resolve(v, s)
                last = v.right if isinstance(v, ast.BinOp) and isinstance(v.op, ast.Add) else v
                if isinstance(last, (ast.List, ast.Tuple)) and last.elts and isinstance(last.elts[-1], ast.Name):
                    apps.append(last.elts[-1].id)
    # every place in the route module where a mapping gets an entry under that name -- a dict display, a keyword
    # of dict(..) / .update(..), a store ``d['_application'] = v`` (the injectables may be assembled in a helper method)
    provided = []
    for f in [f_ for m_ in route_mods for f_ in m_.functions.values() if f_.mod is m_]:
        Lf = None
        for n in ast.walk(f.node):
            vals = []
            if isinstance(n, ast.Dict):
                vals = [v for k, v in zip(n.keys, n.values) if isinstance(k, ast.Constant) and k.value == APP_PARAM]
            elif isinstance(n, ast.Call) and (call_name(n) == 'dict' or call_tail(n) in ('update', 'setdefault')):
                vals = [k.value for k in n.keywords if k.arg == APP_PARAM]
                if call_tail(n) == 'setdefault' and len(n.args) == 2 and isinstance(n.args[0], ast.Constant) and n.args[0].value == APP_PARAM:
                    vals.append(n.args[1])
            elif isinstance(n, ast.Assign):
                vals = [n.value for t in n.targets if isinstance(t, ast.Subscript) and isinstance(t.slice, ast.Constant) and t.slice.value == APP_PARAM]
            for v in vals:
                s_ = stmt_of(f.mod, v)
                if Lf is None:
                    Lf = diffcon.Locals(f.node, cfg_of(f))
                provided.append(norm(Lf.resolve(v, s_)) if s_ is not None and cfg_of(f).nodes_of(s_) else norm(v))
    provider = [t for t in provided if t == 'self.bound_apps[-1]']
    if len(apps) != 1 or not provider or len(provider) != len(provided):
        raise AnalysisError("clastic.route: cannot see that '%s' is the application a route was bound to last (self.bound_apps[-1])" % APP_PARAM)
    app_p = apps[0]
    if app_p not in levels or len([l for l in levels if l is not None]) != len(levels):
        raise AnalysisError('BoundRoute.__init__: merge_middlewares arguments %s are not the route-level and the application-level list'
                            % [short(a) for a in call.args])
    mm = core.func('merge_middlewares')
    kept = mm.params()[levels.index(app_p)]
    # (3) the merge keeps every element of that argument, by identity
    ok, why, node = _merge_keeps(mm, kept)
    rep.check('R19.d', fkey(mm, 'keeps the instances of %s' % kept), ok,
              "every middleware instance of the application-level list ('%s') is in the merged list itself: %s" % (kept, why) if ok else
              "merge_middlewares does not keep the application's own instances ('%s'): %s.  Middleware equality is by type, so a route (or an "
              "embedded application) that lists its own StatsMiddleware() then runs that private instance, while the stats endpoints read the one "
              "in %s.middlewares: its requests are counted where nobody looks" % (kept, why, APP_PARAM), core, node)
    # (3b) the list the endpoints search belongs to the application: its constructor binds ``self.middlewares`` to a copy, so that
    #      nobody holding the list that was passed in can later change which collector the endpoints find (the bound routes keep
    #      running the instances merged at bind time)
    appm = repo.mod('clastic.application')
    ai = appm.func('Application.__init__')
    Lai = diffcon.Locals(ai.node, cfg_of(ai))
    binds = [(s_, v) for s_ in stmts_of(ai.node) for t, v in _assign_pairs(s_) if norm(t) == '%s.middlewares' % (_self_name(ai) or 'self')]
    if not binds:
        raise AnalysisError('Application.__init__: no binding of self.middlewares')
    shared = []
    for s_, v in binds:
        fresh = _fresh_list(Lai, Lai.resolve(v, s_), s_)
        if fresh is None:
            raise AnalysisError('Application.__init__: cannot tell whether %s is a list of its own' % short(s_))
        if not fresh:
            shared.append(s_)
    rep.check('R19.d', fkey(ai, 'own middleware list'), not shared,
              'the application keeps a copy of the middleware list it was given (%s)' % '; '.join(short(s_) for s_, _ in binds) if not shared else
              '%s keeps the very list object the caller passed: editing that list afterwards changes which StatsMiddleware the stats endpoints find in '
              '%s.middlewares, while the bound routes go on counting on the instance merged at bind time -- the report no longer shows the requests served'
              % (short(shared[0]), APP_PARAM), appm, shared[0] if shared else ai.node)
    # (4) the chain is compiled from that very list
    chains = [c for c in walk_body(bi.node) if isinstance(c, ast.Call) and call_name(c) == 'make_middleware_chain' and c.args]
    if len(chains) != 1:
        raise AnalysisError('BoundRoute.__init__: expected one make_middleware_chain(...) call')
    def holds_merged(e, carriers):
        """``e`` is the merge result or a list/tuple copy of it (same elements), possibly under a name that carries it"""
        while (isinstance(e, ast.Call) and call_name(e) in ('list', 'tuple') and len(e.args) == 1 and not e.keywords) or \
                (isinstance(e, ast.Subscript) and isinstance(e.slice, ast.Slice) and e.slice.lower is None and e.slice.upper is None and e.slice.step is None):
            e = e.args[0] if isinstance(e, ast.Call) else e.value
        return e is call or (isinstance(e, ast.Call) and norm(e) == norm(call)) or (isinstance(e, (ast.Name, ast.Attribute)) and norm(e) in carriers)
    tgt = set()
    pairs = [(t, v) for s in stmts_of(bi.node) for t, v in _assign_pairs(s)]
    grown = True
    while grown:
        grown = False
        for t, v in pairs:
            if norm(t) not in tgt and holds_merged(v, tgt):
                # (a carrier bound more than once is not followed)
                if len([1 for t2, _ in pairs if norm(t2) == norm(t)]) == 1:
                    tgt.add(norm(t))
                    grown = True
    got = norm(chains[0].args[0])
    ok = holds_merged(chains[0].args[0], tgt)
    tgt = sorted(tgt)
    if not ok:
        one_level = [norm(Lb.resolve(a, stmt_of(route, call))) for a in call.args]
        if norm(Lb.resolve(chains[0].args[0], stmt_of(route, chains[0]))) not in one_level:
            raise AnalysisError('BoundRoute.__init__: cannot relate the list the chain is compiled from (%s) to the merged list %s' % (got, tgt))
    rep.check('R19.d', fkey(bi, 'chain from merged list'), ok, 'the request chain is compiled from the merged list (%s)' % got if ok else
              'the request chain is compiled from %s, not from the merged middleware list %s' % (got, tgt), route, chains[0])


def _fresh_list(L, e, anchor, depth=0):
    """``e`` (resolved) evaluates to a list / tuple object made here: True; to an object that already exists (a name, an attribute,
    ``x or []``): False; None when it cannot be told"""
    if depth > 4:
        return None
    if isinstance(e, (ast.List, ast.Tuple, ast.ListComp, ast.Set, ast.SetComp)):
        return True
    if isinstance(e, ast.Call):
        if call_name(e) in ('list', 'tuple', 'sorted', 'set', 'frozenset', 'copy', 'deepcopy', 'copy.copy', 'copy.deepcopy', 'reversed') \
                or (isinstance(e.func, ast.Attribute) and e.func.attr == 'copy' and not e.args):
            return True
        return None
    if isinstance(e, ast.Subscript) and isinstance(e.slice, ast.Slice):
        return True
    if isinstance(e, ast.BinOp) and isinstance(e.op, (ast.Add, ast.Mult)):
        return True
    if isinstance(e, ast.IfExp):
        a, b = _fresh_list(L, e.body, anchor, depth + 1), _fresh_list(L, e.orelse, anchor, depth + 1)
        return False if a is False or b is False else (None if a is None or b is None else True)
    if isinstance(e, ast.BoolOp):
        vs = [_fresh_list(L, v, anchor, depth + 1) for v in e.values]
        return False if any(v is False for v in vs) else (None if any(v is None for v in vs) else True)
    if isinstance(e, ast.Name) and len(L.defs.get(e.id, [])) > 1:
        vs = [_fresh_list(L, L.resolve(L._value[(id(b), e.id)], b), b, depth + 1) for b in L.defs[e.id]]
        return False if any(v is False for v in vs) else (None if any(v is None for v in vs) else True)
    if isinstance(e, (ast.Name, ast.Attribute)):
        return False
    if isinstance(e, ast.Constant):
        return True
    return None


def _merge_keeps(mm, kept):
    """(ok, text, node): does the list ``mm`` returns contain every element of parameter ``kept``, by identity?"""
    rets = [r for r in returns_of(mm) if r.value is not None]
    if not rets:
        raise AnalysisError('merge_middlewares returns nothing')

    def copy_of(e, depth=0):
        """``e`` denotes ``kept`` or a list holding all its elements"""
        if depth > 4:
            return False
        if isinstance(e, ast.Name):
            if e.id == kept:
                vals = assigned_value(mm.node, kept)
                return all(idx is None and isinstance(v, ast.expr) and copy_of_rebind(v) for _, v, idx in vals)
            vals = assigned_value(mm.node, e.id)
            return bool(vals) and all(idx is None and isinstance(v, ast.expr) and copy_of(v, depth + 1) for _, v, idx in vals)
        if isinstance(e, ast.Call) and call_name(e) in ('list', 'tuple') and len(e.args) == 1 and not e.keywords:
            return copy_of(e.args[0], depth + 1)
        if isinstance(e, ast.Subscript) and isinstance(e.slice, ast.Slice) and e.slice.lower is None and e.slice.upper is None and e.slice.step is None:
            return copy_of(e.value, depth + 1)
        if isinstance(e, (ast.List, ast.Tuple)):
            return any(isinstance(x, ast.Starred) and copy_of(x.value, depth + 1) for x in e.elts)
        if isinstance(e, ast.BinOp) and isinstance(e.op, ast.Add):
            return copy_of(e.left, depth + 1) or copy_of(e.right, depth + 1)
        if isinstance(e, ast.ListComp) and len(e.generators) == 1 and not e.generators[0].ifs and isinstance(e.generators[0].target, ast.Name) \
                and isinstance(e.elt, ast.Name) and e.elt.id == e.generators[0].target.id:
            return copy_of(e.generators[0].iter, depth + 1)
        return False

    def copy_of_rebind(v):
        # ``new = list(new)``
        return isinstance(v, ast.Call) and call_name(v) in ('list', 'tuple') and len(v.args) == 1 and norm(v.args[0]) == kept
    names = set()
    for r in rets:
        if isinstance(r.value, ast.Name):
            names.add(r.value.id)
        elif not copy_of(r.value):
            raise AnalysisError('merge_middlewares: returned value %s not understood' % short(r.value))
    for M in sorted(names):
        vals = [x for x in assigned_value(mm.node, M) if not (isinstance(x[1], ast.AugAssign) and isinstance(x[1].op, ast.Add))]   # ``M += [..]`` only adds
        plain = [(s_, v) for s_, v, idx in vals if idx is None and isinstance(v, ast.expr)]
        if len(plain) != len(vals) or not plain:
            raise AnalysisError('merge_middlewares: bindings of %s not understood' % M)
        for s_, v in plain:
            if not copy_of(v):
                if isinstance(v, (ast.ListComp, ast.GeneratorExp)) and len(v.generators) == 1 and copy_of(v.generators[0].iter) and \
                        (v.generators[0].ifs or norm(v.elt) != norm(v.generators[0].target)):
                    return False, "the merged list is a filtered / rebuilt version of '%s' (%s)" % (kept, short(v)), s_
                if any(isinstance(x, ast.Name) and x.id == kept for x in ast.walk(v)):
                    raise AnalysisError('merge_middlewares: cannot tell whether %s keeps every element of %s' % (short(s_), kept))
                return False, "the merged list is built as %s, not from a copy of '%s'" % (short(v), kept), s_
        for n in walk_body(mm.node):
            if isinstance(n, ast.Subscript) and isinstance(n.ctx, (ast.Store, ast.Del)) and norm(n.value) == M:
                s_ = stmt_of(mm.mod, n)
                if isinstance(n.ctx, ast.Store) and isinstance(s_, ast.Assign) and len(s_.targets) == 1 and norm(s_.value) == norm(n):
                    continue
                return False, 'an element of the merged list is %s (%s)' % ('replaced' if isinstance(n.ctx, ast.Store) else 'deleted', short(s_)), s_
            if isinstance(n, ast.Call) and isinstance(n.func, ast.Attribute) and norm(n.func.value) == M:
                if n.func.attr in DROPPERS:
                    return False, 'elements are taken out of the merged list (%s)' % short(n), n
                if n.func.attr not in ADDERS:
                    raise AnalysisError('merge_middlewares: effect of %s on the merged list unknown' % short(n))
    return True, 'the result starts as a copy of it; afterwards elements are only added', None


def _same_name_between(cfg, e1, s1, e2, s2):
    """``e1`` at statement ``s1`` and ``e2`` at ``s2`` are the same plain name and nothing on the way from one statement to the other
    re-binds it (a parameter defaulted earlier: ``if x is None: x = []`` before both)"""
    if not (isinstance(e1, ast.Name) and isinstance(e2, ast.Name) and e1.id == e2.id):
        return False
    n1 = [n for n in cfg.nodes_of(s1) if cfg.reachable(n)]
    n2 = [n for n in cfg.nodes_of(s2) if cfg.reachable(n)]
    if not n1 or not n2:
        return False
    a1 = [m for x in n1 for m in cfg.succ[x]]
    a2 = [m for x in n2 for m in cfg.succ[x]]
    mid = ((cfg.reach(a1) & cfg.coreach(n2)) | (cfg.reach(a2) & cfg.coreach(n1))) - set(n1) - set(n2)
    return not cfg._kills(e1, mid)


def _uniq(xs):
    out = []
    for x in xs:
        if x is not None and not any(x is y for y in out):
            out.append(x)
    return out


def _assign_pairs(s):
    """[(target, value)] of an assignment statement; ``a, b = x, y`` gives both pairs."""
    out = []
    if isinstance(s, ast.Assign):
        for t in s.targets:
            if isinstance(t, (ast.Tuple, ast.List)) and isinstance(s.value, (ast.Tuple, ast.List)) and len(t.elts) == len(s.value.elts) \
                    and not any(isinstance(e, ast.Starred) for e in t.elts + s.value.elts):
                out.extend(zip(t.elts, s.value.elts))
            else:
                out.append((t, s.value))
    elif isinstance(s, ast.AnnAssign) and s.value is not None:
        out.append((s.target, s.value))
    return out


def _reported_values(repo, fi, depth=0):
    """[(FuncInfo, expr)] -- the expressions whose value becomes a per-key entry of the mapping ``fi`` returns:
    ``{k: V for ..}``, ``ret[k] = V`` (with ``ret[k] = cur = {}`` the alias ``cur``, later filled, is the entry)."""
    out = []
    for r in returns_of(fi):
        v = r.value
        if isinstance(v, ast.DictComp):
            out.append((fi, v.value))
        elif isinstance(v, ast.Name):
            for s in stmts_of(fi.node):
                if not isinstance(s, ast.Assign):
                    continue
                if any(isinstance(t, ast.Subscript) and norm(t.value) == v.id for t in s.targets):
                    al = [t for t in s.targets if isinstance(t, ast.Name)]
                    out.append((fi, al[0] if al else s.value))
                elif any(isinstance(t, ast.Name) and t.id == v.id for t in s.targets) and isinstance(s.value, ast.DictComp):
                    out.append((fi, s.value.value))
        elif isinstance(v, ast.Call) and depth < 3:
            callee, _recv = _resolve_call(repo, fi, v, r)
            if callee is not None:
                out.extend(_reported_values(repo, callee, depth + 1))
    return out


def _callee(repo, fi, call):
    """FuncInfo of a module-level function of the analysed tree called by plain name, else None."""
    if isinstance(call, ast.Call) and isinstance(call.func, ast.Name):
        try:
            kind, m, obj = repo.resolve(fi.mod, call.func.id)
        except Exception:
            return None
        if kind == 'func' and m is not None and not m.external:
            return obj
    return None


# ---- which class an object is of (public methods are not dissolved by the loader: calls on an object are followed when its
#      class is known from the source) -----------------------------------------------------------------------------------
# abstract values: ('inst', ClassInfo) an instance of that class of the analysed tree; ('map', T) a mapping whose values
# are T; None: unknown.  Nothing is guessed from names: a class is known from a constructor call, an isinstance test that
# selected the object, the method the code sits in (``self``), the factory of a defaultdict, the attribute bindings of the
# owning class, or -- for a parameter -- from every call site of the function.
def _internal_class(repo, mod, expr):
    try:
        r = repo.resolve_class(mod, expr)
    except Exception:
        return None
    return r if hasattr(r, 'methods') and not r.mod.external else None


def _join(ts):
    ts = list(ts)
    if not ts or any(t is None for t in ts):
        return None
    return ts[0] if all(t == ts[0] for t in ts[1:]) else None


def _self_name(fi):
    """name of the instance parameter of a plain method (no decorator: not static / class method / property), else None"""
    if fi.cls is None or fi.node.decorator_list or not fi.node.args.args:
        return None
    return fi.node.args.args[0].arg


def _isinstance_class(repo, mod, test, name):
    """``isinstance(<name>, C)`` somewhere in a conjunct of ``test`` -> the internal class C, else None"""
    parts = test.values if isinstance(test, ast.BoolOp) and isinstance(test.op, ast.And) else [test]
    for c in parts:
        if isinstance(c, ast.Call) and call_name(c) == 'isinstance' and len(c.args) == 2 and norm(c.args[0]) == name:
            ci = _internal_class(repo, mod, c.args[1])
            if ci is not None:
                return ci
    return None


def _type_of(repo, fi, expr, anchor, depth=0, look=True):
    """abstract value (see above) of ``expr`` as evaluated by statement ``anchor`` of function ``fi``"""
    if depth > 8 or expr is None:
        return None
    mod = fi.mod
    e = expr
    if look and anchor is not None:
        try:
            cfg = cfg_of(fi)
            if cfg.nodes_of(anchor):
                e = diffcon.Locals(fi.node, cfg).resolve(expr, anchor)
        except AnalysisError:
            e = expr
    nxt = lambda x: _type_of(repo, fi, x, anchor, depth + 1, look=False)
    comp = _selection(e)
    if comp is not None and len(comp.generators) == 1 and isinstance(comp.generators[0].target, ast.Name):
        g = comp.generators[0]
        if isinstance(comp.elt, ast.Name) and comp.elt.id == g.target.id:
            for i in g.ifs:
                ci = _isinstance_class(repo, mod, i, g.target.id)
                if ci is not None:
                    return ('inst', ci)
        return None
    if isinstance(e, ast.Call):
        tail = call_tail(e)
        if isinstance(e.func, ast.Name) or (isinstance(e.func, ast.Attribute) and isinstance(e.func.value, ast.Name)):
            ci = _internal_class(repo, mod, e.func)
            if ci is not None:
                return ('inst', ci)
        if tail == 'defaultdict' and e.args:
            f = e.args[0]
            if isinstance(f, ast.Lambda):
                a = f.args
                if not (a.args or a.posonlyargs or a.kwonlyargs or a.vararg or a.kwarg):
                    t = nxt(f.body)
                    return ('map', t) if t is not None else None
                return None
            if isinstance(f, ast.Call) and call_tail(f) == 'partial' and f.args and not any(isinstance(a, ast.Starred) for a in f.args):
                # partial(defaultdict, C): what calling it without further arguments makes
                t = nxt(ast.Call(func=f.args[0], args=list(f.args[1:]), keywords=list(f.keywords)))
                return ('map', t) if t is not None else None
            ci = _internal_class(repo, mod, f) if isinstance(f, (ast.Name, ast.Attribute)) else None
            if ci is None and isinstance(f, ast.Name):
                # a function of the analysed tree taking no arguments: what it returns
                callee = _callee(repo, fi, ast.Call(func=f, args=[], keywords=[]))
                if callee is not None and not callee.params():
                    rets = [r for r in returns_of(callee) if r.value is not None]
                    t = _join(_type_of(repo, callee, r.value, r, depth + 2) for r in rets)
                    return ('map', t) if t is not None else None
            return ('map', ('inst', ci)) if ci is not None else None
        if call_name(e) in ('copy', 'deepcopy', 'copy.copy', 'copy.deepcopy') and len(e.args) == 1 and not e.keywords:
            return nxt(e.args[0])       # a copy is of the class of its original
        if tail == 'dict' and isinstance(e.func, ast.Name) and len(e.args) == 1 and not e.keywords:
            t = nxt(e.args[0])
            return t if t is not None and t[0] == 'map' else None
        callee, _recv = _resolve_call(repo, fi, e, anchor, depth + 1)
        if callee is not None:
            rets = [r for r in returns_of(callee) if r.value is not None]
            return _join(_type_of(repo, callee, r.value, r, depth + 2) for r in rets)
        return None
    if isinstance(e, ast.Subscript) and not isinstance(e.slice, ast.Slice):
        t = nxt(e.value)
        return t[1] if t is not None and t[0] == 'map' else None
    if isinstance(e, ast.Attribute):
        t = nxt(e.value)
        if t is None or t[0] != 'inst':
            return None
        # every binding ``self.<attr> = v`` in the methods of that class (and its bases) must agree
        found = []
        for c in repo.mro(t[1]):
            if not hasattr(c, 'methods') or c.mod.external:
                continue
            for m in c.methods.values():
                sn = _self_name(m)
                for s in stmts_of(m.node):
                    for tg, v in _assign_pairs(s):
                        if isinstance(tg, ast.Attribute) and tg.attr == e.attr and isinstance(tg.value, ast.Name) and tg.value.id == sn:
                            found.append(_type_of(repo, m, v, s, depth + 2))
                    if isinstance(s, ast.AugAssign) and isinstance(s.target, ast.Attribute) and s.target.attr == e.attr:
                        found.append(None)
        return _join(found)
    if isinstance(e, ast.Name):
        name = e.id
        L = diffcon.Locals(fi.node, cfg_of(fi))
        if name == _self_name(fi) and not L.counts.get(name):
            return ('inst', fi.cls)
        if name in L.defs and len(L.defs[name]) > 1:
            return _join(_type_of(repo, fi, L._value[(id(b), name)], b, depth + 1) for b in L.defs[name])
        if name in L.params and not L.counts.get(name):
            return _param_type(repo, fi, name, depth + 1)
        if L.counts.get(name) != 1:
            return None
        # the one binder of this name: a loop / comprehension target over the values of a mapping
        for n in ast.walk(fi.node):
            tgt = it = None
            if isinstance(n, ast.For):
                tgt, it = n.target, n.iter
            elif isinstance(n, ast.comprehension):
                tgt, it = n.target, n.iter
            if tgt is None or not any(isinstance(x, ast.Name) and x.id == name for x in ast.walk(tgt)):
                continue
            binder = n if isinstance(n, ast.For) else stmt_of(mod, it)
            if isinstance(it, ast.Call) and isinstance(it.func, ast.Attribute) and not it.args and not it.keywords:
                if (it.func.attr == 'values' and isinstance(tgt, ast.Name)) or \
                        (it.func.attr == 'items' and isinstance(tgt, (ast.Tuple, ast.List)) and len(tgt.elts) == 2 and
                         isinstance(tgt.elts[1], ast.Name) and tgt.elts[1].id == name):
                    t = _type_of(repo, fi, it.func.value, binder, depth + 1)
                    if t is not None and t[0] == 'map':
                        return t[1]
            # an element picked by an isinstance test on the way to the use
            if isinstance(tgt, ast.Name) and anchor is not None:
                for t_, p in conds(fi, anchor):
                    if p is True:
                        ci = _isinstance_class(repo, mod, t_, name)
                        if ci is not None:
                            return ('inst', ci)
            return None
    return None


def _param_type(repo, fi, name, depth):
    """what every call site of ``fi`` (calls by plain name / method calls on an object of known class, anywhere in the analysed tree:
    the function may be imported by the module that uses it) passes for parameter ``name``"""
    if depth > 8:
        return None
    ps = fi.params()
    sn = _self_name(fi)
    pos = ps.index(name) - (1 if sn else 0)
    found = []
    for other in [f for m in repo.all_internal_modules() for f in m.functions.values() if f.mod is m]:
        for c in walk_body(other.node):
            if not isinstance(c, ast.Call) or call_tail(c) != fi.name:
                continue
            anchor = stmt_of(other.mod, c)
            callee, _recv = _resolve_call(repo, other, c, anchor, depth + 1)
            if callee is not fi:
                if callee is None and isinstance(c.func, ast.Attribute):
                    return None         # may be a call of this method on an object we cannot type
                continue
            if any(isinstance(a, ast.Starred) for a in c.args) or any(k.arg is None for k in c.keywords):
                return None
            kw = [k.value for k in c.keywords if k.arg == name]
            arg = kw[0] if kw else (c.args[pos] if 0 <= pos < len(c.args) else None)
            found.append(_type_of(repo, other, arg, anchor, depth + 1))
    return _join(found)


def _resolve_call(repo, fi, call, anchor=None, depth=0):
    """(FuncInfo, receiver expression or None) of the function of the analysed tree a call runs: a module-level function
    called by plain name, or a plain method called on an object whose class is known; (None, None) otherwise."""
    if not isinstance(call, ast.Call):
        return None, None
    f = _callee(repo, fi, call)
    if f is not None:
        return f, None
    if isinstance(call.func, ast.Attribute) and depth <= 8:
        if anchor is None:
            anchor = stmt_of(fi.mod, call)
        t = _type_of(repo, fi, call.func.value, anchor, depth + 1)
        if t is not None and t[0] == 'inst':
            m = repo.find_method(t[1], call.func.attr)
            if m is not None and not m.mod.external and _self_name(m) is not None:
                return m, call.func.value
    return None, None


def _dict_layers(repo, fi, expr, depth=0):
    """Layers (vt.layers) of the dict ``expr`` denotes in function ``fi``: locals are followed to their construction
    and later updates, ``dict(x)`` / ``{**x}`` copies to x, calls of module-level helpers to what they return."""
    from ..layers import layers_of_var, layers_of_expr, Layer
    if depth > 5:
        return [Layer('source', norm(expr), expr)]
    if isinstance(expr, ast.Name):
        ls = layers_of_var(fi.node, expr.id)
        if not ls:
            return [Layer('source', norm(expr), expr)]
    elif isinstance(expr, ast.Dict) or (isinstance(expr, ast.Call) and isinstance(expr.func, ast.Name) and expr.func.id == 'dict'):
        ls = layers_of_expr(expr)
    elif _resolve_call(repo, fi, expr)[0] is not None:
        # a module-level helper, or a method of the object the entry is computed from (its class known): what it returns
        callee = _resolve_call(repo, fi, expr)[0]
        rets = returns_of(callee)
        if len(rets) != 1 or rets[0].value is None:
            return [Layer('source', norm(expr), expr)]
        return _dict_layers(repo, callee, rets[0].value, depth + 1)
    else:
        return [Layer('source', norm(expr), expr)]
    out = []
    for l in ls:
        if l.kind == 'source' and isinstance(l.node, ast.expr) and not (isinstance(expr, ast.Name) and isinstance(l.node, ast.Name) and l.node.id == expr.id):
            sub = _dict_layers(repo, fi, l.node, depth + 1)
            if not (len(sub) == 1 and sub[0].kind == 'source'):
                out.extend(sub)
                continue
        out.append(l)
    return out


def _home(repo, node, hint):
    """the module of the analysed tree whose syntax tree holds ``node`` (``hint`` first)"""
    if node is None or node in hint.parents:
        return hint
    for m in repo.all_internal_modules():
        if node in m.parents:
            return m
    return hint


def _is_total_count(mod, value):
    """``<reservoir>.total_count``, possibly through a named temporary of the function the expression sits in"""
    if value is None:
        return False
    e = value
    fnode = mod.enclosing_function(value)
    fi = mod.func_of_node(fnode) if fnode is not None else None
    anchor = stmt_of(mod, value)
    if fi is not None and anchor is not None and cfg_of(fi).nodes_of(anchor):
        e = diffcon.Locals(fi.node, cfg_of(fi)).resolve(value, anchor)
    return isinstance(e, ast.Attribute) and e.attr == 'total_count'


def _mentions_describe(fi, layer):
    """Does this source layer come from a ``.describe(...)`` call (named temporaries looked through)?"""
    n = layer.node
    if not isinstance(n, ast.expr):
        return False
    e = n
    try:
        anchor = stmt_of(fi.mod, n)
        fnode = fi.mod.enclosing_function(n)
        own = fi.mod.func_of_node(fnode) if fnode is not None else None     # (the layer may sit in a helper / method that was followed)
        if own is not None and anchor is not None and cfg_of(own).nodes_of(anchor):
            e = diffcon.Locals(own.node, cfg_of(own)).resolve(n, anchor)
    except AnalysisError:
        pass
    return any(isinstance(c, ast.Call) and call_tail(c) == 'describe' for c in ast.walk(e))


def _ancestors(mod, node):
    cur = mod.parents.get(node)
    while cur is not None:
        yield cur
        cur = mod.parents.get(cur)
