"""Helpers shared by the per-property rule modules."""
import ast

from ..core import AnalysisError, norm, short
from ..cfg import CFG, expand_conds, enclosing_tries
from ..astutil import (dotted, call_name, call_tail, walk_body, stmts_of, stmt_of, calls_named, find_calls,
                       names_loaded, kwarg, is_const, root_name, handler_catches)
from .. import scopes

def cfg_of(fi):
    c = getattr(fi, '_cfg', None)
    if c is None:
        c = fi._cfg = CFG(fi.node)
    return c


def fkey(fi, what=''):
    """Construct key: module::qualname[::normalised text] -- never a line number."""
    return '%s::%s' % (fi.key, norm(what)) if what != '' else fi.key


def conds(fi, node):
    """Conditions (test, polarity) that hold at the statement containing ``node``."""
    st = node if isinstance(node, ast.stmt) else stmt_of(fi.mod, node)
    return cfg_of(fi).conds_at_stmt(st)


def has_cond(cs, pred, pol):
    for t, p in cs:
        if p is pol and pred(t):
            return True
    return False


def _none_cmp(t, name):
    """``name is None`` -> 'is'; ``name is not None`` -> 'isnot'; else None."""
    if isinstance(t, ast.Compare) and len(t.ops) == 1 and norm(t.left) == name and isinstance(t.comparators[0], ast.Constant) \
            and t.comparators[0].value is None:
        if isinstance(t.ops[0], (ast.Is, ast.Eq)):
            return 'is'
        if isinstance(t.ops[0], (ast.IsNot, ast.NotEq)):
            return 'isnot'
    return None


def implies_absent(cs, name):
    """The path conditions say ``name`` is None / falsy (``not name``, ``name is None``)."""
    for t, p in cs:
        if norm(t) == name and p is False:
            return True
        k = _none_cmp(t, name)
        if (k == 'is' and p is True) or (k == 'isnot' and p is False):
            return True
    return False


def implies_present(cs, name):
    """The path conditions say ``name`` is truthy / not None."""
    for t, p in cs:
        if norm(t) == name and p is True:
            return True
        k = _none_cmp(t, name)
        if (k == 'is' and p is False) or (k == 'isnot' and p is True):
            return True
    return False


def cond_texts(cs):
    return ['%s%s' % ('' if p else 'not ', short(t, 60)) for t, p in cs]


def is_call_to(expr, *names):
    return isinstance(expr, ast.Call) and (call_name(expr) in names or call_tail(expr) in names)


def isinstance_test(expr, var=None, cls=None):
    """Match ``isinstance(var, cls)``; cls may be a name contained in a tuple."""
    if not (isinstance(expr, ast.Call) and isinstance(expr.func, ast.Name) and expr.func.id == 'isinstance'
            and len(expr.args) == 2):
        return False
    if var is not None and norm(expr.args[0]) != var:
        return False
    if cls is not None:
        c = expr.args[1]
        names = [norm(e) for e in c.elts] if isinstance(c, ast.Tuple) else [norm(c)]
        names = [n.rpartition('.')[2] for n in names]
        if cls not in names:
            return False
    return True


def local_aliases(fi, global_name):
    """Names under which a module-level function is called in fi: itself plus locals bound to it (bfr = build_file_response)."""
    out = {global_name}
    for s in stmts_of(fi.node):
        if isinstance(s, ast.Assign) and isinstance(s.value, ast.Name) and s.value.id == global_name:
            for t in s.targets:
                if isinstance(t, ast.Name):
                    out.add(t.id)
    return out


def returns_of(fi):
    return [s for s in stmts_of(fi.node) if isinstance(s, ast.Return)]


def raises_of(fi):
    return [s for s in stmts_of(fi.node) if isinstance(s, ast.Raise)]


def raise_type(st):
    """Name of the exception class raised by ``raise X(...)`` / ``raise X``; None for bare raise."""
    if st.exc is None:
        return None
    e = st.exc
    if isinstance(e, ast.Call):
        e = e.func
    return dotted(e) or norm(e)


def check_unbound(rep, rule, mods, scope_filter=None, exempt=None):
    """R*.a: every Name load resolves.  ``exempt(unbound, conds)`` -> reason or None."""
    n = 0
    for m in mods:
        ubs = scopes.unbound_names(m)
        bad = {}
        for u in ubs:
            if scope_filter is not None and not scope_filter(m, u.scope):
                continue
            bad.setdefault(u.scope, []).append(u)
        scopes_seen = set(['<module>'] + list(m.functions.keys()) + list(m.classes.keys()))
        for sc in sorted(scopes_seen):
            if scope_filter is not None and not scope_filter(m, sc):
                continue
            n += 1
            us = bad.get(sc, [])
            real = []
            for u in us:
                reason = None
                if exempt is not None:
                    reason = exempt(m, u)
                if reason:
                    rep.ok(rule, '%s::%s::%s' % (m.name, sc, u.name), 'exempt: ' + reason, m,
                           u.nodes[0] if u.nodes else None)
                else:
                    real.append(u)
            if real:
                for u in real:
                    rep.fail(rule, '%s::%s::%s' % (m.name, sc, u.name),
                             "name '%s' is not bound in any enclosing scope, at module level or as a builtin "
                             "(NameError when this line runs)" % u.name, m, u.nodes[0] if u.nodes else None)
            else:
                rep.ok(rule, '%s::%s' % (m.name, sc), 'every global name load in this scope resolves')
    return n


def platform_gated(mod, u):
    """Exemption: the load is dominated by ``os.name == 'nt'`` (dead on the analysed platform)."""
    for nd in u.nodes:
        fnode = mod.enclosing_function(nd)
        if fnode is None:
            return None
        fi = mod.func_of_node(fnode)
        if fi is None:
            return None
        cs = conds(fi, nd)
        if not has_cond(cs, lambda t: norm(t) in ("os.name == 'nt'", "sys.platform == 'win32'"), True):
            return None
    return "dominated by os.name == 'nt' (Windows-only branch)" if u.nodes else None


def protected_by(fi, node, exc='Exception'):
    """Innermost handler of an enclosing try *body* in this function that catches ``exc``.
    Laziness: code inside a generator expression / lambda does not run where it is written.  A generator
    expression counts as running in place only when it is the direct argument of a call in the same expression
    (dict(...), list(...), ''.join(...), any(...)); otherwise the enclosing try does not protect it."""
    cur = node
    while cur is not None and cur is not fi.node:
        par = fi.mod.parents.get(cur)
        if isinstance(cur, ast.Lambda):
            return None
        if isinstance(cur, ast.GeneratorExp) and not (isinstance(par, ast.Call) and cur in par.args):
            return None
        cur = par
    for tr, part in enclosing_tries(fi.mod, node, fi.node):
        if part != 'body':
            continue
        for h in tr.handlers:
            if handler_catches(h, exc):
                return h
    return None


def handler_reraises_always(fi, handler):
    """Every path through the handler body ends in a raise (bare or not)."""
    cfg = cfg_of(fi)
    hn = cfg.handler_nodes(handler)
    if not hn:
        return False
    # normal continuation = a node outside the handler's own statements reached over non-raise edges
    inside_stmts = set(id(s) for s in ast.walk(handler) if isinstance(s, ast.stmt))
    raise_nodes = set()
    for s in ast.walk(handler):
        if isinstance(s, ast.Raise):
            raise_nodes.update(cfg.nodes_of(s))
    r = cfg.reach(hn, avoid=raise_nodes, normal_only=True)
    for n in r:
        nd = cfg.nodes[n]
        if n in hn:
            continue
        if nd.stmt is not None and id(nd.stmt) in inside_stmts:
            continue
        return False
    return True
