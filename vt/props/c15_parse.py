"""C15, rule R15.i -- what a built-in middleware decodes out of the request cannot escape as an exception.

A pass-through middleware that parses client-supplied text (a cookie, a JSON body, a typed parameter) sees whatever a client
cares to send.  If the parser raises on malformed input and nothing on the way up catches it, the middleware answers 500 for a
request the application would have answered normally (finding F15 family; the 404 / 405 of the null route included, which carries
the application's middlewares).

Decided, by following calls from every middleware function (first parameter ``next``) into the functions / methods of the analysed
tree, and into the pinned third-party sources where class dispatch leads there (a method of a library base class of a class of the
tree; receiver classes are known from ``self`` / ``cls``, ``super()``, and class-level attributes naming a class -- never from
names; plain library functions are not entered): every *parse site* that is fed request-derived data

    base64.b64decode(x) / a2b_base64 (binascii.Error),  x.decode(<strict codec>) (UnicodeDecodeError),  <m>.loads(x) (ValueError),
    int(x) / float(x) (ValueError, TypeError),  and a *configured callable* -- a callable held in a loop variable / parameter /
    attribute, not a function of the tree -- applied to such data (ValueError, TypeError)

sits, in its own function or in one of the callers on the way, inside the body of a ``try`` whose handler catches that exception
type and does not re-raise it (a handler raising another exception converts it; the new type is followed the same way).
Request-derived: the ``request`` parameter and everything computed from it (flow-insensitive: assignment, unpacking, loop targets,
stores into a container), and the parameters of callees that receive such values.

Not decided: exceptions from operations not in the table (arithmetic, attribute errors on odd objects); values.
"""
import ast

from ..core import AnalysisError, norm, short
from ..loader import ClassInfo
from ..astutil import exc_supertypes, exc_names, EXC_PARENTS
from ..cfg import enclosing_tries
from .common import walk_body, stmts_of, call_name, call_tail, raise_type, fkey

LENIENT_ERRORS = {'replace', 'ignore', 'backslashreplace', 'surrogateescape', 'xmlcharrefreplace', 'namereplace', 'surrogatepass'}
BINASCII = ('b64decode', 'urlsafe_b64decode', 'standard_b64decode', 'a2b_base64', 'b32decode', 'b16decode', 'a2b_hex', 'unhexlify')
NUMERIC = ('int', 'float', 'complex')
MAX_DEPTH = 6


def _supers(exc):
    sup = exc_supertypes(exc)
    if exc not in EXC_PARENTS and exc.rpartition('.')[2] not in EXC_PARENTS:
        sup = [exc, exc.rpartition('.')[2], 'Exception', 'BaseException']      # a class of the tree / a library: some Exception
    return set(sup)


def _catching_handler(mod, fnode, node, exc):
    """innermost handler of a try whose *body* holds ``node`` (in function ``fnode``) that catches ``exc``; lambdas / lazy
    generator expressions are not protected by the try they are written in"""
    cur = node
    while cur is not None and cur is not fnode:
        par = mod.parents.get(cur)
        if isinstance(cur, ast.Lambda):
            return None
        if isinstance(cur, ast.GeneratorExp) and not (isinstance(par, ast.Call) and cur in par.args):
            return None
        cur = par
    sup = _supers(exc)
    for tr, part in enclosing_tries(mod, node, fnode):
        if part != 'body':
            continue
        for h in tr.handlers:
            names = exc_names(h.type)
            if names is None or any(n in sup or n.rpartition('.')[2] in sup for n in names):
                return h
    return None


def _tainted_names(fnode, seeds):
    """names of ``fnode`` holding request-derived data, starting from ``seeds`` (flow-insensitive fixpoint)"""
    t = set(seeds)

    def dirty(e):
        return e is not None and any(isinstance(n, ast.Name) and n.id in t for n in ast.walk(e))

    def roots(tg):
        for n in ast.walk(tg):
            if isinstance(n, ast.Name) and isinstance(n.ctx, (ast.Store, ast.Load)):
                yield n.id
    changed = True
    while changed:
        changed = False
        before = len(t)
        for n in ast.walk(fnode):
            if isinstance(n, ast.Assign) and dirty(n.value):
                for tg in n.targets:
                    if isinstance(tg, (ast.Name, ast.Tuple, ast.List, ast.Starred)):
                        t.update(x.id for x in ast.walk(tg) if isinstance(x, ast.Name))
                    else:                               # d[k] = v / o.a = v: the container now holds it
                        r = tg
                        while isinstance(r, (ast.Attribute, ast.Subscript)):
                            r = r.value
                        if isinstance(r, ast.Name) and r.id not in ('self', 'cls'):
                            t.add(r.id)
            elif isinstance(n, (ast.AugAssign, ast.AnnAssign)) and dirty(n.value) and isinstance(n.target, ast.Name):
                t.add(n.target.id)
            elif isinstance(n, (ast.For, ast.AsyncFor, ast.comprehension)) and dirty(n.iter):
                t.update(x.id for x in ast.walk(n.target) if isinstance(x, ast.Name))
            elif isinstance(n, ast.NamedExpr) and dirty(n.value):
                t.add(n.target.id)
            elif isinstance(n, ast.withitem) and n.optional_vars is not None and dirty(n.context_expr):
                t.update(x.id for x in ast.walk(n.optional_vars) if isinstance(x, ast.Name))
        changed = len(t) != before
    return t


class _Walker(object):
    def __init__(self, repo):
        self.repo = repo
        self.memo = {}
        self.followed = set()

    # -- what a call runs ----------------------------------------------------------------------------------------------
    def callee(self, fi, recv_cls, call):
        """(FuncInfo, receiver class for it, number of leading parameters bound by the call itself) or None"""
        repo = self.repo
        f = call.func
        if isinstance(f, ast.Name):
            try:
                kind, m, obj = repo.resolve(fi.mod, f.id)
            except Exception:
                return None
            # (plain functions / constructors of a library are not entered: what they raise on bad input is the table's business;
            #  library code is entered only through class dispatch -- a base class of a class of the tree)
            if kind == 'func' and obj is not None and not obj.mod.external:
                return obj, None, 0
            if kind == 'class' and isinstance(obj, ClassInfo) and not obj.mod.external:
                init = repo.find_method(obj, '__init__')
                return (init, obj, 1) if init is not None else None
            return None
        if not isinstance(f, ast.Attribute):
            return None
        own = fi.node.args.args[0].arg if fi.cls is not None and fi.node.args.args else None
        v = f.value
        cls = None
        start_after = None
        if isinstance(v, ast.Name) and own is not None and v.id == own:
            cls = recv_cls or fi.cls
        elif isinstance(v, ast.Call) and call_name(v) == 'super' and fi.cls is not None:
            cls, start_after = recv_cls or fi.cls, fi.cls
        elif isinstance(v, ast.Attribute) and isinstance(v.value, ast.Name) and own is not None and v.value.id == own and (recv_cls or fi.cls) is not None:
            # self.<attr> naming a class at class level (``_cookie_type = JSONCookie``)
            _, val = repo.class_attr(recv_cls or fi.cls, v.attr)
            if isinstance(val, (ast.Name, ast.Attribute)):
                c = repo.resolve_class((recv_cls or fi.cls).mod, val)
                if isinstance(c, ClassInfo):
                    cls = c
        elif isinstance(v, (ast.Name, ast.Attribute)):
            try:
                c = repo.resolve_class(fi.mod, v)
            except Exception:
                c = None
            if isinstance(c, ClassInfo):
                cls = c
            elif isinstance(v, ast.Name):
                try:
                    kind, m, obj = repo.resolve(fi.mod, v.id)
                except Exception:
                    kind = None
                if kind == 'module' and m is not None:
                    try:
                        k2, m2, o2 = repo.resolve(m, f.attr)
                    except Exception:
                        k2 = None
                    if k2 == 'func' and o2 is not None and not o2.mod.external:
                        return o2, None, 0
        if not isinstance(cls, ClassInfo):
            return None
        chain = repo.mro(cls)
        if start_after is not None:
            idx = [i for i, c in enumerate(chain) if c is start_after]
            chain = chain[idx[0] + 1:] if idx else chain[1:]
        for c in chain:
            if isinstance(c, ClassInfo) and f.attr in c.methods:
                g = c.methods[f.attr]
                static = any(isinstance(d, ast.Name) and d.id == 'staticmethod' for d in g.node.decorator_list)
                return g, cls, 0 if static else 1
        return None

    # -- parse sites of one call -------------------------------------------------------------------------------------------
    def site_kinds(self, fi, call, tainted, local_callables):
        """exception types a call can raise on malformed data it is given, or []"""
        def dirty(e):
            return any(isinstance(n, ast.Name) and n.id in tainted for n in ast.walk(e))
        args = list(call.args) + [k.value for k in call.keywords]
        tail = call_tail(call)
        f = call.func
        if tail in BINASCII and any(dirty(a) for a in args):
            return ['binascii.Error']
        if tail == 'decode' and isinstance(f, ast.Attribute) and dirty(f.value):
            errs = call.args[1] if len(call.args) > 1 else ([k.value for k in call.keywords if k.arg == 'errors'] or [None])[0]
            if isinstance(errs, ast.Constant) and errs.value in LENIENT_ERRORS:
                return []
            return ['UnicodeDecodeError']
        if tail in ('loads', 'literal_eval') and any(dirty(a) for a in args):
            return ['ValueError']
        if isinstance(f, ast.Name) and f.id in NUMERIC and any(dirty(a) for a in args):
            try:
                kind = self.repo.resolve(fi.mod, f.id)[0]
            except Exception:
                kind = None
            if kind in (None, 'unknown'):      # (not re-defined in the module: the builtin)
                return ['ValueError', 'TypeError']
        if isinstance(f, ast.Name) and f.id in local_callables and any(dirty(a) for a in args):
            return ['ValueError', 'TypeError']
        return []

    # -- what escapes a function ------------------------------------------------------------------------------------------
    def escaping(self, fi, tainted_params, recv_cls, depth=0, stack=()):
        """[(exception type, text of the site, chain of functions)] raised on malformed request data and not caught in ``fi``"""
        key = (fi.key, tuple(sorted(tainted_params)), recv_cls.key if isinstance(recv_cls, ClassInfo) else None)
        if key in self.memo:
            return self.memo[key]
        if depth > MAX_DEPTH or key in stack:
            return []
        self.followed.add(fi.key)
        mod, fnode = fi.mod, fi.node
        tainted = _tainted_names(fnode, tainted_params)
        params = set(fi.params())
        first = fi.params()[0] if fi.params() else None
        # callables the function only holds: loop / unpacking targets and parameters (not ``next``, not self / cls)
        local_callables = set()
        for n in ast.walk(fnode):
            if isinstance(n, (ast.For, ast.comprehension)):
                local_callables.update(x.id for x in ast.walk(n.target) if isinstance(x, ast.Name))
        local_callables |= set(p for p in params if p not in ('self', 'cls', 'next', first if fi.cls is not None else None))
        out = []

        def leaves(node, exc, text, chain):
            """does ``exc`` raised at ``node`` leave ``fi``?  A handler that re-raises lets it through; one that raises another type
            converts it"""
            h = _catching_handler(mod, fnode, node, exc)
            if h is None:
                out.append((exc, text, chain))
                return
            for s in ast.walk(h):
                if isinstance(s, ast.Raise) and mod.enclosing_function(s) is fnode:
                    if s.exc is None or (isinstance(s.exc, ast.Name) and s.exc.id == h.name):
                        leaves(s, exc, text, chain)
                    else:
                        leaves(s, raise_type(s) or 'Exception', text + ' (re-raised as %s)' % (raise_type(s) or '?'), chain)

        for c in (n for n in ast.walk(fnode) if isinstance(n, ast.Call)):
            if mod.enclosing_function(c) is not fnode:      # (a nested def / lambda runs when it is called, not here)
                continue
            for exc in self.site_kinds(fi, c, tainted, local_callables):
                leaves(c, exc, '%s in %s' % (short(c), fi.key), (fi.key,))
            got = self.callee(fi, recv_cls, c)
            if got is None:
                continue
            g, gcls, skip = got
            if g is fi or isinstance(c.func, ast.Name) and c.func.id == 'next':
                continue
            gp = g.params()[skip:]
            tp = set()
            for i, a in enumerate(c.args):
                if isinstance(a, ast.Starred):
                    if any(isinstance(n, ast.Name) and n.id in tainted for n in ast.walk(a)):
                        tp.update(gp)
                elif i < len(gp) and any(isinstance(n, ast.Name) and n.id in tainted for n in ast.walk(a)):
                    tp.add(gp[i])
            for k in c.keywords:
                if any(isinstance(n, ast.Name) and n.id in tainted for n in ast.walk(k.value)):
                    if k.arg is None:
                        tp.update(gp)
                    elif k.arg in gp:
                        tp.add(k.arg)
            if not tp:
                continue
            for exc, text, chain in self.escaping(g, tp, gcls, depth + 1, stack + (key,)):
                leaves(c, exc, text, (fi.key,) + chain)
        # one entry per (type, site)
        seen, uniq = set(), []
        for e in out:
            if (e[0], e[1]) not in seen:
                seen.add((e[0], e[1]))
                uniq.append(e)
        self.memo[key] = uniq
        return uniq


def check_parsing_contained(rep, rule, funcs):
    repo = rep.repo
    w = _Walker(repo)
    n_sites = 0
    for fi in sorted(funcs, key=lambda f: f.key):
        if 'request' not in fi.params():
            continue
        esc = sorted(w.escaping(fi, {'request'}, fi.cls), key=lambda e: len(e[2]))     # (the shallowest site first)
        ok = not esc
        rep.check(rule, fkey(fi, 'request data is parsed safely'), ok,
                  'nothing decoded out of the request can raise past the middleware (%d function(s) followed)' % len(w.followed) if ok else
                  '%s on malformed client data is not caught anywhere on the way up (%s): a request the application would answer normally '
                  '(or with its 404 / 405) is answered 500 by the middleware' % (esc[0][0], ' <- '.join(reversed(esc[0][2])) + ': ' + esc[0][1]),
                  fi.mod, fi.node)
        n_sites += 1
    rep.extra['parse_followed'] = sorted(w.followed)
    if n_sites < 4:
        raise AnalysisError('only %d request hooks found (floor 4)' % n_sites)
