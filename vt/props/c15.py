"""C15 -- Built-in middlewares never change what the client receives.

Fact from the code (checked, not assumed): the value a middleware gets back from ``next()`` can be any
werkzeug ``BaseResponse`` -- in particular an ``HTTPException`` (404/405 from the null route), which
derives from ``BaseResponse`` *without* the ``Response`` mixins.

Decided:
  R15.a  attribute protocol: in every middleware function (first parameter ``next``) under
         clastic/middleware/, each attribute read/written/called on a value derived from ``next(...)``
         is defined by BaseResponse itself (pinned werkzeug source), or the access is guarded by
         ``hasattr`` of an attribute of the same mixin, an ``isinstance`` test against a class defining it,
         or it is a ``getattr`` with default;
  R15.b  pass-through: every ``return`` yields the ``next()`` value (or a ``next(...)`` call) -- never a new
         object; body/status mutators on that value (response/data/status/status_code stores, set_data)
         are dominated by a branch whose test reads the request (directly, through a named temporary or
         through a flag set under such tests) and whose other side reaches a return without any mutation
         (content negotiation / explicit trigger -- a validity test whose other side raises does not count);
  R15.c  handlers around ``next()`` re-raise on every path (profiler: unless raise_exc was switched off,
         default True);
  R15.d  gzip bookkeeping: where the body is replaced (``resp.response = [v]``, or ``set_data(v)`` / ``.data = v``
         whose Content-Length bookkeeping is read off the pinned BaseResponse.set_data), Content-Length is
         ``len`` of the same value and Content-Encoding 'gzip' is assigned on every path, Vary: Accept-Encoding is
         added on every path that inspects Accept-Encoding, the value is gzip_bytes(resp.data, ...), the path
         condition has the quality test of gzip, no previous encoding, not streamed and a size comparison that
         does not select the larger body.  Named temporaries, inlined predicate helpers (flag form) and
         module-level constants are looked through (diffcon.Locals, cfg flag expansion, repo.try_fold).
  R15.e  header-backed (nullable) attributes of the next() result are tested before they are dereferenced (c15_nullable);
  R15.f  an operation on the next() result that needs its body as a sequence (everything that reaches
         BaseResponse._ensure_sequence in the pinned werkzeug source: get_data, .data, add_etag, freeze ...) sits where the
         path condition, taken as a formula, entails ``not <result>.is_streamed`` (c15_paths);
  R15.g  an exception of the middleware's own (explicit raise, ``request.args[k]``-style lookups) is dominated by its
         trigger: a test on the request whose other side is a pure pass-through and under which its changes sit (c15_paths).
  R15.h  a render hook (parameter ``context``) fills only keys the endpoint left unset: each ``context[k] = v`` sits where the path
         condition, with the middleware's own switches at their constructor defaults, entails ``k not in context`` (c15_paths);
         ``context.get(k, _S) is _S`` with ``_S`` a module-level sentinel that never leaves its lookups counts as that presence test.
  R15.i  parse sites fed with request data (base64 / codec decoding, loads, int / float, configured type callables), in the hook or
         in the tree / pinned-library functions it calls (receiver classes from self / cls / super() / class attributes), are caught
         on the way up (c15_parse).
  R15.j  the bookkeeping a hook does once next() has answered (the statements after next(), ``finally`` blocks included, and the tree
         functions they call on objects of known class) cannot fail: every index operation on a sequence there is entailed in bounds by
         its path condition or absorbed by a handler (c15_total) -- an exception there replaces the application's response.
Also under R15.b: no other binding of a returned name reaches the return (the object returned *is* the next() result); no path calls
next() twice; nothing is stored into the request; the attributes / headers describing the body (type, charset, encoding, length) count
as body mutators; the trigger a modification sits under must not come out on the modifying side for a request that carries nothing
(abstract evaluation: every request lookup empty).  Under R15.c: a ``finally`` around next() is not left by return / break / continue, no
``suppress`` around next().  Under R15.d: Content-Encoding / Content-Length are written only on paths that replace the body.
Each middleware function and the gzip group run in isolation: a gap or internal error in one is reported as
ANALYSIS-ERROR without hiding the violations of the others.
Declined: losslessness of compression / equality of decoded bodies (values).
"""
import ast
import os

from ..core import AnalysisError, norm, short
from ..loader import ClassInfo
from .. import protocol, diffcon
from ..cfg import expand_conds
from .common import (cfg_of, fkey, conds, has_cond, cond_texts, stmts_of, walk_body, call_tail, call_name,
                     returns_of, handler_reraises_always, stmt_of, names_loaded, isinstance_test)

# what the client receives and how it decodes it: status, body, and the attributes describing the body
BODY_ATTRS = {'response', 'data', 'status', 'status_code',
              'charset', 'mimetype', 'mimetype_params', 'content_type', 'content_encoding', 'content_length', 'headers', 'direct_passthrough'}
BODY_CALLS = {'set_data', 'freeze', 'make_sequence', 'close'}
REQUEST_CONTAINERS = {'args', 'form', 'values', 'files', 'cookies', 'headers'}


def middleware_functions(repo):
    """[(FuncInfo)] -- every function under clastic/middleware/ whose first non-self parameter is ``next`` -- also of a class /
    function that a module of that package imports from elsewhere in the analysed tree (a middleware that moved and is imported
    back under its name is still a built-in middleware)."""
    out = []

    def take(fi):
        ps = [p for p in fi.params() if p not in ('self', 'cls')]
        if ps and ps[0] == 'next' and not any(fi is f for f in out):
            out.append(fi)
    for m in repo.all_internal_modules():
        if not m.name.startswith('clastic.middleware'):
            continue
        for fi in m.functions.values():
            take(fi)
        for name in sorted(m.imports):
            try:
                kind, om, obj = repo.resolve(m, name)
            except Exception:
                continue
            if om is None or om.external or om.name.startswith('clastic.middleware') or not repo.is_internal(om.name):
                continue
            if kind == 'func':
                take(obj)
            elif kind == 'class':
                for fi in obj.methods.values():
                    take(fi)
    return out


def next_derived(fi):
    """Local names holding the value returned by next(...): direct calls, calls that receive ``next`` as an
    argument (profiler.runcall(next)), and aliases of such names."""
    names = set()
    changed = True
    assigns = [s for s in stmts_of(fi.node) if isinstance(s, ast.Assign)]
    while changed:
        changed = False
        for s in assigns:
            v = s.value
            hit = False
            if isinstance(v, ast.Call):
                if isinstance(v.func, ast.Name) and v.func.id == 'next':
                    hit = True
                elif any(isinstance(a, ast.Name) and a.id == 'next' for a in v.args):
                    hit = True
            elif isinstance(v, ast.Name) and v.id in names:
                hit = True
            if hit:
                for t in s.targets:
                    if isinstance(t, ast.Name) and t.id not in names:
                        names.add(t.id)
                        changed = True
    return names


def is_next_call(v):
    return isinstance(v, ast.Call) and ((isinstance(v.func, ast.Name) and v.func.id == 'next') or
                                        any(isinstance(a, ast.Name) and a.id == 'next' for a in v.args))


def run(rep):
    repo = rep.repo
    rep.decide('R15.a attribute protocol on next() results; R15.b pass-through / guarded body mutation; '
               'R15.c handlers re-raise; R15.d gzip bookkeeping; R15.e nullable header attributes are tested before use; '
               'R15.f body-as-sequence operations only where not streamed is entailed; R15.g own exceptions only under the trigger; '
               'R15.h render hooks fill only unset context keys (default configuration); R15.i parsing of request data is exception-contained; '
               'R15.j bookkeeping after next() is total (sequence indices in bounds)')
    rep.decline('losslessness of gzip, equality of decoded bodies (values)')
    rep.assume('werkzeug 1.0.1 class layout as parsed from site-packages/werkzeug/wrappers')
    rep.assume('HTTPException(BaseResponse, Exception) instances flow through request middlewares (null route, raised/returned errors)')

    # ---- class facts -------------------------------------------------------
    errors = repo.mod('clastic.errors')
    httpexc = errors.cls('HTTPException')
    wz = repo.mod('werkzeug.wrappers')
    k, m, base = repo.resolve(wz, 'BaseResponse')
    k2, m2, resp = repo.resolve(wz, 'Response')
    if k != 'class' or k2 != 'class':
        raise AnalysisError('cannot resolve werkzeug BaseResponse/Response classes')
    base_attrs, unk = protocol.defined_attrs(repo, base)
    base_names = set(base_attrs) | protocol.OBJECT_ATTRS
    resp_attrs, _ = protocol.defined_attrs(repo, resp)
    # HTTPException must really be a BaseResponse without the mixins (the fact the rule rests on)
    mro_names = [c.name if isinstance(c, ClassInfo) else c for c in repo.mro(httpexc)]
    fact = 'BaseResponse' in mro_names and not any(n.endswith('Mixin') for n in mro_names)
    exc_attrs, _ = protocol.defined_attrs(repo, httpexc)
    flow_names = base_names   # what every class that can flow there defines: BaseResponse's own attributes
    rep.rule('R15.a', 'attributes used on next() results are defined by every class that can flow there, or guarded')
    rep.check('R15.a', '%s::HTTPException::bases' % 'clastic.errors', fact,
              'HTTPException is a bare BaseResponse (no Response mixins): the hasattr guards of gzip / cache recognise error objects, whose '
              'body is (re)built later by adapt(), and leave them alone' if fact else
              'HTTPException now carries werkzeug Response mixins (%s): the hasattr-based pass-through guards of the built-in middlewares no '
              'longer recognise error objects, so e.g. gzip compresses an error whose body adapt() replaces afterwards (Content-Encoding: gzip '
              'on a plain body)' % [n for n in mro_names if n.endswith('Mixin') or n == 'Response'], errors, httpexc.node)
    rep.extra['base_response_attrs'] = len(base_attrs)
    rep.extra['httpexception_mro'] = mro_names
    if not fact:
        # HTTPException gained the mixins: the flowing protocol is the intersection of both
        flow_names = base_names | (set(resp_attrs) & set(exc_attrs))

    funcs = middleware_functions(repo)
    rep.rule('R15.a', 'attributes used on next() results are defined by every class that can flow there, or guarded')
    rep.rule('R15.b', 'returns yield the next() value; body/status mutators are dominated by a test on the request')
    rep.rule('R15.c', 'exception handlers around next() re-raise')
    for fi in sorted(funcs, key=lambda f: f.key):
        _guarded(rep, _one_middleware, rep, repo, fi, flow_names, resp_attrs)
    _guarded(rep, _gzip_bookkeeping, rep, repo, base)
    rep.rule('R15.e', 'header-backed (nullable) attributes of the next() result are not dereferenced without a presence test')
    from .c15_nullable import check_nullable_derefs
    _guarded(rep, check_nullable_derefs, rep, 'R15.e')
    from . import c15_paths
    rep.rule('R15.f', "operations needing the body of the next() result as a sequence are entailed 'not streamed' by their path condition")
    rep.rule('R15.g', 'own exceptions (raise / raising lookups on request data) are dominated by the trigger of the middleware')
    rep.assume("werkzeug request containers (%s): [key] raises (BadRequest)KeyError for an absent key" % ', '.join(sorted(c15_paths.RAISING_LOOKUPS)))
    seq_attrs = _guarded(rep, c15_paths.body_sequence_attrs, repo, resp)
    if seq_attrs:
        rep.extra['body_sequence_attrs'] = sorted(seq_attrs)
    for fi in sorted(funcs, key=lambda f: f.key):
        nd = next_derived(fi)
        if seq_attrs:
            _guarded(rep, c15_paths.check_body_reads, rep, 'R15.f', fi, seq_attrs, nd)
        _guarded(rep, c15_paths.check_own_exceptions, rep, 'R15.g', fi, nd, BODY_ATTRS, BODY_CALLS)
    rep.rule('R15.i', 'what a middleware decodes out of the request cannot escape as an exception (parse sites on request data are caught on the way up)')
    from . import c15_parse
    _guarded(rep, c15_parse.check_parsing_contained, rep, 'R15.i', funcs)
    rep.rule('R15.h', 'a render hook, in the default configuration, fills only context keys the endpoint left unset and removes none')
    for fi in sorted(funcs, key=lambda f: f.key):
        _guarded(rep, c15_paths.check_render_context, rep, 'R15.h', fi)
    rep.guard(rep.floor, 'R15.h', 1)
    rep.rule('R15.j', "the middleware's own bookkeeping after next() cannot raise: index operations on sequences are entailed in bounds or absorbed")
    from . import c15_total
    _guarded(rep, c15_total.check_bookkeeping_total, rep, 'R15.j', funcs)
    rep.guard(rep.floor, 'R15.j', 1)
    for rule, n in (('R15.a', 9), ('R15.b', 9), ('R15.c', 4), ('R15.d', 9), ('R15.f', 6), ('R15.g', 6)):
        rep.guard(rep.floor, rule, n)


def _guarded(rep, group, *args):
    """Run one rule group; whatever goes wrong inside it is an analysis gap (ANALYSIS-ERROR at the end), the other groups
    still run and their violations are still reported."""
    def run_group():
        try:
            return group(*args)
        except AnalysisError:
            raise
        except Exception as e:       # a rule tripping over an unexpected shape must not take the whole check down
            raise AnalysisError('internal error %s: %s' % (type(e).__name__, e))
    run_group.__name__ = '%s%s' % (group.__name__, ''.join(' ' + a.key for a in args if hasattr(a, 'key')))
    return rep.guard(run_group)



def _one_middleware(rep, repo, fi, flow_names, resp_attrs):
    cfg = cfg_of(fi)
    mod = fi.mod
    nd = next_derived(fi)
    loc = diffcon.Locals(fi.node, cfg_of(fi), keep=nd)
    rconds = lambda n: expand_conds(loc.conds(conds(fi, n), mod))     # named temporaries in tests looked through
    # --- R15.a
    accesses = [n for n in walk_body(fi.node) if isinstance(n, ast.Attribute) and isinstance(n.value, ast.Name)
                and n.value.id in nd]
    bad = 0
    for a in accesses:
        var, attr = a.value.id, a.attr
        if attr in flow_names:
            continue
        cs = rconds(a)
        definers = resp_attrs.get(attr, [])
        guarded = False
        for t, p in cs:
            if p is not True:
                continue
            if isinstance(t, ast.Call) and call_name(t) == 'hasattr' and len(t.args) == 2 and norm(t.args[0]) == var \
                    and isinstance(t.args[1], ast.Constant):
                g = t.args[1].value
                if g == attr or any(c in resp_attrs.get(g, []) for c in definers):
                    guarded = True
            if isinstance_test(t, var):
                cname = norm(t.args[1]).rpartition('.')[2]
                if any(c.name == cname for c in definers) or cname == 'Response':
                    guarded = True
        if not guarded:
            bad += 1
            where = [c.name for c in definers] or ['no werkzeug response class']
            rep.fail('R15.a', fkey(fi, '%s.%s' % (var, attr)),
                     "attribute '%s' of the next() result is not defined by BaseResponse (defined by %s); an "
                     "HTTPException (404/405/raised error) flowing here raises AttributeError => 500; no hasattr/"
                     "isinstance guard dominates the access" % (attr, ', '.join(where)), mod, a)
    # a getattr(..., None) default must not be dereferenced (AttributeError on the very objects the default is for)
    for n in walk_body(fi.node):
        if isinstance(n, ast.Attribute) and isinstance(n.value, ast.Call) and call_name(n.value) == 'getattr' and len(n.value.args) == 3 \
                and isinstance(n.value.args[2], ast.Constant) and n.value.args[2].value is None:
            bad += 1
            rep.fail('R15.a', fkey(fi, n), "the None default of %s is dereferenced (.%s): for a response/exception without that attribute this "
                     "raises AttributeError inside the middleware and replaces the response by a 500" % (short(n.value), n.attr), mod, n)
    if not bad:
        rep.ok('R15.a', fkey(fi), '%d attribute accesses on next() results %s: all BaseResponse-defined or guarded'
               % (len(accesses), sorted(set(a.attr for a in accesses))), mod, fi.node)
    # --- R15.b returns
    cfg = cfg_of(fi)
    rets = returns_of(fi)
    badret = [r for r in rets if not (isinstance(r.value, ast.Name) and r.value.id in nd) and not is_next_call(r.value)]
    falls = cfg.exit in cfg.reach([cfg.entry], avoid=set(cfg.nodes_of_all(rets)), normal_only=True)
    rep.check('R15.b', fkey(fi, 'returns'), not badret and not falls,
              'all %d returns yield the next() value' % len(rets) if not badret and not falls else
              'returns something other than the value of next(): %s' %
              ('; '.join(short(r) for r in badret) or 'falls off the end (None)'), mod, (badret or [fi.node])[0])
    # --- R15.b the object returned is the one next() returned: no other binding of the returned name reaches the return
    binders = {}
    for s_ in stmts_of(fi.node):
        for n in diffcon._header_nodes(s_):
            if isinstance(n, ast.Name) and isinstance(n.ctx, (ast.Store, ast.Del)) and n.id in nd:
                binders.setdefault(n.id, []).append(s_)
    foreign = []
    for r in rets:
        if not (isinstance(r.value, ast.Name) and r.value.id in nd):
            continue
        name = r.value.id
        all_nodes = set(cfg.nodes_of_all(binders.get(name, [])))
        for b in binders.get(name, []):
            own = isinstance(b, ast.Assign) and (is_next_call(b.value) or (isinstance(b.value, ast.Name) and b.value.id in nd)) and \
                all(isinstance(t, ast.Name) for t in b.targets)
            if own:
                continue
            after = [m for x in cfg.nodes_of(b) for m in cfg.succ[x]]
            if set(cfg.nodes_of(r)) & cfg.reach(after, avoid=all_nodes - set(cfg.nodes_of(r))):
                foreign.append((b, r))
    rep.check('R15.b', fkey(fi, 'returned object'), not foreign,
              'whatever is returned under a name is the object next() returned (no other binding of the name reaches a return)' if not foreign else
              '%s re-binds the name holding the next() result and that value reaches %s: what is returned is not the object next() returned'
              % (short(foreign[0][0]), short(foreign[0][1])), mod, foreign[0][0] if foreign else fi.node)
    # --- R15.b the rest of the chain runs once: no path runs next() a second time
    next_sts = []
    for n in walk_body(fi.node):
        if isinstance(n, ast.Call) and is_next_call(n):
            s_ = stmt_of(mod, n)
            if s_ is not None:
                next_sts.append(s_)
    twice = [s_ for s_ in next_sts if next_sts.count(s_) > 1]
    for s_ in next_sts:
        after = [m for x in cfg.nodes_of(s_) for m in cfg.succ[x]]
        if set(cfg.nodes_of_all(next_sts)) & cfg.reach(after):
            twice.append(s_)
    if next_sts:
        rep.check('R15.b', fkey(fi, 'next() once'), not twice,
                  'no path calls next() a second time (%d call site(s))' % len(set(id(x) for x in next_sts)) if not twice else
                  'next() can run more than once for one request (%s can be followed by another next() call): the endpoint and the inner '
                  'middlewares run twice, the client gets the second answer' % short(twice[0]), mod, twice[0] if twice else fi.node)
    # --- R15.b what the hook itself was given (request, context ..) is not replaced for the rest of the chain: next() gets no keyword
    #     naming one of the hook's own parameters
    own_params = set(fi.params()) - {'self', 'cls', 'next'}
    swapped = [k for n in walk_body(fi.node) if isinstance(n, ast.Call) and isinstance(n.func, ast.Name) and n.func.id == 'next'
               for k in n.keywords if k.arg in own_params and norm(k.value) != k.arg]
    if next_sts:
        rep.check('R15.b', fkey(fi, 'next() arguments'), not swapped,
                  'next() is not given a replacement for anything the hook itself received' if not swapped else
                  'next(%s=%s) replaces the %s the framework supplied for the rest of the chain: the endpoint / renderer works on something else '
                  'than the application produced' % (swapped[0].arg, short(swapped[0].value), swapped[0].arg), mod, swapped[0].value if swapped else fi.node)
    # --- R15.b the request is handed on as it came: nothing is stored into it
    from .. import effects
    req_writes = []
    for e in effects.effects_in(fi.node):
        tgt = e.target
        st_ = stmt_of(mod, e.node)
        r_ = loc.resolve(tgt, st_) if st_ is not None and cfg.nodes_of(st_) else tgt
        ch = effects.chain_of(r_)
        if ch and ch[0] == 'request' and 'request' in fi.params():
            req_writes.append(e)
    if 'request' in fi.params():
        rep.check('R15.b', fkey(fi, 'request untouched'), not req_writes,
                  'nothing is stored into the request object' if not req_writes else
                  'the request is modified before / while the rest of the chain runs (%s): the application answers a request the client did not send'
                  % short(req_writes[0].node), mod, req_writes[0].node if req_writes else fi.node)
    # --- R15.b body / status mutators
    from . import c15_paths
    muts = c15_paths.body_mutators(fi, nd, BODY_ATTRS, BODY_CALLS, loc, repo)
    mut_stmts = [stmt_of(mod, mu) for mu in muts]
    mut_nodes = set(cfg.nodes_of_all(mut_stmts))
    for mu, mst in zip(muts, mut_stmts):
        # a dominating branch whose test reads the request (directly, through a named temporary or through a flag
        # set under such tests) and whose *other* side lets the next() value through to a return untouched
        req_tests = []
        at = [n for n in cfg.nodes_of(mst) if cfg.reachable(n)]
        for t, p in cfg.conds_at_stmt(mst, expand=False):
            der = loc.conds(cfg._expand_named(expand_conds([(t, p)]), at[0]) if at else [(t, p)], mod)
            if not any('request' in names_loaded(x) for x, _ in der):
                continue
            other = cfg.branch_nodes(t, not p)
            if cfg.exit in cfg.reach(other, avoid=mut_nodes, normal_only=True):
                req_tests.append((t, p))
        ok = bool(req_tests)
        # ... and a request that carries nothing (no parameter, no header) is on the pass-through side of it: evaluated over
        # "every lookup on the request comes back empty", a trigger must not come out on the modifying side
        inverted = []
        for t, p in req_tests:
            ts = stmt_of(mod, t)
            rt = loc.resolve(t, ts) if ts is not None and cfg.nodes_of(ts) else t
            if _absent_truth(repo, mod, rt) is p:
                inverted.append((t, p))
        if ok and len(inverted) == len(req_tests):
            rep.check('R15.b', fkey(fi, 'mutates ' + c15_paths.mutator_text(mu)), False,
                      'the test the modification sits under (%s) comes out on the modifying side for a request that carries nothing (absent parameter / header): '
                      'the trigger is inverted -- requests that did not ask for this middleware get a modified response, those that did pass through'
                      % '; '.join(cond_texts(inverted)), mod, mu)
            continue
        rep.check('R15.b', fkey(fi, 'mutates ' + c15_paths.mutator_text(mu)), ok,
                  'body/status mutation happens only under a test on the request: %s' % '; '.join(cond_texts(req_tests)) if ok else
                  'status, body or the description of the body (type / encoding / length) of the next() result is modified without any dominating '
                  'test on the request that lets other requests pass through untouched (every response would change)', mod, mu)
    # --- R15.b request body untouched: parsing the form consumes wsgi.input, so the endpoint would no longer
    #     see the raw body (table entry: PostDataMiddleware exists to read the form)
    BODY_READERS = {'form', 'values', 'files', 'stream', 'data', 'json', 'get_data', 'get_json', 'input_stream'}
    BODY_TABLE = {'clastic.middleware.form::PostDataMiddleware.request': 'extracts POST form fields by design'}
    reads = [n for n in walk_body(fi.node) if isinstance(n, ast.Attribute) and n.attr in BODY_READERS and norm(n.value) == 'request']
    if fi.key in BODY_TABLE:
        rep.ok('R15.b', fkey(fi, 'request body'), 'table entry: ' + BODY_TABLE[fi.key], mod, fi.node)
    else:
        rep.check('R15.b', fkey(fi, 'request body'), not reads, 'does not read / parse the request body' if not reads else
                  'reads %s: the request body is parsed (and wsgi.input consumed) by a middleware that should be a pass-through, so '
                  'an endpoint reading the raw body gets nothing' % sorted(set('request.' + n.attr for n in reads)), mod,
                  reads[0] if reads else fi.node)
    # --- R15.c
    for st in stmts_of(fi.node):
        if isinstance(st, (ast.With, ast.AsyncWith)) and any(isinstance(c, ast.Call) and is_next_call(c) for b in st.body for c in ast.walk(b)):
            # a context manager around next() may swallow what next() raises (its __exit__ returning true)
            for it in st.items:
                ce = loc.resolve(it.context_expr, st) if cfg.nodes_of(st) else it.context_expr
                if isinstance(ce, ast.Call) and call_tail(ce) == 'suppress':
                    rep.check('R15.c', fkey(fi, 'with ' + short(it.context_expr)), False,
                              'next() runs inside %s: the exception is swallowed and the middleware goes on without a response' % short(ce), mod, st)
                else:
                    raise AnalysisError('%s: next() runs inside ``with %s``; cannot tell whether that context manager passes exceptions on'
                                        % (fi.key, short(it.context_expr)))
        if not isinstance(st, ast.Try):
            continue
        body_calls = [c for b in st.body + st.orelse for c in ast.walk(b) if isinstance(c, ast.Call) and is_next_call(c)]
        if not body_calls:
            continue
        if st.finalbody:
            # leaving a ``finally`` block by return / break / continue discards the exception in flight
            esc = _escapes(st.finalbody)
            rep.check('R15.c', fkey(fi, 'finally'), not esc,
                      'the finally block around next() ends by falling through (the exception in flight goes on)' if not esc else
                      'the finally block around next() is left by ``%s``: an exception raised by next() is discarded there and the middleware '
                      'answers as if nothing had happened' % short(esc[0]), mod, esc[0] if esc else st)
        for h in st.handlers:
            ok = handler_reraises_always(fi, h)
            how = 're-raises on every path'
            if not ok:
                # documented opt-out: "if self.<flag>: raise" with the flag defaulting to True
                flags = [s for s in h.body if isinstance(s, ast.If) and norm(s.test).startswith('self.')
                         and any(isinstance(x, ast.Raise) and x.exc is None for x in s.body)]
                if flags:
                    flag = norm(flags[0].test)[5:]
                    ci = fi.cls
                    init = repo.find_method(ci, '__init__') if ci else None
                    dflt = None
                    if init is not None:
                        a = init.node.args
                        names = [x.arg for x in a.args]
                        if flag in names:
                            i = names.index(flag) - (len(names) - len(a.defaults))
                            if i >= 0 and isinstance(a.defaults[i], ast.Constant):
                                dflt = a.defaults[i].value
                    ok = dflt is True
                    how = 're-raises unless self.%s was switched off (default True)' % flag
            rep.check('R15.c', fkey(fi, 'except ' + norm(h.type)), ok,
                      'handler around next() ' + how if ok else
                      'handler around next() can swallow the exception (does not re-raise on every path)', mod, h)


def _escapes(stmts, in_loop=False):
    """return / break / continue statements that leave this statement list (break / continue of loops inside it stay inside)"""
    out = []
    for s_ in stmts:
        if isinstance(s_, ast.Return) or (isinstance(s_, (ast.Break, ast.Continue)) and not in_loop):
            out.append(s_)
        elif isinstance(s_, (ast.FunctionDef, ast.AsyncFunctionDef, ast.ClassDef)):
            continue
        elif isinstance(s_, (ast.For, ast.AsyncFor, ast.While)):
            out.extend(_escapes(s_.body, True))
            out.extend(_escapes(s_.orelse, in_loop))
        else:
            for fld in ('body', 'orelse', 'finalbody'):
                out.extend(_escapes(getattr(s_, fld, None) or [], in_loop))
            for h in getattr(s_, 'handlers', None) or []:
                out.extend(_escapes(h.body, in_loop))
    return out


def _absent_value(repo, mod, e):
    """('v', value) of ``e`` for a request that carries nothing -- every lookup in request.args / form / cookies / headers .. finds
    nothing, every Accept-* quality is 0 -- or None when that is not known.  Constants fold; nothing else is evaluated."""
    if isinstance(e, ast.Call) and isinstance(e.func, ast.Attribute) and _request_container(e.func.value):
        if e.func.attr == 'get' and e.args and not any(isinstance(a, ast.Starred) for a in e.args):
            if len(e.args) == 1 and not e.keywords:
                return ('v', None)
            d = e.args[1] if len(e.args) > 1 else [k.value for k in e.keywords if k.arg == 'default'][0] if any(k.arg == 'default' for k in e.keywords) else None
            if d is None:
                return ('v', None)
            return _absent_value(repo, mod, d)
        if e.func.attr == 'getlist':
            return ('v', [])
        if e.func.attr in ('quality', 'find', 'best_match') and 'accept' in norm(e.func.value):
            return ('v', 0)
        return None
    if isinstance(e, ast.Subscript) and isinstance(e.value, ast.Attribute) and isinstance(e.value.value, ast.Name) and e.value.value.id == 'request' \
            and e.value.attr.startswith('accept_'):
        return ('v', 0)
    if _request_container(e):
        return ('v', {})
    if isinstance(e, ast.BoolOp):
        last = None
        for v in e.values:
            last = _absent_value(repo, mod, v)
            if last is None:
                return None
            if bool(last[1]) is isinstance(e.op, ast.Or):
                return last
        return last
    try:
        v = repo.fold(e, mod)
    except Exception:
        return None
    return ('v', v) if isinstance(v, (str, bytes, int, float, bool, tuple, type(None))) else None


def _request_container(e):
    return isinstance(e, ast.Attribute) and isinstance(e.value, ast.Name) and e.value.id == 'request' and e.attr in REQUEST_CONTAINERS


def _absent_truth(repo, mod, t):
    """truth value of test ``t`` for a request that carries nothing (see _absent_value): True / False / None (not known)"""
    if isinstance(t, ast.UnaryOp) and isinstance(t.op, ast.Not):
        v = _absent_truth(repo, mod, t.operand)
        return None if v is None else not v
    if isinstance(t, ast.BoolOp):
        vs = [_absent_truth(repo, mod, v) for v in t.values]
        if isinstance(t.op, ast.And):
            return False if any(v is False for v in vs) else (None if any(v is None for v in vs) else True)
        return True if any(v is True for v in vs) else (None if any(v is None for v in vs) else False)
    if isinstance(t, ast.Compare) and len(t.ops) == 1:
        op, a, b = t.ops[0], t.left, t.comparators[0]
        if isinstance(op, (ast.In, ast.NotIn)):
            if _request_container(b) or (isinstance(b, ast.Attribute) and isinstance(b.value, ast.Name) and b.value.id == 'request' and b.attr.startswith('accept_')):
                return isinstance(op, ast.NotIn)
            return None
        va, vb = _absent_value(repo, mod, a), _absent_value(repo, mod, b)
        if va is None or vb is None:
            return None
        if isinstance(op, (ast.Eq, ast.NotEq)):
            return (va[1] == vb[1]) is isinstance(op, ast.Eq)
        if isinstance(op, (ast.Is, ast.IsNot)) and (va[1] is None or vb[1] is None):
            return (va[1] is vb[1]) is isinstance(op, ast.Is)
        return None
    v = _absent_value(repo, mod, t)
    return None if v is None else bool(v[1])


def _gzip_bookkeeping(rep, repo, base):
    rep.rule('R15.d', 'gzip replaces body, Content-Length and Content-Encoding together; Vary before the Accept-Encoding test')
    gz = repo.mod('clastic.middleware.compress').func('GzipMiddleware.request')
    cfg = cfg_of(gz)
    nd = next_derived(gz)
    L = diffcon.Locals(gz.node, cfg, keep=nd)
    stores = {}
    for s in stmts_of(gz.node):
        if isinstance(s, ast.Assign) and len(s.targets) == 1 and isinstance(s.targets[0], ast.Attribute) \
                and isinstance(s.targets[0].value, ast.Name) and s.targets[0].value.id in nd:
            stores.setdefault(s.targets[0].attr, []).append(s)
    # (the header spelling of the two descriptors: ``resp.headers['Content-Encoding'] = v`` is what ``resp.content_encoding = v`` does)
    from . import c15_paths as _paths
    for s in stmts_of(gz.node):
        if isinstance(s, ast.Assign) and len(s.targets) == 1 and isinstance(s.targets[0], ast.Subscript) and _paths._headers_of(s.targets[0].value, nd, L, s):
            k = repo.try_fold(s.targets[0].slice, gz.mod)
            if isinstance(k, str) and k.lower() in ('content-encoding', 'content-length'):
                stores.setdefault(k.lower().replace('-', '_'), []).append(s)
    # where the body is replaced: ``resp.response = [value]``, or through the public API ``resp.set_data(value)`` /
    # ``resp.data = value`` (BaseResponse.set_data stores [value] and -- checked below in the pinned source -- the
    # Content-Length of it)
    setters = [s for s in stmts_of(gz.node) if isinstance(s, ast.Expr) and isinstance(s.value, ast.Call) and isinstance(s.value.func, ast.Attribute)
               and s.value.func.attr == 'set_data' and isinstance(s.value.func.value, ast.Name) and s.value.func.value.id in nd
               and len(s.value.args) == 1 and not s.value.keywords]
    via_api = False
    if 'response' in stores:
        body_st = stores['response'][0]
        bv = body_st.value
        comp_e = bv.elts[0] if isinstance(bv, (ast.List, ast.Tuple)) and len(bv.elts) == 1 and not isinstance(bv.elts[0], ast.Starred) else None
    elif 'data' in stores or setters:
        body_st = (stores.get('data') or setters)[0]
        comp_e = body_st.value if isinstance(body_st, ast.Assign) else body_st.value.args[0]
        sd = repo.find_method(base, 'set_data')
        via_api = sd is not None and any(
            isinstance(x, ast.Assign) and any(isinstance(t, ast.Subscript) and isinstance(t.slice, ast.Constant) and t.slice.value == 'Content-Length'
                                              for t in x.targets) and 'len(' in norm(x.value) for x in ast.walk(sd.node))
    else:
        raise AnalysisError('GzipMiddleware.request no longer replaces resp.response')
    comp_r = L.resolve(comp_e, body_st) if comp_e is not None else None
    comp = norm(comp_r) if comp_r is not None else None
    for attr, want in (('content_length', None), ('content_encoding', 'gzip')):
        sts = stores.get(attr, [])
        nodes = cfg.nodes_of_all(sts)
        ok = bool(sts) and (cfg.must_pass(nodes, cfg.nodes_of(body_st), [cfg.exit]) or
                            cfg.must_pass(nodes, cfg.entry, cfg.nodes_of(body_st)))
        if attr == 'content_length' and not sts and via_api:
            ok, detail = True, 'Content-Length is set by BaseResponse.set_data to the length of the value stored as body'
        elif ok and attr == 'content_length':
            for st_ in sts:
                # follow the named temporaries of the stored value to the ``len(X)`` that computes it; X must denote the value stored as body
                cur_e, cur_s = st_.value, st_
                for _ in range(6):
                    if isinstance(cur_e, ast.Call) and call_name(cur_e) == 'str' and len(cur_e.args) == 1 and not cur_e.keywords:
                        cur_e = cur_e.args[0]       # (a header value is the text of the number)
                    if not isinstance(cur_e, ast.Name):
                        break
                    b = L.binding(cur_e.id, cur_s)
                    if b is None:
                        break
                    cur_e, cur_s = b
                ok = ok and isinstance(cur_e, ast.Call) and call_name(cur_e) == 'len' and len(cur_e.args) == 1 and not cur_e.keywords \
                    and comp_e is not None and L.same(cur_e.args[0], cur_s, comp_e, body_st)
            detail = 'Content-Length is len(%s), the value stored as body' % short(comp_e)
        elif ok:
            for st_ in sts:
                ok = ok and repo.try_fold(L.resolve(st_.value, st_), gz.mod) == want
            detail = "Content-Encoding is set to 'gzip' wherever the body is replaced"
        rep.check('R15.d', fkey(gz, 'resp.%s' % attr), ok, detail if ok else
                  'replacing the body is not always accompanied by a matching %s assignment' % attr, gz.mod,
                  sts[0] if sts else body_st)
    # ... and the other way round: Content-Encoding / Content-Length are (re)written only on paths that do replace the body -- a
    # header announcing gzip (or the compressed length) in front of the original body makes the client decode garbage / truncate
    from . import c15_paths
    describers = list(stores.get('content_length', [])) + list(stores.get('content_encoding', []))
    for s in stmts_of(gz.node):
        tg = s.targets if isinstance(s, (ast.Assign, ast.Delete)) else [s.target] if isinstance(s, (ast.AugAssign, ast.AnnAssign)) else []
        for t in tg:
            if isinstance(t, ast.Subscript) and c15_paths._headers_of(t.value, nd, L, s) and not any(s is d for d in describers):
                k = repo.try_fold(t.slice, gz.mod)
                if isinstance(k, str) and k.lower() in ('content-encoding', 'content-length'):
                    describers.append(s)
        if isinstance(s, ast.Expr) and isinstance(s.value, ast.Call) and isinstance(s.value.func, ast.Attribute) and s.value.args and \
                s.value.func.attr in c15_paths.HEADER_KEY_WRITERS and c15_paths._headers_of(s.value.func.value, nd, L, s):
            k = repo.try_fold(s.value.args[0], gz.mod)
            if isinstance(k, str) and k.lower() in ('content-encoding', 'content-length'):
                describers.append(s)
    body_nodes = cfg.nodes_of(body_st)
    loose = [s for s in describers if not (cfg.must_pass(body_nodes, cfg.nodes_of(s), [cfg.exit], normal_only=True) or
                                           cfg.must_pass(body_nodes, cfg.entry, cfg.nodes_of(s)))]
    rep.check('R15.d', fkey(gz, 'headers describe a replaced body only'), bool(describers) and not loose,
              'Content-Encoding / Content-Length are written only on paths that replace the body (%d stores)' % len(describers) if describers and not loose else
              '%s runs on a path that leaves the body as it was: the response announces an encoding / length that is not the one of the bytes sent'
              % short((loose or [body_st])[0]), gz.mod, (loose or [body_st])[0])
    # compressed value provenance
    data_of = lambda e: (isinstance(e, ast.Attribute) and e.attr == 'data' and isinstance(e.value, ast.Name) and e.value.id in nd) or \
        (isinstance(e, ast.Call) and isinstance(e.func, ast.Attribute) and e.func.attr == 'get_data' and not e.args and not e.keywords
         and isinstance(e.func.value, ast.Name) and e.func.value.id in nd)
    ok = isinstance(comp_r, ast.Call) and call_tail(comp_r) == 'gzip_bytes' and bool(comp_r.args) and data_of(comp_r.args[0])
    rep.check('R15.d', fkey(gz, 'compressed value'), ok, 'body is gzip_bytes(<next() result>.data, ...)' if ok else
              'the replacement body is not gzip_bytes of the original data', gz.mod, body_st)
    # the body is replaced only if the client accepts gzip and no encoding is present yet
    cs = expand_conds(L.conds(conds(gz, body_st), gz.mod))

    def acc(t):
        """a *quality* test of gzip in Accept-Encoding: accept_encodings['gzip'] / .quality('gzip') (q=0 means refused);
        plain membership ('gzip' in accept_encodings) is true for 'gzip;q=0' and is not accepted here"""
        for n in ast.walk(t):
            if isinstance(n, ast.Subscript) and 'accept_encodings' in norm(n.value) and repo.try_fold(n.slice, gz.mod) == 'gzip':
                return True
            if isinstance(n, ast.Call) and isinstance(n.func, ast.Attribute) and n.func.attr in ('quality', 'best_match', 'find') and \
                    'accept_encodings' in norm(n.func.value) and "'gzip'" in norm(n):
                return True
        return False
    ok = any(acc(t) for t, p in cs)
    neg_ok = False
    for t, p in cs:
        if acc(t):
            # either  (accept True)  or  (not accept ... ) False in an or-chain
            if isinstance(t, ast.Subscript) or isinstance(t, ast.Call):
                neg_ok = neg_ok or p is True
            elif isinstance(t, ast.BoolOp) and isinstance(t.op, ast.Or) and p is False:
                neg_ok = neg_ok or any(isinstance(v, ast.UnaryOp) and isinstance(v.op, ast.Not) and acc(v.operand) for v in t.values)
    neg_ok = neg_ok or any(acc(t) and p is True and not isinstance(t, ast.BoolOp) for t, p in cs)
    rep.check('R15.d', fkey(gz, 'accept-encoding guard'), ok and neg_ok,
              'body replaced only when request.accept_encodings[\'gzip\'] is truthy' if ok and neg_ok else
              'body replacement is not conditioned on the client accepting gzip', gz.mod, body_st)
    ce = lambda t: isinstance(t, ast.Attribute) and t.attr == 'content_encoding' and isinstance(t.value, ast.Name) and t.value.id in nd
    ok = any(ce(t) and p is False for t, p in cs)
    rep.check('R15.d', fkey(gz, 'no double encoding'), ok, 'already-encoded responses are left alone' if ok else
              'responses that already carry a Content-Encoding can be compressed again', gz.mod, body_st)
    # never grow the body: the path condition entails len(<compressed>) <= len(<original data>); a size comparison
    # over other operands is accepted as long as the facts do not say the opposite
    facts = diffcon.facts_from_conds(cs)
    size_cmp = [t for t, p in cs if isinstance(t, ast.Compare) and isinstance(t.ops[0], (ast.GtE, ast.Gt, ast.Lt, ast.LtE)) and 'len(' in norm(t)]
    ok = bool(size_cmp)
    if ok and comp is not None and isinstance(comp_r, ast.Call) and comp_r.args:
        small, big = 'len(%s)' % comp, 'len(%s)' % norm(comp_r.args[0])
        if not diffcon.entails(facts, (small, big, False)) and diffcon.entails(facts, (big, small, False)):
            ok = False       # the comparison is over these two sizes and selects the body that is not smaller
    rep.check('R15.d', fkey(gz, 'size guard'), ok, 'compressed body is used only if it is smaller' if ok else
              'no size comparison guards the replacement (or it selects the larger body)', gz.mod, body_st)
    # streamed responses untouched
    ok = any(isinstance(t, ast.Attribute) and t.attr == 'is_streamed' and p is False for t, p in cs)
    rep.check('R15.d', fkey(gz, 'streamed'), ok, 'streamed responses are not buffered/compressed' if ok else
              'streamed responses are no longer exempt', gz.mod, body_st)
    # Vary: on every path on which Accept-Encoding is inspected, Vary: Accept-Encoding has been added before, or is added afterwards
    def is_vary(s):
        if not (isinstance(s, ast.Expr) and isinstance(s.value, ast.Call) and isinstance(s.value.func, ast.Attribute)
                and s.value.func.attr == 'add' and len(s.value.args) == 1):
            return False
        recv = L.resolve(s.value.func.value, s)
        v = repo.try_fold(L.resolve(s.value.args[0], s), gz.mod)
        return isinstance(recv, ast.Attribute) and recv.attr == 'vary' and isinstance(recv.value, ast.Name) and recv.value.id in nd \
            and isinstance(v, str) and v.lower() == 'accept-encoding'
    vary = [s for s in stmts_of(gz.node) if is_vary(s)]
    vary_nodes = cfg.nodes_of_all(vary)
    def _evaluated(s):
        """expressions the statement itself evaluates, named temporaries looked through"""
        es = []
        if isinstance(s, (ast.If, ast.While)):
            es = [s.test]
        elif isinstance(s, (ast.Assign, ast.AugAssign, ast.AnnAssign, ast.Return, ast.Expr)) and s.value is not None:
            es = [s.value]
        return [L.resolve(e, s) for e in es]
    acc_sts = [s for s in stmts_of(gz.node) if any(acc(e) for e in _evaluated(s))]
    ok = bool(vary) and bool(acc_sts) and all(cfg.must_pass(vary_nodes, cfg.entry, cfg.nodes_of(i)) or
                                               cfg.must_pass(vary_nodes, cfg.nodes_of(i), [cfg.exit]) for i in acc_sts)
    rep.check('R15.d', fkey(gz, 'Vary'), ok, "Vary: Accept-Encoding is added before the response is made to depend on the header" if ok else
              'Vary: Accept-Encoding is not added on every path that inspects Accept-Encoding', gz.mod,
              vary[0] if vary else gz.node)
