"""C13, rule R13.e -- the WSGI entry point only ever grows by wrapping.

The statement of C13: "WSGI wrappers contributed by application-level middlewares wrap the application in list order
(... a unique middleware type applied once)".  ``Application.__call__`` delegates to an instance attribute (the *entry
slot*, ``self._dispatch_wsgi``); the constructor leaves the stack of wrappers in it.  That stack has to survive whatever
is done to the application afterwards (``set_error_handler`` is documented as callable at any time, ``add`` too): if
the slot is deleted, the attribute falls back to the bare method of the class and every wrapper the middlewares
contributed is gone; if it is assigned anything that was not built around its current value, likewise.  Decided:

  * who may write: only methods of the application class (or its subclasses), through ``self``;
  * what may be written: only ``<wrapping of the current value of the slot>`` -- ``_safe_wrap_wsgi(.., .., current)``,
    a ``functools.reduce`` of such a step starting from the current value, or a local that accumulates such wrappings
    starting from the current value (the shapes R13.b judges);
  * the slot is never removed or replaced through any other spelling, anywhere in the analysed tree: ``del x.<slot>``,
    ``delattr`` / ``setattr`` / ``__delattr__`` / ``__setattr__`` with the slot's name, an item store / ``del`` /
    ``pop`` / ``setdefault`` / ``update`` / ``__setitem__`` / ``__delitem__`` with the slot's name on ``x.__dict__`` /
    ``vars(x)`` (also through a local naming that mapping), ``clear()`` / ``popitem()`` / re-binding of the whole
    namespace of something that may be an application.

A write to the namespace of something that may be an application under a name that is not a constant (``setattr(self,
name, v)``, ``self.__dict__.update(other)``, the namespace mapping handed to a function) cannot be judged from the
text: ANALYSIS-ERROR, not a verdict.
"""
import ast

from ..core import AnalysisError, norm, short
from ..astutil import assigned_value
from ..callgraph import ROLE_TABLE
from .common import fkey, walk_body, returns_of

APP = 'clastic.application'
NS_DROP = ('pop', '__delitem__')
NS_PUT = ('__setitem__', 'setdefault')
NS_ALL = ('clear', 'popitem')
NS_READ = ('get', 'items', 'keys', 'values', 'copy', '__contains__', '__getitem__', '__iter__', '__len__')


class Touch(object):
    """One construct that writes / removes the entry slot (kind 'store' | 'delete' | 'wholesale'), or that may do so
    under a name the text does not fix (kind 'dynamic')."""
    __slots__ = ('kind', 'node', 'how', 'fi', 'mod')

    def __init__(self, kind, node, how, fi=None, mod=None):
        self.kind, self.node, self.how, self.fi, self.mod = kind, node, how, fi, mod

    def __repr__(self):
        return '<Touch %s %s>' % (self.kind, self.how)


def entry_slot(app):
    """Name of the attribute ``Application.__call__`` delegates to (the rest of C13 anchors on ``_dispatch_wsgi``)."""
    try:
        from .c13 import deref
        call = app.func('Application.__call__')
        rs = returns_of(call)
        if len(rs) == 1 and isinstance(rs[0].value, ast.Call):
            f = deref(call, rs[0].value.func)
            if isinstance(f, ast.Attribute) and isinstance(f.value, ast.Name) and f.value.id == 'self':
                return f.attr
    except AnalysisError:
        pass
    return '_dispatch_wsgi'


class EntryView(object):
    """Finds every spelling that touches attribute ``slot`` of an object."""

    def __init__(self, repo, slot):
        self.repo, self.slot = repo, slot
        app = repo.mod(APP)
        base = app.cls('Application')
        self.family = [base]
        for m in repo.all_internal_modules():
            for c in m.classes.values():
                try:
                    if c is not base and base in repo.mro(c):
                        self.family.append(c)
                except Exception:
                    continue
        from .noninterf import role_classes
        self.roles = set(k for k in ROLE_TABLE if base in role_classes(repo, k))       # (the class by definition, wherever it lives)

    # -- what may be an application ------------------------------------------------------------------------------------
    def _enclosing_class(self, fi):
        if fi is None:
            return None
        if fi.cls is not None:
            return fi.cls
        parts = fi.qualname.split('.')
        for i in range(len(parts) - 1, 0, -1):
            q = '.'.join(parts[:i])
            if q in fi.mod.classes:
                return fi.mod.classes[q]
        return None

    def may_be_app(self, fi, x, depth=0):
        if isinstance(x, ast.Name):
            if x.id in ('self', 'cls'):
                ci = self._enclosing_class(fi)
                if ci is None:
                    return False
                if ci in self.family:
                    return True
                # a mixin / base the application class derives from: its ``self`` is an application, too
                return any(ci in self.repo.mro(c) for c in self.family)
            if x.id in self.roles:
                return True
            if fi is not None and depth < 2 and x.id not in fi.params():
                vals = assigned_value(fi.node, x.id)
                for st, v, idx in vals:
                    if idx is None and isinstance(v, ast.Call) and isinstance(v.func, ast.Name):
                        kind, m_, obj = self.repo.resolve(fi.mod, v.func.id)
                        if kind == 'class' and obj in self.family:
                            return True
                    if idx is None and isinstance(v, (ast.Name, ast.Attribute)) and not isinstance(v, ast.AugAssign) and self.may_be_app(fi, v, depth + 1):
                        return True
            return False
        if isinstance(x, ast.Attribute):
            return x.attr in self.roles
        return False

    # -- namespace views -----------------------------------------------------------------------------------------------
    def ns_owner(self, fi, e, depth=0):
        """X when ``e`` denotes the attribute namespace of X: ``X.__dict__``, ``vars(X)``, or a local every assignment of
        which is such a view of one X."""
        if isinstance(e, ast.Attribute) and e.attr == '__dict__':
            return e.value
        if isinstance(e, ast.Call) and isinstance(e.func, ast.Name) and e.func.id == 'vars' and len(e.args) == 1 and not e.keywords and \
                not isinstance(e.args[0], ast.Starred):
            return e.args[0]
        if isinstance(e, ast.Name) and fi is not None and depth < 3 and e.id not in fi.params():
            owners = []
            for st, v, idx in assigned_value(fi.node, e.id):
                if idx is not None or isinstance(v, ast.AugAssign):
                    return None
                o = self.ns_owner(fi, v, depth + 1)
                if o is None:
                    return None
                owners.append(o)
            if owners and len(set(norm(o) for o in owners)) == 1:
                return owners[0]
        return None

    # -- one node ------------------------------------------------------------------------------------------------------
    def _key(self, fi, k, owner, put, what):
        """Touch for an access to a namespace mapping / a (set|del)attr under key expression ``k``."""
        if isinstance(k, ast.Constant):
            if k.value == self.slot:
                return [('store' if put else 'delete', what)]
            return []
        if owner is not None and self.may_be_app(fi, owner):
            return [('dynamic', what)]
        return []

    def touches_of(self, fi, n):
        """[(kind, how)] for the single AST node ``n`` (not its children)."""
        slot = self.slot
        out = []
        if isinstance(n, ast.Attribute) and isinstance(n.ctx, (ast.Store, ast.Del)):
            if n.attr == slot:
                out.append(('store' if isinstance(n.ctx, ast.Store) else 'delete', short(n)))
            elif n.attr == '__dict__' and self.may_be_app(fi, n.value):
                out.append(('wholesale', 're-binds / deletes %s' % short(n)))
        elif isinstance(n, ast.Subscript) and isinstance(n.ctx, (ast.Store, ast.Del)):
            owner = self.ns_owner(fi, n.value)
            if owner is not None:
                k = n.slice
                if isinstance(k, ast.Slice):
                    k = ast.Name(id='<slice>', ctx=ast.Load())
                out.extend(self._key(fi, k, owner, isinstance(n.ctx, ast.Store), short(n)))
        elif isinstance(n, ast.Call):
            f = n.func
            args = list(n.args)
            starred = any(isinstance(a, ast.Starred) for a in args) or any(k.arg is None for k in n.keywords)
            handled_receiver = None
            if isinstance(f, ast.Name) and f.id in ('setattr', 'delattr'):
                if len(args) >= 2 and not starred:
                    out.extend(self._key(fi, args[1], args[0], f.id == 'setattr', short(n)))
                elif args and not isinstance(args[0], ast.Starred) and self.may_be_app(fi, args[0]):
                    out.append(('dynamic', short(n)))
            elif isinstance(f, ast.Attribute) and f.attr in ('__setattr__', '__delattr__'):
                put = f.attr == '__setattr__'
                consts = [a for a in args[:2] if isinstance(a, ast.Constant) and isinstance(a.value, str)]
                if any(c.value == slot for c in consts):
                    out.append(('store' if put else 'delete', short(n)))
                elif not consts:
                    recv = [f.value] + [a for a in args[:1] if not isinstance(a, ast.Starred)]
                    if any(self.may_be_app(fi, r) for r in recv):
                        out.append(('dynamic', short(n)))
            elif isinstance(f, ast.Attribute):
                owner = self.ns_owner(fi, f.value)
                if owner is not None:
                    handled_receiver = f.value
                    what = short(n)
                    if f.attr in NS_DROP + NS_PUT:
                        if args and not isinstance(args[0], ast.Starred):
                            out.extend(self._key(fi, args[0], owner, f.attr in NS_PUT, what))
                        elif self.may_be_app(fi, owner):
                            out.append(('dynamic', what))
                    elif f.attr == 'update':
                        for a in args:
                            if isinstance(a, ast.Dict):
                                for k in a.keys:
                                    if k is None:
                                        out.extend(self._key(fi, ast.Name(id='**', ctx=ast.Load()), owner, True, what))
                                    else:
                                        out.extend(self._key(fi, k, owner, True, what))
                            else:
                                out.extend(self._key(fi, ast.Name(id='<mapping>', ctx=ast.Load()), owner, True, what))
                        for k in n.keywords:
                            if k.arg is None:
                                out.extend(self._key(fi, ast.Name(id='**', ctx=ast.Load()), owner, True, what))
                            elif k.arg == slot:
                                out.append(('store', what))
                    elif f.attr in NS_ALL:
                        if self.may_be_app(fi, owner):
                            out.append(('wholesale', what))
                    elif f.attr not in NS_READ and self.may_be_app(fi, owner):
                        out.append(('dynamic', what))
            # the namespace of an application handed on as an argument: whoever receives it can do any of the above
            for a in args + [k.value for k in n.keywords]:
                if isinstance(a, ast.Starred):
                    a = a.value
                owner = self.ns_owner(fi, a)
                if owner is not None and self.may_be_app(fi, owner) and not (isinstance(f, ast.Name) and f.id in ('len', 'sorted', 'list', 'tuple', 'repr', 'dict', 'set', 'frozenset', 'iter', 'bool', 'id')):
                    out.append(('dynamic', '%s receives the namespace of %s' % (short(f), short(owner))))
        return out

    def touches_under(self, fi, host):
        """All touches in the expression / statement ``host`` (nested function bodies excluded)."""
        out = []
        todo = [host]
        while todo:
            n = todo.pop()
            for kind, how in self.touches_of(fi, n):
                out.append(Touch(kind, n, how, fi, fi.mod if fi is not None else None))
            for c in ast.iter_child_nodes(n):
                if isinstance(c, (ast.FunctionDef, ast.AsyncFunctionDef, ast.ClassDef, ast.Lambda)) and c is not host:
                    continue
                todo.append(c)
        return out

    def all_touches(self):
        out = []
        for m in self.repo.all_internal_modules():
            owner = {}
            for fi in m.functions.values():
                for n in walk_body(fi.node):
                    owner.setdefault(id(n), fi)
            for n in ast.walk(m.tree):
                fi = owner.get(id(n))
                for kind, how in self.touches_of(fi, n):
                    out.append(Touch(kind, n, how, fi, m))
        return out


_CONTROL = '''
class Application(object):
    def a(self, v, name):
        self._slot = v
        del self._slot
        setattr(self, '_slot', v)
        delattr(self, '_slot')
        self.__dict__['_slot'] = v
        del self.__dict__['_slot']
        self.__dict__.pop('_slot', None)
        vars(self).pop('_slot')
        ns = self.__dict__
        ns.setdefault('_slot', v)
        ns.update({'_slot': v})
        ns.update(_slot=v)
        object.__setattr__(self, '_slot', v)
        self.__delattr__('_slot')
        self.__dict__.clear()
        self.__dict__ = {}
        setattr(self, name, v)
        self.__dict__.update(v)
        self.__dict__.get('_slot')
        self.__dict__.pop('other', None)
        self.other = v
'''
_CONTROL_WANT = ['store', 'delete', 'store', 'delete', 'store', 'delete', 'delete', 'delete', 'store', 'store', 'store', 'store',
                 'delete', 'wholesale', 'wholesale', 'dynamic', 'dynamic']


def positive_control(view):
    """The detector finds each spelling in a text that contains one of each, in order, and nothing else."""
    from ..loader import FuncInfo, ClassInfo
    tree = ast.parse(_CONTROL)
    cnode = tree.body[0]

    class _M(object):
        classes = {}
        name = '<control>'
    ci = ClassInfo(_M, cnode, 'Application')
    fi = FuncInfo(_M, cnode.body[0], 'Application.a', ci)
    saved = view.slot, view.family
    view.slot, view.family = '_slot', [ci]
    try:
        got = []
        for st in cnode.body[0].body:
            got.extend(t.kind for t in sorted(view.touches_under(fi, st), key=lambda t: (t.node.lineno, t.node.col_offset)))
    finally:
        view.slot, view.family = saved
    if got != _CONTROL_WANT:
        raise AnalysisError('positive control for the entry-slot write detector failed: %s' % got)


def check_entry_point(rep, rule):
    repo = rep.repo
    app = repo.mod(APP)
    from .c13 import wrapping_store
    slot = entry_slot(app)
    view = EntryView(repo, slot)
    positive_control(view)
    touches = view.all_touches()
    n_ok = 0
    dynamic = []
    seen = set()
    for t in touches:
        st = t.node
        while st is not None and not isinstance(st, ast.stmt):
            st = t.mod.parents.get(st)
        where = t.fi.key if t.fi is not None else t.mod.name
        key = '%s::%s' % (where, norm(st if st is not None else t.node)[:90])
        if t.kind == 'dynamic':
            dynamic.append((t, where))
            continue
        if (key, t.kind) in seen:
            continue
        seen.add((key, t.kind))
        if t.kind == 'store':
            ci = view._enclosing_class(t.fi)
            in_family = ci is not None and (ci in view.family or any(ci in repo.mro(c) for c in view.family))
            ok = in_family and st is not None and wrapping_store(app, t.fi, st, slot)
            n_ok += 1 if ok else 0
            rep.check(rule, key, ok,
                      'the entry point is re-bound to a wrapping of its current value (the stack only grows)' if ok else
                      ('%s assigns the WSGI entry point self.%s something that is not a wrapping of its current value: the wrapper stack '
                       'the constructor built from the middlewares is discarded' % (where, slot) if in_family else
                       '%s writes the WSGI entry point %s of an application from outside the application class' % (where, slot)),
                      t.mod, st if st is not None else t.node)
        else:
            rep.fail(rule, key,
                     '%s removes the WSGI entry point (%s): self.%s falls back to the bare method, every WSGI wrapper the middlewares '
                     'contributed (and the error handler\'s) is gone for all later requests' % (where, t.how, slot)
                     if t.kind == 'delete' else
                     '%s replaces / empties the whole attribute namespace of an application (%s): the wrapped WSGI entry point %s is lost'
                     % (where, t.how, slot), t.mod, st if st is not None else t.node)
    rep.ok(rule, 'clastic::entry point writers', 'self.%s is written only by wrapping stores of the application class (%d found); no delete / '
           'setattr / delattr / __dict__ / vars() spelling touches it (control matched)' % (slot, n_ok))
    if dynamic:
        t, where = dynamic[0]
        raise AnalysisError('%s writes the attribute namespace of an application under a name the text does not fix (%s): cannot tell '
                            'whether the WSGI entry point %s survives' % (where, t.how, slot))
    rep.floor(rule, 2)
