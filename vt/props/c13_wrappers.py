"""C13, rule R13.d -- application-level middlewares are WSGI-wrapper sources whether or not a route is bound yet.

The statement of C13: "WSGI wrappers contributed by application-level middlewares wrap the application in list
order".  ``Application.__init__`` wraps ``self._dispatch_wsgi`` once, over a list of middlewares.  If that list is
computed from the bound routes only, an application constructed without routes (routes added later through
``add()``, or none at all) never applies the wrappers of its own middlewares (finding F14).  Decided here:

  * the iterable of the wrapping loop derives from ``self.middlewares``: either the expression mentions it
    directly, or it is an argument of a call to a function of the tree, and in that function the corresponding
    parameter reaches the returned list on a path that does not depend on the routes parameter (a top-level loop
    / ``list(p)`` / ``extend(p)``, not something nested inside the loop over the routes).
"""
import ast

from ..core import AnalysisError, norm, short
from .common import fkey, stmts_of, walk_body, call_name, call_tail, returns_of

APP = 'clastic.application'


def _strip_order(e):
    """reversed(x) / x[::-1] / list(x) / tuple(x) -> x"""
    while True:
        if isinstance(e, ast.Call) and isinstance(e.func, ast.Name) and e.func.id in ('reversed', 'list', 'tuple') and len(e.args) == 1:
            e = e.args[0]
        elif isinstance(e, ast.Subscript) and isinstance(e.slice, ast.Slice) and e.slice.lower is None and e.slice.upper is None:
            e = e.value
        else:
            return e


def _single_value(fnode, name):
    vals = [s.value for s in stmts_of(fnode) if isinstance(s, ast.Assign) and len(s.targets) == 1 and norm(s.targets[0]) == name]
    return vals[0] if len(vals) == 1 else None


def _param_reaches_result(fi, param, other_params):
    """In function ``fi``: elements of ``param`` are put into the returned list outside any loop over ``other_params``."""
    rets = [r for r in returns_of(fi) if r.value is not None]
    if not rets or not all(isinstance(r.value, ast.Name) for r in rets) or len(set(r.value.id for r in rets)) != 1:
        return None       # shape not understood
    res = rets[0].value.id

    def mentions(e, names):
        return any(isinstance(n, ast.Name) and n.id in names for n in ast.walk(e))
    init = _single_value(fi.node, res)
    if init is not None and mentions(init, {param}):
        return True        # all_mw = list(app_middlewares) ...
    from .c13 import list_segments
    for st in fi.node.body:                       # top level only: not nested in the loop over the routes
        direct = isinstance(st, ast.For) and mentions(st.iter, {param}) and not mentions(st.iter, set(other_params))
        grouped = False
        if isinstance(st, ast.For) and not direct and isinstance(st.iter, ast.Name) and isinstance(st.target, ast.Name):
            # a loop over a local list of groups built in straight-line code, one of whose *elements* is the parameter
            # itself (not something computed per route): the nested loop over the group walks the parameter
            segs = list_segments(fi, st.iter.id, st)
            grouped = segs is not None and any(k == 'item' and norm(e) == param for k, e in segs)
        if direct or grouped:
            lv = set(n.id for n in ast.walk(st.target) if isinstance(n, ast.Name))
            if grouped:
                outer, lv = set(lv), set()
                for inner in ast.walk(st):
                    if isinstance(inner, ast.For) and inner is not st and isinstance(inner.iter, ast.Name) and inner.iter.id in outer:
                        lv |= set(n.id for n in ast.walk(inner.target) if isinstance(n, ast.Name))
            for c in ast.walk(st):
                if isinstance(c, ast.Call) and isinstance(c.func, ast.Attribute) and norm(c.func.value) == res and \
                        c.func.attr in ('append', 'insert', 'add') and any(mentions(a, lv) for a in c.args):
                    return True
        if isinstance(st, ast.Expr) and isinstance(st.value, ast.Call) and isinstance(st.value.func, ast.Attribute) and \
                norm(st.value.func.value) == res and st.value.func.attr in ('extend', 'update') and \
                any(mentions(a, {param}) for a in st.value.args):
            return True
        if isinstance(st, ast.AugAssign) and norm(st.target) == res and mentions(st.value, {param}):
            return True
    return False


def check_app_level_wrappers(rep, rule):
    repo = rep.repo
    app = repo.mod(APP)
    from .c13 import wrap_plan, deref
    init = app.func('Application.__init__')
    plan = wrap_plan(app, init)     # in __init__ itself or in a method it calls; a loop, or a reduce over the sources
    lf, site, env = plan.fn, plan.site, plan.env

    def resolve(e):
        for _ in range(6):
            e2 = _strip_order(deref(lf, e))
            if isinstance(e2, ast.Name) and e2.id in env:      # parameter of an extracted method: the caller's argument
                e2 = _strip_order(deref(init, env[e2.id]))
            if e2 is e:
                break
            e = e2
        return e
    src = resolve(plan.iter)
    if isinstance(src, ast.Name):
        raise AnalysisError('Application.__init__: the list of wrapper sources (%s) is not a single assignment' % src.id)
    direct = 'self.middlewares' in norm(src)
    ok, why = False, ''
    if isinstance(src, ast.Call) and isinstance(src.func, ast.Name):
        kind, m, obj = repo.resolve(init.mod, src.func.id)      # (the module the constructor is written in; resolve follows imports)
        if kind == 'func' and m is not None and not m.external:
            params = obj.params()
            bound = {}
            for i, a in enumerate(src.args):
                if i < len(params):
                    bound[params[i]] = a
            for k in src.keywords:
                if k.arg:
                    bound[k.arg] = k.value
            mine = [p for p, a in bound.items() if norm(a) == 'self.middlewares']
            others = [p for p in bound if p not in mine]
            if not mine:
                why = '%s(...) is not given self.middlewares' % src.func.id
            else:
                r = _param_reaches_result(obj, mine[0], others)
                if r is None:
                    raise AnalysisError('%s: cannot follow the returned list' % obj.key)
                ok = r
                if not ok:
                    why = 'in %s the parameter %s does not reach the result independently of %s' % (obj.qualname, mine[0], others)
        elif direct:
            ok = True
    elif direct:
        ok = True
    if not ok and not why:
        why = 'the wrapper sources are %s' % short(src)
    rep.check(rule, fkey(init, 'application middlewares are wrapper sources'), ok,
              'the wrapping loop runs over a list that contains self.middlewares whether or not routes are bound' if ok else
              'the WSGI wrappers are collected from the bound routes only (%s): an Application created without routes -- routes '
              'added later with add(), or none -- never applies the wsgi_wrapper of its own middlewares' % why, lf.mod, plan.node)
