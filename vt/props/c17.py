"""C17 -- The basic and JSON renderers accept every endpoint result.

Decided (shape of the code, all inputs):
  R17.a  every global name loaded in clastic/render/simple.py and tabular.py (every scope) and in
         every clastic function reachable from the renderers' __call__ resolves to a binding or a
         Python-3 builtin (symtable) -- a NameError on a classification branch is a 500;
  R17.b  no constant-false / type-confused classification test on a value known to be ``bytes``:
         ``b[i] == b'x'`` (int vs bytes), bytes-vs-str comparisons, ``'s' in <bytes>``,
         ``<bytes>.startswith('s')``; _guess_json, read by shape as a predicate over (empty?, first byte, last
         byte) of its parameter -- branches on comparisons, membership of the (first, last) pair or of the
         concatenation of the two one-byte slices in a folded constant collection, a loop / any() over a constant
         table of pairs, an opening -> closing table, startswith / endswith --, answers true exactly for the pairs
         ({, }) and ([, ]): every accepting return admits only those and can be true, both are admitted, the
         empty input is answered False and no element of a possibly empty value is touched;
  R17.c  render_response: each Response label follows its test (json <= _guess_json, html <= the
         html sniff and not json, plain otherwise), str is encoded before the bytes classification,
         non-Sized values are stringified with a *bound* callable, everything else is handed to
         _serialize_to_resp; _serialize_to_resp hands application/json to json_render and text/html to
         tabular_render; every str / bytes result -- the empty one included, an abstract result of its own in
         the path enumeration -- takes the text branch: a truthiness / length test on the text value (or on its
         encoded form) never decides between "text" and "not text" (type tests / ``is not None`` do);
  R17.d  ClasticJSONEncoder.default raises TypeError only when dev_mode is false and returns repr()
         when it is true; render_basic / render_json_dev / HTTPException.to_json are built in dev mode;
  R17.e  the format->mime table and the branches of _serialize_to_resp agree; the default mime is served;
  R17.f  every ``.format(...)`` / ``.format_map(...)`` / ``%`` in the render modules and in the clastic functions
         reachable from the renderers formats a template made of string constants only (literals, named constants,
         their concatenations / joins); endpoint data -- docstrings, labels, values -- is passed as an argument and
         never concatenated or interpolated into the template (a brace / percent sign in it would raise => 500).
  (vt/props/c17_more.py:)
  R17.g  kinds of value in the encoder: the object handed to default() is an instance, a plain class or a class with a
         metaclass; a conversion method fetched from it (obj.to_dict(), getattr(obj, name)(), a local bound to such a
         fetch) is called only where the type tests on the way exclude *both* kinds of class (``isinstance(obj, type)``
         / inspect.isclass do, ``type(obj) is type`` excludes only the plain one; a bound-method test on the fetched
         callable is accepted too);
  R17.h  renderers are shared by all requests: nothing on the render paths stores what it learns from one request (a
         value or a decision derived from the context / request / route, or an accumulation) in the renderer, its class,
         a module-level object or a mutable default -- under whatever alias -- and reads it back on the render paths;
         idempotent request-independent writes (a cache of configuration, a lazily filled one included when every read
         comes after the fill) and write-only statistics are fine;
  R17.i  the render paths answer 200: no Response is built with / given another status; every entry point returns a
         response on every path; the only raise outside the encoder is the rejection of a format parameter that is
         *present* and not in the format table;
  R17.k  provenance and precedence of the negotiated mime: the value the dispatch tests derives from the format table
         looked up with this request's format parameter, else from best_match of this request's Accept header over
         exactly the served mimes, else it is the default mime -- nothing else flows into it (path conditions of each
         source checked);
  R17.l  every JSON body -- streaming, non-streaming, inside JSONP -- is self.json_encoder (the encoder R17.d checks)
         applied to the endpoint result itself; a JSONP body is <this request's callback>( JSON ) and is built only when
         the request names a callback; the dispatch of the basic renderer hands the endpoint result itself on; a generator
         of the tree the body is passed through is read as a re-chunker over a finite buffer state (empty / holds
         unemitted tokens / emitted, not cleared): no token overtakes buffered ones, none is dropped or repeated (another
         transformation of the JSON stream is an analysis error, another producer a violation);
  R17.m  optional attributes of a FunctionBuilder -- None unless the callable supplies them; read from the pinned boltons
         source: default factory ``lambda: None`` (module, varargs, varkw, defaults) -- are joined / concatenated /
         dereferenced on the render paths (the heading of the HTML table) only behind a presence test.
  (vt/props/c17_total.py:)
  R17.l  (kinds) "+", len(), indexing and list methods on the chunks a JSON / JSONP body is built from are applied only where
         every operand is, on every path (streaming flag true / false), a materialised sequence of one kind -- a list, a
         tuple -- never a lazy iterator (iterencode / a generator) and never two different kinds (TypeError => 500);
  R17.n  the text classification is total: on the text branch of render_response, in the JSON guess and in every function the
         text is handed on to, a call that is handed the text and is known to raise for some texts -- a finite table about
         the library: JSON / literal parsers (ValueError *and* RecursionError: recursive descent on arbitrary text), number
         conversions, base64 / hex decoders, re.compile of the text, .decode() / .encode() with a partial codec -- lies under
         a handler that catches every class it can raise and does not raise itself.  Noted, not judged: a guess that
         answers "JSON" only after a successful parse makes the label depend on the parser's size limits.
Nothing is decided by running clastic code: paths are enumerated symbolically over the abstract results
{non-empty str, non-empty bytes, '', b'', Sized non-text, unsized}; kinds of encoded objects over {instance, plain class,
class with a metaclass}.
Declined: JSON validity / round trip of the stdlib encoder's output, HTML table shapes (third-party Table), what
request.accept_mimetypes.best_match answers for a given header -- values.
"""
import ast
import builtins
import copy

from ..core import AnalysisError, norm, short
from ..callgraph import CallGraph
from .common import (cfg_of, fkey, conds, has_cond, cond_texts, is_call_to, isinstance_test, returns_of,
                     raises_of, raise_type, check_unbound, stmts_of, walk_body, kwarg, call_tail, call_name)
from ..astutil import argn, assigned_value

SIMPLE = 'clastic.render.simple'
TABULAR = 'clastic.render.tabular'


def _bytes_typed_names(repo, fi, cg=None):
    """Local names statically known to hold ``bytes`` in fi: annotated parameters."""
    out = set()
    a = fi.node.args
    for p in a.posonlyargs + a.args + a.kwonlyargs:
        if p.annotation is not None and norm(p.annotation) == 'bytes':
            out.add(p.arg)
    return out


def _vtype(expr, bytes_names, bytes_exprs=()):
    """'bytes' | 'str' | 'int' | None for the small expression language of the classification tests."""
    if isinstance(expr, ast.Constant):
        if isinstance(expr.value, bytes):
            return 'bytes'
        if isinstance(expr.value, str):
            return 'str'
        if isinstance(expr.value, bool):
            return None
        if isinstance(expr.value, int):
            return 'int'
        return None
    if isinstance(expr, ast.Name):
        return 'bytes' if expr.id in bytes_names else None
    if norm(expr) in bytes_exprs:
        return 'bytes'
    if isinstance(expr, ast.Subscript):
        base = _vtype(expr.value, bytes_names, bytes_exprs)
        if base in ('bytes', 'str'):
            if isinstance(expr.slice, ast.Slice):
                return base
            return 'int' if base == 'bytes' else 'str'
        return None
    if isinstance(expr, ast.Call) and isinstance(expr.func, ast.Attribute):
        if expr.func.attr == 'encode':
            return 'bytes'
        if expr.func.attr in ('strip', 'lstrip', 'rstrip', 'lower', 'upper'):
            return _vtype(expr.func.value, bytes_names, bytes_exprs)
    return None


def type_confusions(fnode_or_stmts, bytes_names, bytes_exprs=()):
    """Yield (node, reason) for tests that can never be true / raise TypeError because of bytes/str/int mixing."""
    nodes = []
    if isinstance(fnode_or_stmts, list):
        for s in fnode_or_stmts:
            nodes.extend(ast.walk(s))
    else:
        nodes = list(walk_body(fnode_or_stmts))
        # light local type propagation: x = b[0] / first, last = b[0], b[-1] / s = b[:1]
        bytes_names = set(bytes_names)
        local_types = {}
        for n in nodes:
            if isinstance(n, ast.Assign) and len(n.targets) == 1:
                t, v = n.targets[0], n.value
                pairs = []
                if isinstance(t, ast.Name):
                    pairs = [(t, v)]
                elif isinstance(t, ast.Tuple) and isinstance(v, ast.Tuple) and len(t.elts) == len(v.elts):
                    pairs = [(a, b) for a, b in zip(t.elts, v.elts) if isinstance(a, ast.Name)]
                for a, b in pairs:
                    ty = _vtype(b, bytes_names, bytes_exprs)
                    if ty and a.id not in bytes_names:
                        local_types.setdefault(a.id, set()).add(ty)
        for name, tys in local_types.items():
            if tys == {'bytes'}:
                bytes_names.add(name)
        int_names = set(n for n, tys in local_types.items() if tys == {'int'})
        str_names = set(n for n, tys in local_types.items() if tys == {'str'})
        _orig = _vtype

        def _vt(expr, bn, be=()):
            if isinstance(expr, ast.Name) and expr.id in int_names:
                return 'int'
            if isinstance(expr, ast.Name) and expr.id in str_names:
                return 'str'
            return _orig(expr, bn, be)
        for n in nodes:
            if isinstance(n, ast.Compare) and len(n.ops) == 1 and isinstance(n.ops[0], (ast.Eq, ast.NotEq)):
                lt, rt = _vt(n.left, bytes_names, bytes_exprs), _vt(n.comparators[0], bytes_names, bytes_exprs)
                if lt and rt and lt != rt and (isinstance(n.left, ast.Name) or isinstance(n.comparators[0], ast.Name)) \
                        and not (_orig(n.left, bytes_names, bytes_exprs) and _orig(n.comparators[0], bytes_names, bytes_exprs)):
                    yield n, ('comparison of %s with %s is constant %s on Python 3 (the local holds an element of a bytes value)'
                              % (lt, rt, 'False' if isinstance(n.ops[0], ast.Eq) else 'True'))
    for n in nodes:
        if isinstance(n, ast.Compare) and len(n.ops) == 1:
            lt = _vtype(n.left, bytes_names, bytes_exprs)
            rt = _vtype(n.comparators[0], bytes_names, bytes_exprs)
            op = n.ops[0]
            if isinstance(op, (ast.Eq, ast.NotEq)) and lt and rt and lt != rt:
                yield n, ('comparison of %s with %s is constant %s on Python 3'
                          % (lt, rt, 'False' if isinstance(op, ast.Eq) else 'True'))
            if isinstance(op, (ast.In, ast.NotIn)) and rt == 'bytes' and lt == 'str':
                yield n, "'str in bytes' raises TypeError on Python 3"
            if isinstance(op, (ast.In, ast.NotIn)) and rt == 'str' and lt == 'bytes':
                yield n, "'bytes in str' raises TypeError on Python 3"
        if isinstance(n, ast.Call) and isinstance(n.func, ast.Attribute) and n.func.attr in ('startswith', 'endswith', 'find', 'count') \
                and n.args:
            bt = _vtype(n.func.value, bytes_names, bytes_exprs)
            at = _vtype(n.args[0], bytes_names, bytes_exprs)
            if bt in ('bytes', 'str') and at in ('bytes', 'str') and bt != at:
                yield n, '%s.%s(%s) raises TypeError on Python 3' % (bt, n.func.attr, at)


# ---------------------------------------------------------------------------------------------- symbolic paths
class _St(object):
    """One path prefix: env (local name -> expression over the *initial* parameter values), the tests taken so far
    [(key, substituted atom, original node, polarity, decided)], and the terminal ('return', value, stmt) /
    ('raise', None, stmt) / ('fall', None, None)."""
    __slots__ = ('env', 'trace', 'term')

    def __init__(self, env=None, trace=None, term=None):
        self.env, self.trace, self.term = env or {}, trace or [], term

    def fork(self):
        return _St(dict(self.env), list(self.trace), self.term)

    def free(self):
        return [c for c in self.trace if not c[4]]


def _subst(expr, env):
    if not env:
        return copy.deepcopy(expr)

    class S(ast.NodeTransformer):
        def visit_Name(self, n):
            if isinstance(n.ctx, ast.Load) and n.id in env:
                return copy.deepcopy(env[n.id])
            return n

        def visit_Lambda(self, n):
            return n

        def _comp(self, n):
            bound = set(x.id for g in n.generators for x in ast.walk(g.target) if isinstance(x, ast.Name))
            if bound & set(env):
                return n
            return self.generic_visit(n)
        visit_ListComp = visit_SetComp = visit_DictComp = visit_GeneratorExp = _comp
    return S().visit(copy.deepcopy(expr))


_FLIP = {ast.NotEq: ast.Eq, ast.NotIn: ast.In, ast.IsNot: ast.Is}
_opaque_n = [0]


def _opaque(hint):
    _opaque_n[0] += 1
    return ast.Name(id='<%s#%d>' % (hint, _opaque_n[0]), ctx=ast.Load())


def _replace_node(expr, old, new):
    """Copy of expr in which the node ``old`` (by identity) is replaced by a copy of ``new``."""
    def rec(n):
        if n is old:
            return copy.deepcopy(new)
        if isinstance(n, ast.AST):
            kw = {}
            for f, v in ast.iter_fields(n):
                if isinstance(v, list):
                    kw[f] = [rec(x) for x in v]
                else:
                    kw[f] = rec(v)
            m = type(n)(**kw)
            return ast.copy_location(m, n) if hasattr(n, 'lineno') else m
        return n
    return rec(expr)


def is_raises_atom(atom):
    """The free atom ``sym_paths(model_try=True)`` puts on the paths of a try statement: "the body raised into this
    handler" (true on the handler's path) / "the body raised" (false on the path on which it completed)."""
    return isinstance(atom, ast.Name) and atom.id.startswith('<') and ' raises' in atom.id


def sym_paths(fi, decide, limit=2048, fold=None, resolve=None, model_try=False):
    """Enumerate the paths of an acyclic function body symbolically.  ``decide(atom)`` -> True / False / None for a
    test atom whose locals were substituted by their values; None = free (both outcomes are followed).
    ``resolve(call)`` -> FuncInfo of a callee whose body is to be followed (its paths are spliced in, parameters bound
    to the argument expressions) or None (the call stays an opaque expression).  Loops, try and with statements are
    outside the modelled subset (AnalysisError; a callee using them is simply not followed).
    ``model_try``: a ``try`` is followed as "the body completes (then else / finally)" plus, per handler, "the body raised
    into it" -- the locals the body binds are unknown there, the tests the body made are forgotten -- each marked by a free
    atom (``is_raises_atom``); whether the body *can* raise that class, and what escapes every handler, is not decided
    here.  A ``finally`` that returns / raises stays outside the subset."""
    ident = lambda x: x
    try_n = [0]
    fold_ = fold or ident
    opaque_calls = set()
    depth = [0]

    def first_call(expr):
        todo = [expr]
        while todo:
            n = todo.pop(0)
            if isinstance(n, ast.Call) and id(n) not in opaque_calls:
                if resolve(n) is not None:
                    return n
                opaque_calls.add(id(n))
            if isinstance(n, (ast.Lambda, ast.ListComp, ast.SetComp, ast.DictComp, ast.GeneratorExp)):
                continue
            if isinstance(n, ast.BoolOp):
                todo.insert(0, n.values[0])
                continue
            if isinstance(n, ast.IfExp):
                todo.insert(0, n.test)
                continue
            todo = list(ast.iter_child_nodes(n)) + todo
        return None

    def bind_call(callee, call):
        a = callee.node.args
        if a.vararg or a.kwarg or any(isinstance(x, ast.Starred) for x in call.args) or any(k.arg is None for k in call.keywords):
            return None
        params = [p.arg for p in a.posonlyargs + a.args]
        defaults = dict(zip(params[len(params) - len(a.defaults):], a.defaults)) if a.defaults else {}
        for p, d in zip(a.kwonlyargs, a.kw_defaults):
            if d is not None:
                defaults[p.arg] = d
        env = {}
        static = any(isinstance(d, ast.Name) and d.id == 'staticmethod' for d in callee.node.decorator_list)
        if callee.cls is not None and not static:
            if not (isinstance(call.func, ast.Attribute) and params):
                return None
            recv = params.pop(0)
            if not (isinstance(call.func.value, ast.Name) and call.func.value.id == recv):
                env[recv] = call.func.value
        if len(call.args) > len(params):
            return None
        for p, v in zip(params, call.args):
            env[p] = v
        for k in call.keywords:
            if k.arg in env or k.arg not in params + [x.arg for x in a.kwonlyargs]:
                return None
            env[k.arg] = k.value
        for p in params + [x.arg for x in a.kwonlyargs]:
            if p not in env:
                if p not in defaults:
                    return None
                env[p] = defaults[p]
        return env

    def expand(expr, st):
        """[(state, expr with the followed calls replaced by their symbolic results)]; a state whose callee raised
        carries the terminal."""
        if resolve is None or expr is None:
            return [(st, expr)]
        call = first_call(expr)
        if call is None:
            return [(st, expr)]
        callee = resolve(call)
        env = bind_call(callee, call) if depth[0] < 3 else None
        results = None
        if env is not None:
            depth[0] += 1
            try:
                results = run_block(callee.node.body, [_St(env, list(st.trace))])
            except AnalysisError:
                results = None
            finally:
                depth[0] -= 1
        if results is None:
            opaque_calls.add(id(call))
            return expand(expr, st)
        out = []
        for r in results:
            st2 = _St(dict(st.env), r.trace, None)
            if r.term is not None and r.term[0] == 'raise':
                st2.term = r.term
                out.append((st2, None))
                continue
            val = r.term[1] if r.term is not None and r.term[0] == 'return' and r.term[1] is not None else ast.Constant(value=None)

            new = copy.deepcopy(val) if expr is call else _replace_node(expr, call, val)
            out.extend(expand(new, st2))
        return out

    def split(test, st, subst=True):
        if isinstance(test, ast.UnaryOp) and isinstance(test.op, ast.Not):
            return [(s, not r) for s, r in split(test.operand, st, subst)]
        if isinstance(test, ast.BoolOp):
            is_and = isinstance(test.op, ast.And)
            cur = [(st, is_and)]
            for v in test.values:
                nxt = []
                for s, r in cur:
                    if r is not is_and or s.term is not None:
                        nxt.append((s, r))
                    else:
                        nxt.extend(split(v, s, subst))
                cur = nxt
            return cur
        if isinstance(test, ast.IfExp):
            out = []
            for s, r in split(test.test, st, subst):
                if s.term is not None:
                    out.append((s, r))
                else:
                    out.extend(split(test.body if r else test.orelse, s, subst))
            return out
        atom = _subst(test, st.env) if subst else test
        if subst:
            out = []
            for s2, a2 in expand(atom, st):
                if s2.term is not None:
                    out.append((s2, True))
                else:
                    out.extend(split_atom(fold_(a2), test, s2))
            return out
        return split_atom(atom, test, st)

    def split_atom(atom, test, st):
        if isinstance(atom, (ast.BoolOp, ast.IfExp)) or (isinstance(atom, ast.UnaryOp) and isinstance(atom.op, ast.Not)):
            return split(atom, st, False)
        inv = False
        if isinstance(atom, ast.Compare) and len(atom.ops) == 1 and type(atom.ops[0]) in _FLIP:
            atom = ast.Compare(left=atom.left, ops=[_FLIP[type(atom.ops[0])]()], comparators=atom.comparators)
            inv = True
        d = decide(atom)
        key = norm(atom)
        if d is None:
            for c in st.trace:
                if c[0] == key:
                    d = c[3]
                    break
        if d is not None:
            st.trace.append((key, atom, test, d, True))
            return [(st, (not d) if inv else d)]
        a, b = st, st.fork()
        a.trace.append((key, atom, test, True, False))
        b.trace.append((key, atom, test, False, False))
        return [(a, not inv), (b, inv)]

    def bind(st, target, value):
        if isinstance(target, ast.Name):
            st.env[target.id] = value
        elif isinstance(target, (ast.Tuple, ast.List)):
            if isinstance(value, (ast.Tuple, ast.List)) and len(value.elts) == len(target.elts) and \
                    not any(isinstance(e, ast.Starred) for e in list(value.elts) + list(target.elts)):
                for t, v in zip(target.elts, value.elts):
                    bind(st, t, v)
            else:
                for n in ast.walk(target):
                    if isinstance(n, ast.Name):
                        st.env[n.id] = _opaque(n.id)
        # attribute / subscript stores do not touch the locals

    def run_block(stmts, states):
        for s in stmts:
            nxt = []
            for st in states:
                if st.term is not None:
                    nxt.append(st)
                else:
                    nxt.extend(run_stmt(s, st))
            states = nxt
            if len(states) > limit:
                raise AnalysisError('%s: more than %d symbolic paths' % (fi.qualname, limit))
        return states

    def values(expr, st):
        """[(state, substituted value)] of an expression evaluated in state st (followed calls spliced in)."""
        return expand(_subst(expr, st.env), st)

    def run_stmt(s, st):
        if isinstance(s, (ast.Expr, ast.Pass, ast.Import, ast.ImportFrom, ast.Assert, ast.Global, ast.Nonlocal, ast.Delete)):
            return [st]
        if isinstance(s, (ast.Assign, ast.AnnAssign)):
            if s.value is None:
                return [st]
            out = []
            for s2, v in values(s.value, st):
                if s2.term is None:
                    for t in (s.targets if isinstance(s, ast.Assign) else [s.target]):
                        bind(s2, t, v)
                out.append(s2)
            return out
        if isinstance(s, ast.AugAssign):
            if isinstance(s.target, ast.Name):
                st.env[s.target.id] = _subst(ast.BinOp(left=ast.Name(id=s.target.id, ctx=ast.Load()), op=s.op, right=s.value), st.env)
            return [st]
        if isinstance(s, ast.Return):
            if s.value is None:
                st.term = ('return', None, s)
                return [st]
            out = []
            for s2, v in values(s.value, st):
                if s2.term is None:
                    s2.term = ('return', fold_(v), s)
                out.append(s2)
            return out
        if isinstance(s, ast.Raise):
            st.term = ('raise', _subst(s.exc, st.env) if s.exc is not None else None, s)
            return [st]
        if isinstance(s, ast.If):
            out = []
            for s2, r in split(s.test, st):
                out.extend(run_block(s.body if r else s.orelse, [s2]))
            return out
        if isinstance(s, ast.Try) and model_try and not any(
                isinstance(n, (ast.Return, ast.Raise, ast.Break, ast.Continue)) for x in s.finalbody for n in ast.walk(x)):
            try_n[0] += 1
            calls = [n for x in s.body for n in ast.walk(x) if isinstance(n, ast.Call)]
            label = short(norm(calls[0]), 40) if calls else 'the try body at line %s' % s.lineno
            bound = set(n.id for x in s.body for n in ast.walk(x) if isinstance(n, ast.Name) and isinstance(n.ctx, ast.Store))
            out = []
            for h in s.handlers:
                sh = st.fork()
                for name in sorted(bound | ({h.name} if h.name else set())):
                    sh.env[name] = _opaque(name)
                atom = ast.Name(id='<%s raises %s #%d>' % (label, norm(h.type) if h.type is not None else 'anything', try_n[0]),
                                ctx=ast.Load())
                sh.trace.append((norm(atom), atom, s, True, False))
                out.extend(run_block(list(h.body) + list(s.finalbody), [sh]))
            atom = ast.Name(id='<%s raises #%d>' % (label, try_n[0]), ctx=ast.Load())
            st.trace.append((norm(atom), atom, s, False, False))
            out.extend(run_block(list(s.body) + list(s.orelse) + list(s.finalbody), [st]))
            return out
        raise AnalysisError('%s: statement %s is outside the modelled subset of the path enumeration'
                            % (fi.qualname, type(s).__name__))

    out = run_block(fi.node.body, [_St()])
    for st in out:
        if st.term is None:
            st.term = ('fall', None, None)
    return out


def follow_resolver_any(repo, fi):
    """Like follow_resolver, generator functions included (for analyses that read the callee instead of splicing it)."""
    return follow_resolver(repo, fi, generators=True)


def follow_resolver(repo, fi, keep=(), generators=False):
    """resolve(call) for sym_paths: plain functions / methods of the analysed tree named directly (f(..), self.m(..),
    cls.m(..), Class.m(..)); names in ``keep`` stay opaque."""
    def resolve(call):
        f = call.func
        m = None
        try:
            if isinstance(f, ast.Attribute) and isinstance(f.value, ast.Name):
                ci = None
                if f.value.id in ('self', 'cls') and fi.cls is not None:
                    ci = fi.cls
                elif f.value.id in fi.mod.classes:
                    ci = fi.mod.classes[f.value.id]
                if ci is not None:
                    m = repo.find_method(ci, f.attr)
                    if m is not None and f.value.id not in ('self', 'cls') and not any(
                            isinstance(d, ast.Name) and d.id in ('staticmethod', 'classmethod') for d in m.node.decorator_list):
                        m = None
            elif isinstance(f, ast.Name):
                kind, mm, obj = repo.resolve(fi.mod, f.id)
                if kind == 'func':
                    m = obj
        except Exception:
            m = None
        if m is None or m.mod.external or m.name in keep or m is fi or not isinstance(m.node, ast.FunctionDef):
            return None
        if any(isinstance(d, ast.Name) and d.id == 'property' for d in m.node.decorator_list):
            return None
        for n in ast.walk(m.node):
            if isinstance(n, (ast.Yield, ast.YieldFrom, ast.Await)) and not generators:
                return None
        return m
    return resolve


# ---------------------------------------------------------------------------------------------- abstract result types
_COLLECTION_ABCS = ('Sized', 'Collection', 'Sequence', 'MutableSequence', 'Mapping', 'MutableMapping', 'Set', 'MutableSet',
                    'ByteString', 'dict', 'list', 'tuple', 'set', 'frozenset', 'bytearray', 'OrderedDict', 'defaultdict',
                    'deque', 'ItemsView', 'KeysView', 'ValuesView', 'MappingView')
_NOT_TEXT = ('Mapping', 'MutableMapping', 'Set', 'MutableSet', 'MutableSequence', 'dict', 'list', 'tuple', 'set', 'frozenset',
             'bytearray', 'int', 'float', 'bool', 'complex', 'type', 'OrderedDict', 'defaultdict', 'deque', 'Generator',
             'Iterator', 'Callable', 'NoneType')
TEXT = ('str', 'bytes')            # non-empty text
EMPTY_TEXT = ('str0', 'bytes0')     # '' and b''
_TEXT_ABCS = ('Sized', 'Iterable', 'Container', 'Collection', 'Sequence', 'Reversible', 'Hashable', 'object')


def _isa(t, cname):
    """Is a value of abstract type t ('str' | 'bytes' | 'sized' = Sized but neither str nor bytes | 'unsized') an
    instance of the class called cname?  True / False / None (depends on the value)."""
    if cname == 'object':
        return True
    if t in ('str', 'bytes'):
        if cname in ('str', 'bytes'):
            return cname == t
        if cname == 'ByteString':
            return t == 'bytes'
        if cname in _TEXT_ABCS:
            return True
        if cname in _NOT_TEXT:
            return False
        return None
    if t == 'sized':
        if cname in ('str', 'bytes', 'int', 'float', 'bool', 'complex', 'NoneType', 'Generator'):
            return False
        if cname == 'Sized':
            return True
        return None
    if t == 'unsized':
        if cname in ('str', 'bytes') or cname in _COLLECTION_ABCS:
            return False
        return None
    return None


def _class_names(mod, expr, depth=0):
    """Class names (last component, import aliases and module-level aliases resolved) of an isinstance() class spec."""
    if isinstance(expr, ast.Tuple):
        out = []
        for e in expr.elts:
            sub = _class_names(mod, e, depth)
            if sub is None:
                return None
            out.extend(sub)
        return out
    if isinstance(expr, ast.Attribute):
        return [expr.attr]
    if isinstance(expr, ast.Name):
        if expr.id in mod.imports:
            modname, attr = mod.imports[expr.id]
            return [attr or expr.id]
        vals = mod.assigns.get(expr.id)
        if vals and len(vals) == 1 and isinstance(vals[0], (ast.Name, ast.Tuple, ast.Attribute)) and depth < 4 and \
                expr.id not in mod.classes:
            return _class_names(mod, vals[0], depth + 1)
        return [expr.id]
    return None


def _base(T):
    """'str0' / 'bytes0' (the *empty* text) -> 'str' / 'bytes'."""
    return T[:-1] if T in EMPTY_TEXT else T


def _abs_empty(expr, ctx, T):
    """Emptiness of a text-valued substituted expression when the endpoint result has abstract type T: True (certainly
    empty), False (certainly not empty), None (depends on the value).  'str' / 'bytes' stand for the non-empty text,
    'str0' / 'bytes0' for the empty one."""
    if isinstance(expr, ast.Name):
        if expr.id != ctx:
            return None
        return True if T in EMPTY_TEXT else (False if T in TEXT else None)
    if isinstance(expr, ast.Constant):
        return len(expr.value) == 0 if isinstance(expr.value, (str, bytes)) else None
    if _abs_type(expr, ctx, T) not in TEXT:
        return None
    if isinstance(expr, ast.Subscript) and isinstance(expr.slice, ast.Slice):
        e = _abs_empty(expr.value, ctx, T)
        if e is True:
            return True
        sl = expr.slice
        if e is False and sl.lower is None and sl.step is None and isinstance(sl.upper, ast.Constant) and \
                isinstance(sl.upper.value, int) and not isinstance(sl.upper.value, bool) and sl.upper.value > 0:
            return False    # a non-empty prefix of a non-empty text
        return None
    if isinstance(expr, ast.BinOp) and isinstance(expr.op, ast.Add):
        l, r = _abs_empty(expr.left, ctx, T), _abs_empty(expr.right, ctx, T)
        if l is True and r is True:
            return True
        if l is False or r is False:
            return False
        return None
    if isinstance(expr, ast.Call):
        f = expr.func
        if isinstance(f, ast.Attribute):
            e = _abs_empty(f.value, ctx, T)
            if f.attr in ('lower', 'upper', 'swapcase', 'title', 'capitalize', 'casefold'):
                return e
            if f.attr in ('encode', 'decode'):
                # a lossy error handler (errors='ignore') may drop every character of a non-empty text
                strict = len(expr.args) <= 1 and not any(k.arg in ('errors', None) for k in expr.keywords)
                return e if e is True or strict else None
            if f.attr in ('strip', 'lstrip', 'rstrip', 'replace', 'expandtabs', 'translate'):
                return True if e is True and f.attr not in ('replace', 'translate') else None
            return None
        if isinstance(f, ast.Name) and f.id in ('str', 'bytes') and len(expr.args) == 1 and not expr.keywords and \
                _abs_type(expr.args[0], ctx, T) == f.id:
            return _abs_empty(expr.args[0], ctx, T)
    return None


def _abs_type(expr, ctx, T):
    """Abstract type of a substituted expression when the endpoint result (parameter ctx) has abstract type T."""
    if isinstance(expr, ast.Name):
        return _base(T) if expr.id == ctx else None
    if isinstance(expr, ast.Constant):
        return 'str' if isinstance(expr.value, str) else ('bytes' if isinstance(expr.value, bytes) else None)
    if isinstance(expr, ast.JoinedStr):
        return 'str'
    if isinstance(expr, ast.Subscript) and isinstance(expr.slice, ast.Slice):
        b = _abs_type(expr.value, ctx, T)
        return b if b in ('str', 'bytes') else None
    if isinstance(expr, ast.BinOp):
        l = _abs_type(expr.left, ctx, T)
        if isinstance(expr.op, ast.Mod) and l in ('str', 'bytes'):
            return l
        if isinstance(expr.op, ast.Add) and l in ('str', 'bytes') and l == _abs_type(expr.right, ctx, T):
            return l
        return None
    if isinstance(expr, ast.Call):
        f = expr.func
        if isinstance(f, ast.Attribute):
            b = _abs_type(f.value, ctx, T)
            if f.attr == 'encode':
                return 'bytes' if b == 'str' else ('error' if b == 'bytes' else None)
            if f.attr == 'decode':
                return 'str' if b == 'bytes' else ('error' if b == 'str' else None)
            if f.attr in ('strip', 'lstrip', 'rstrip', 'lower', 'upper', 'format', 'replace', 'join') and b in ('str', 'bytes'):
                return b
            return None
        if isinstance(f, ast.Name):
            if f.id in ('str', 'repr', 'ascii', 'format'):
                return 'str'
            if f.id == 'bytes' and expr.args and _abs_type(expr.args[0], ctx, T) == 'bytes':
                return 'bytes'
    return None


def _type_errors(expr, ctx, T):
    return [n for n in ast.walk(expr) if isinstance(n, ast.Call) and _abs_type(n, ctx, T) == 'error'] if expr is not None else []


def _decide_typed(mod, ctx, T):
    def decide(atom):
        if isinstance(atom, ast.Constant):
            return bool(atom.value)
        if isinstance(atom, ast.Call) and isinstance(atom.func, ast.Name) and atom.func.id == 'isinstance' and len(atom.args) == 2 \
                and not atom.keywords:
            t = _abs_type(atom.args[0], ctx, T)
            if isinstance(atom.args[0], ast.Constant) and atom.args[0].value is None:
                # the "not text" marker of a normalising helper / local
                names = _class_names(mod, atom.args[1])
                return any(n in ('object', 'NoneType') for n in names) if names else None
            if t not in ('str', 'bytes', 'sized', 'unsized'):
                return None
            names = _class_names(mod, atom.args[1])
            if not names:
                return None
            rs = [_isa(t, n) for n in names]
            if any(r is True for r in rs):
                return True
            if all(r is False for r in rs):
                return False
        if isinstance(atom, ast.Compare) and len(atom.ops) == 1 and isinstance(atom.ops[0], (ast.Is, ast.Eq)) and \
                isinstance(atom.comparators[0], ast.Constant) and atom.comparators[0].value is None:
            # ``x is None`` (``is not`` arrives flipped): text is never None
            if isinstance(atom.left, ast.Constant):
                return atom.left.value is None
            if _abs_type(atom.left, ctx, T) in ('str', 'bytes', 'sized'):
                return False
        return _decide_emptiness(atom, ctx, T)
    return decide


def _decide_emptiness(atom, ctx, T):
    """Truth value of a test that looks at the *emptiness* of a text value: its truthiness, ``bool(v)``, ``len(v)``,
    ``len(v) <op> <int>``, ``v == ''`` -- decided for the abstract values "empty text" / "non-empty text"."""
    def emptiness(e):
        return _abs_empty(e, ctx, T) if _abs_type(e, ctx, T) in TEXT else None

    def length_of(e):
        if isinstance(e, ast.Call) and isinstance(e.func, ast.Name) and e.func.id == 'len' and len(e.args) == 1 and not e.keywords:
            return emptiness(e.args[0])
        if isinstance(e, ast.Call) and isinstance(e.func, ast.Attribute) and e.func.attr == '__len__' and not e.args:
            return emptiness(e.func.value)
        return None
    if isinstance(atom, ast.Call) and isinstance(atom.func, ast.Name) and atom.func.id == 'bool' and len(atom.args) == 1 \
            and not atom.keywords:
        atom = atom.args[0]
    e = emptiness(atom)
    if e is None:
        e = length_of(atom)
    if e is not None:
        return not e
    if isinstance(atom, ast.Compare) and len(atom.ops) == 1:
        l, op, r = atom.left, atom.ops[0], atom.comparators[0]
        # len(v) <op> n  /  n <op> len(v)
        for a, b, swapped in ((l, r, False), (r, l, True)):
            e = length_of(a)
            if e is not None and isinstance(b, ast.Constant) and isinstance(b.value, int) and not isinstance(b.value, bool):
                n = b.value
                # the length is 0 (empty) or some value >= 1 (non-empty): the comparison is decided when both 1 and
                # "arbitrarily large" agree
                cmp = {ast.Eq: lambda x, y: x == y, ast.NotEq: lambda x, y: x != y, ast.Lt: lambda x, y: x < y,
                       ast.LtE: lambda x, y: x <= y, ast.Gt: lambda x, y: x > y, ast.GtE: lambda x, y: x >= y}.get(type(op))
                if cmp is None:
                    return None
                f = (lambda x: cmp(n, x)) if swapped else (lambda x: cmp(x, n))
                if e is True:
                    return f(0)
                lo, hi = f(1), f(max(abs(n), 1) + 2)
                mid = [f(k) for k in range(1, max(abs(n), 1) + 3)]
                return lo if lo == hi and all(m == lo for m in mid) else None
        # v == '' / v == b''
        if isinstance(op, ast.Eq):
            for a, b in ((l, r), (r, l)):
                if isinstance(b, ast.Constant) and isinstance(b.value, (str, bytes)):
                    e = emptiness(a)
                    ta = _abs_type(a, ctx, T)
                    tb = 'str' if isinstance(b.value, str) else 'bytes'
                    if e is None or ta not in TEXT:
                        continue
                    if ta != tb:
                        return False
                    if len(b.value) == 0:
                        return e
                    if e is True:
                        return False
    return None


def _sniff_kind(atom):
    """('gj', arg) for a _guess_json(arg) call, ('html', searched value) for the <html sniff, else (None, None)."""
    if isinstance(atom, ast.Call) and call_tail(atom) == '_guess_json' and (atom.args or atom.keywords):
        return 'gj', atom.args[0] if atom.args else atom.keywords[0].value
    needle = hay = None
    if isinstance(atom, ast.Compare) and len(atom.ops) == 1:
        if isinstance(atom.ops[0], ast.In):
            needle, hay = atom.left, atom.comparators[0]
        elif isinstance(atom.left, ast.Call) and isinstance(atom.left.func, ast.Attribute) and atom.left.func.attr == 'find' \
                and atom.left.args and isinstance(atom.ops[0], (ast.Eq, ast.GtE, ast.Gt)):
            # v.find(b'<html') == -1 (flipped from !=) is the *negation*: not modelled, keep it free
            if isinstance(atom.ops[0], (ast.GtE, ast.Gt)):
                needle, hay = atom.left.args[0], atom.left.func.value
    if needle is not None and isinstance(needle, ast.Constant) and isinstance(needle.value, (bytes, str)):
        txt = needle.value.lower() if isinstance(needle.value, str) else needle.value.lower().decode('latin-1')
        if 'html' in txt:
            while isinstance(hay, ast.Subscript) and isinstance(hay.slice, ast.Slice):
                hay = hay.value
            return 'html', hay
    return None, None


# ---------------------------------------------------------------------------------------------- concrete evaluation
def _fold_names(repo, fi, expr):
    """Replace names of str / bytes / int constants (module level, class level through self / cls / the class) in an
    already substituted expression by the constants: ``_HTML_MARKER in payload[:self._sniff_len]``."""
    params = set(fi.params())

    class F(ast.NodeTransformer):
        def visit_Name(self, n):
            if isinstance(n.ctx, ast.Load) and n.id not in params and not n.id.startswith('<'):
                try:
                    v = repo.try_fold(n, fi.mod)
                except Exception:
                    v = None
                if isinstance(v, (str, bytes)) or (isinstance(v, int) and not isinstance(v, bool)):
                    return ast.copy_location(ast.Constant(value=v), n)
            return n

        def visit_Attribute(self, n):
            if isinstance(n.value, ast.Name) and (n.value.id in ('self', 'cls') or n.value.id in fi.mod.classes):
                v = _fold_const(repo, fi, n)
                if isinstance(v, (str, bytes)) or (isinstance(v, int) and not isinstance(v, bool)):
                    return ast.copy_location(ast.Constant(value=v), n)
                return n
            return self.generic_visit(n)

        def visit_Lambda(self, n):
            return n
    return F().visit(expr)


def _is_response(mod, call):
    if not isinstance(call, ast.Call):
        return False
    if call_tail(call) == 'Response':
        return True
    return isinstance(call.func, ast.Name) and mod.imports.get(call.func.id, (None, None))[1] == 'Response'


def _fold_const(repo, fi, expr, depth=0):
    """Constant value of an expression: literal, single-assignment local, module-level constant, class-level constant
    read through self / cls / the class name.  None when it is not a constant."""
    if expr is None or depth > 4:
        return None
    if isinstance(expr, ast.Constant):
        return expr.value
    if isinstance(expr, ast.Name):
        if fi is None:
            return None
        vals = [v for (_s, v, i) in assigned_value(fi.node, expr.id)]
        if vals:
            if len(vals) == 1 and isinstance(vals[0], ast.expr):
                return _fold_const(repo, fi, vals[0], depth + 1)
            return None
        if fi is not None and expr.id in fi.params():
            return None
        return repo.try_fold(expr, fi.mod if fi is not None else None)
    if isinstance(expr, ast.Attribute) and isinstance(expr.value, ast.Name) and fi is not None:
        ci = None
        if expr.value.id in ('self', 'cls') and fi.cls is not None:
            ci = fi.cls
        elif expr.value.id in fi.mod.classes:
            ci = fi.mod.classes[expr.value.id]
        if ci is not None:
            dc, v = repo.class_attr(ci, expr.attr)
            if dc is not None and isinstance(v, ast.expr):
                return repo.try_fold(v, dc.mod)
            return None
    return repo.try_fold(expr, fi.mod) if fi is not None else None


def _call_arg(repo, mod, call, name, fi=None):
    """Argument ``name`` of a constructor / function call: keyword, or the positional slot the callee's signature
    gives that name (callee resolved in the analysed tree)."""
    v = kwarg(call, name)
    if v is not None:
        return v
    for k in call.keywords:
        # f(**options) with options = {...} / dict(...) bound once in the calling function
        if k.arg is None:
            d = k.value
            if isinstance(d, ast.Name) and fi is not None:
                vals = assigned_value(fi.node, d.id)
                d = vals[0][1] if len(vals) == 1 and vals[0][2] is None else None
            if isinstance(d, ast.Dict):
                for kk, vv in zip(d.keys, d.values):
                    if isinstance(kk, ast.Constant) and kk.value == name:
                        return vv
            elif isinstance(d, ast.Call) and isinstance(d.func, ast.Name) and d.func.id == 'dict' and not d.args:
                if kwarg(d, name) is not None:
                    return kwarg(d, name)
    if any(isinstance(a, ast.Starred) for a in call.args):
        return None
    f = call.func
    params = None
    try:
        if isinstance(f, ast.Name):
            kind, m, obj = repo.resolve(mod, f.id)
            if kind == 'func':
                params = [p for p in obj.params()]
            elif kind == 'class':
                init = repo.find_method(obj, '__init__')
                if init is not None:
                    a = init.node.args
                    params = [p.arg for p in a.posonlyargs + a.args][1:]
    except Exception:
        params = None
    if params and name in params and params.index(name) < len(call.args):
        return call.args[params.index(name)]
    return None


def _suppressed(fi, node):
    """node runs inside ``with suppress(Exception):`` (contextlib) in this function."""
    cur = node
    while cur is not None and cur is not fi.node:
        par = fi.mod.parents.get(cur)
        if isinstance(cur, (ast.Lambda, ast.GeneratorExp)):
            return False
        if isinstance(par, ast.With) and cur in par.body:
            for it in par.items:
                ce = it.context_expr
                if isinstance(ce, ast.Call) and call_tail(ce) == 'suppress' and ce.args and \
                        all(norm(a).rpartition('.')[2] in ('Exception', 'BaseException') for a in ce.args):
                    return True
        cur = par
    return False


def _is_repr_of(expr, name):
    """repr(name), '%r' % name / (name,), '{!r}'.format(name), f'{name!r}'."""
    if isinstance(expr, ast.Call) and call_name(expr) == 'repr' and len(expr.args) == 1 and norm(expr.args[0]) == name:
        return True
    if isinstance(expr, ast.BinOp) and isinstance(expr.op, ast.Mod) and isinstance(expr.left, ast.Constant) and expr.left.value == '%r':
        r = expr.right
        if isinstance(r, ast.Tuple) and len(r.elts) == 1:
            r = r.elts[0]
        return norm(r) == name
    if isinstance(expr, ast.Call) and isinstance(expr.func, ast.Attribute) and expr.func.attr == 'format' and \
            isinstance(expr.func.value, ast.Constant) and expr.func.value.value in ('{!r}', '{0!r}') and len(expr.args) == 1:
        return norm(expr.args[0]) == name
    if isinstance(expr, ast.JoinedStr) and len(expr.values) == 1 and isinstance(expr.values[0], ast.FormattedValue) and \
            expr.values[0].conversion == ord('r') and expr.values[0].format_spec is None:
        return norm(expr.values[0].value) == name
    return False


def _guess_by_role(repo, mod, rr):
    """The JSON guess under another name: the one single-argument, bool-valued function of the module that
    render_response (or a private helper it calls) applies -- looked up in the source as written, since the loader
    dissolves private helpers into their callers."""
    try:
        raw = ast.parse(mod.src)
    except SyntaxError:
        return None
    defs = {}
    for st in raw.body:
        if isinstance(st, ast.FunctionDef):
            defs[st.name] = st
        elif isinstance(st, ast.ClassDef):
            for m in st.body:
                if isinstance(m, ast.FunctionDef):
                    defs['%s.%s' % (st.name, m.name)] = m
    cls = rr.cls.qualname if rr.cls is not None else None
    start = defs.get(rr.qualname)
    if start is None:
        return None
    seen, cands, todo = set(), [], [(start, 0)]
    while todo:
        fn, depth = todo.pop()
        for n in ast.walk(fn):
            if not isinstance(n, ast.Call):
                continue
            f = n.func
            q = None
            if isinstance(f, ast.Name):
                q = f.id
            elif isinstance(f, ast.Attribute) and isinstance(f.value, ast.Name) and cls and f.value.id in ('self', 'cls', cls):
                q = '%s.%s' % (cls, f.attr)
            if q is None or q in seen or q not in defs or q not in mod.functions:
                continue
            seen.add(q)
            fi = mod.functions[q]
            ps = [p for p in fi.params() if p not in ('self', 'cls')]
            if len(ps) == 1 and len(n.args) + len(n.keywords) == 1:
                rets = [x for x in ast.walk(fi.node) if isinstance(x, ast.Return)]
                if rets and all(isinstance(x.value, ast.Constant) and isinstance(x.value.value, bool) for x in rets):
                    cands.append(fi)
            if depth < 2 and defs[q].name.startswith('_'):
                todo.append((defs[q], depth + 1))
    return cands[0] if len(cands) == 1 else None


def _mime_tests(cs, fold=None):
    """String constants a path condition list pins a value to: ``x == 'c'`` / ``'c' == x`` / ``x in ('c',)`` true
    (``fold`` resolves named constants)."""
    def const(a):
        if isinstance(a, ast.Constant):
            return a.value if isinstance(a.value, str) else None
        if fold is not None and isinstance(a, (ast.Name, ast.Attribute)):
            v = fold(a)
            return v if isinstance(v, str) else None
        return None
    out = []
    for t, p in cs:
        if not (isinstance(t, ast.Compare) and len(t.ops) == 1):
            continue
        l, r, o = t.left, t.comparators[0], t.ops[0]
        if (isinstance(o, ast.Eq) and p is True) or (isinstance(o, ast.NotEq) and p is False):
            vs = [const(a) for a in (l, r)]
            if (vs[0] is None) != (vs[1] is None):
                out.append(vs[0] if vs[0] is not None else vs[1])
        elif (isinstance(o, ast.In) and p is True) or (isinstance(o, ast.NotIn) and p is False):
            if isinstance(r, (ast.Tuple, ast.List, ast.Set)) and len(r.elts) == 1 and const(r.elts[0]) is not None:
                out.append(const(r.elts[0]))
    return out


# ---------------------------------------------------------------------------------------------- format templates
T_CONST, T_DATA, T_NUM, T_UNKNOWN = 'constant', 'data', 'number', 'unknown'
_NUM_CALLS = ('len', 'int', 'float', 'abs', 'ord', 'round', 'hash', 'sum', 'divmod', 'id')
_TEXT_CALLS = ('str', 'repr', 'ascii', 'format', 'chr', 'hex', 'oct', 'bin')
_TEXT_METHODS = ('strip', 'lstrip', 'rstrip', 'lower', 'upper', 'title', 'capitalize', 'replace', 'ljust', 'rjust', 'center',
                 'expandtabs', 'zfill', 'swapcase', 'casefold', 'decode', 'encode')


class _Templates(object):
    """What a string-valued expression of a function is made of -- by shape, flow-sensitively through the locals:
    T_CONST (string constants only: literals, named module / class level constants, their concatenations, joins and
    copies), T_DATA (a text into which something that is not a constant was concatenated / interpolated / joined),
    T_NUM (an arithmetic value: ``%`` on it is the modulo), T_UNKNOWN (a parameter, an attribute, the result of a call
    the analysis does not read)."""

    def __init__(self, repo, fi):
        from ..effects import Flow
        self.repo, self.fi = repo, fi
        self.flow = Flow(fi)
        self.params = set(fi.params())
        # names bound by a lambda / comprehension inside the function: not locals of the function
        self.inner = set()
        for n in ast.walk(fi.node):
            if isinstance(n, ast.Lambda):
                a = n.args
                self.inner.update(x.arg for x in a.posonlyargs + a.args + a.kwonlyargs + [y for y in (a.vararg, a.kwarg) if y])
            elif isinstance(n, (ast.ListComp, ast.SetComp, ast.DictComp, ast.GeneratorExp)):
                self.inner.update(x.id for g in n.generators for x in ast.walk(g.target) if isinstance(x, ast.Name))
            elif isinstance(n, (ast.FunctionDef, ast.AsyncFunctionDef)) and n is not fi.node:
                self.inner.add(n.name)

    def stmt_of(self, node):
        return self.flow.stmt_of(node)

    @staticmethod
    def join(kinds):
        """The class of a value that is one of several alternatives."""
        kinds = list(kinds)
        if not kinds:
            return T_UNKNOWN
        if T_DATA in kinds:
            return T_DATA
        if T_UNKNOWN in kinds:
            return T_UNKNOWN
        if all(k == T_CONST for k in kinds):
            return T_CONST
        if all(k == T_NUM for k in kinds):
            return T_NUM
        return T_UNKNOWN

    def _folded(self, expr):
        try:
            v = _fold_const(self.repo, None, expr) if isinstance(expr, ast.Constant) else (
                _fold_const(self.repo, self.fi, expr) if isinstance(expr, ast.Attribute) else self.repo.try_fold(expr, self.fi.mod))
        except Exception:
            v = None
        return v

    @staticmethod
    def _of_value(v):
        if isinstance(v, (str, bytes)):
            return T_CONST
        if isinstance(v, bool) or v is None:
            return T_UNKNOWN
        if isinstance(v, (int, float)):
            return T_NUM
        if isinstance(v, (list, tuple)) and v and all(isinstance(x, (str, bytes)) for x in v):
            return T_CONST
        return T_UNKNOWN

    @staticmethod
    def binop(op, l, r):
        texty = (T_CONST, T_DATA)
        if isinstance(op, ast.Add):
            if l == T_CONST and r == T_CONST:
                return T_CONST
            if T_NUM in (l, r):
                return T_NUM
            return T_DATA if (l in texty or r in texty) else T_UNKNOWN
        if isinstance(op, ast.Mod):
            if l in texty:
                return T_DATA      # a formatted text: contains whatever was interpolated
            return T_NUM if T_NUM in (l, r) else T_UNKNOWN
        if isinstance(op, ast.Mult):
            if (l == T_CONST and r == T_NUM) or (l == T_NUM and r == T_CONST):
                return T_CONST     # a constant repeated: still constants only
            if l in texty or r in texty:
                return T_DATA
            return T_NUM if (l == T_NUM and r == T_NUM) else T_UNKNOWN
        return T_NUM

    _SEQ_READS = ('join', 'len', 'list', 'tuple', 'sorted', 'reversed', 'enumerate', 'iter', 'any', 'all', 'bool')
    _SEQ_METHODS = ('append', 'add', 'insert', 'extend', 'update', 'sort', 'reverse', 'copy', 'index', 'count')

    def _escapes(self, name):
        """Is the local sequence ``name`` used in any way other than being filled, read and joined -- aliased, passed to
        a call that may fill it, its bound ``append`` stored away (``_add = ret.append``)?  Then what it contains
        cannot be read off the appends."""
        parents = self.fi.mod.parents
        for n in ast.walk(self.fi.node):
            if not (isinstance(n, ast.Name) and n.id == name and isinstance(n.ctx, ast.Load)):
                continue
            par = parents.get(n)
            if isinstance(par, ast.Attribute) and par.value is n and par.attr in self._SEQ_METHODS:
                gp = parents.get(par)
                if isinstance(gp, ast.Call) and gp.func is par:
                    continue
                return True
            if isinstance(par, ast.Call) and n in par.args:
                f = par.func
                if (isinstance(f, ast.Attribute) and f.attr == 'join') or (isinstance(f, ast.Name) and f.id in self._SEQ_READS):
                    continue
                return True
            if isinstance(par, (ast.For, ast.comprehension)) and par.iter is n:
                continue
            if isinstance(par, ast.Subscript) and par.value is n and isinstance(par.ctx, ast.Load):
                continue
            if isinstance(par, (ast.If, ast.While, ast.UnaryOp, ast.BoolOp, ast.Compare)):
                continue
            if isinstance(par, ast.AugAssign):
                continue
            return True
        return False

    def elements(self, expr, at, seen, depth):
        """Class of the *elements* of a sequence expression handed to ``sep.join(...)``."""
        if depth > 10:
            return T_UNKNOWN
        if isinstance(expr, (ast.List, ast.Tuple, ast.Set)):
            if any(isinstance(e, ast.Starred) for e in expr.elts):
                return self.join([self.elements(e.value, at, seen, depth + 1) if isinstance(e, ast.Starred)
                                  else self.kind(e, at, seen, depth + 1) for e in expr.elts])
            return self.join([self.kind(e, at, seen, depth + 1) for e in expr.elts]) if expr.elts else T_CONST
        if isinstance(expr, ast.Call) and isinstance(expr.func, ast.Name) and expr.func.id in ('list', 'tuple', 'sorted', 'reversed') \
                and len(expr.args) == 1 and not expr.keywords and expr.func.id not in self.params:
            return self.elements(expr.args[0], at, seen, depth + 1)
        if isinstance(expr, ast.BinOp) and isinstance(expr.op, ast.Add):
            return self.join([self.elements(expr.left, at, seen, depth + 1), self.elements(expr.right, at, seen, depth + 1)])
        if isinstance(expr, (ast.ListComp, ast.GeneratorExp, ast.SetComp)):
            k = self.kind(expr.elt, at, seen, depth + 1)
            return k if k in (T_CONST, T_DATA) else T_UNKNOWN
        if isinstance(expr, ast.Name) and expr.id not in self.inner:
            name = expr.id
            stores = [n for n in walk_body(self.fi.node) if isinstance(n, ast.Name) and n.id == name and isinstance(n.ctx, (ast.Store, ast.Del))]
            if stores and name not in self.params:
                # a list assembled in this function: every literal it is bound to, everything appended to it
                key = ('elts', name)
                if key in seen:
                    return T_CONST
                seen = seen | {key}
                kinds = []
                n_bind = 0
                for st in stmts_of(self.fi.node):
                    if isinstance(st, ast.Assign) and any(isinstance(t, ast.Name) and t.id == name for t in st.targets):
                        n_bind += 1
                        kinds.append(self.elements(st.value, st, seen, depth + 1))
                    elif isinstance(st, ast.AnnAssign) and isinstance(st.target, ast.Name) and st.target.id == name and st.value is not None:
                        n_bind += 1
                        kinds.append(self.elements(st.value, st, seen, depth + 1))
                    elif isinstance(st, ast.AugAssign) and isinstance(st.target, ast.Name) and st.target.id == name:
                        n_bind += 1
                        kinds.append(self.elements(st.value, st, seen, depth + 1) if isinstance(st.op, ast.Add) else T_UNKNOWN)
                if n_bind != len(stores) or self._escapes(name):
                    return T_UNKNOWN
                for c in walk_body(self.fi.node):
                    if isinstance(c, ast.Call) and isinstance(c.func, ast.Attribute) and isinstance(c.func.value, ast.Name) and \
                            c.func.value.id == name and c.args:
                        cat = self.stmt_of(c)
                        if c.func.attr in ('append', 'add'):
                            kinds.append(self.kind(c.args[0], cat, seen, depth + 1))
                        elif c.func.attr == 'insert' and len(c.args) == 2:
                            kinds.append(self.kind(c.args[1], cat, seen, depth + 1))
                        elif c.func.attr in ('extend', 'update'):
                            kinds.append(self.elements(c.args[0], cat, seen, depth + 1))
                return self.join(kinds)
        if isinstance(expr, (ast.Name, ast.Attribute, ast.Subscript)) and not (isinstance(expr, ast.Name) and
                                                                              (expr.id in self.params or expr.id in self.inner)):
            v = self._folded(expr)
            if isinstance(v, (list, tuple)) and all(isinstance(x, (str, bytes)) for x in v):
                return T_CONST
        return T_UNKNOWN

    def kind(self, expr, at, seen=frozenset(), depth=0):
        if expr is None or depth > 12:
            return T_UNKNOWN
        rec = lambda e, a=at: self.kind(e, a, seen, depth + 1)
        if isinstance(expr, ast.Constant):
            return self._of_value(expr.value)
        if isinstance(expr, ast.JoinedStr):
            return T_CONST if all(isinstance(v, ast.Constant) for v in expr.values) else T_DATA
        if isinstance(expr, ast.IfExp):
            return self.join([rec(expr.body), rec(expr.orelse)])
        if isinstance(expr, ast.BoolOp):
            return self.join([rec(v) for v in expr.values])
        if isinstance(expr, ast.UnaryOp):
            return T_NUM if isinstance(expr.op, (ast.USub, ast.UAdd, ast.Invert)) else T_UNKNOWN
        if isinstance(expr, ast.BinOp):
            return self.binop(expr.op, rec(expr.left), rec(expr.right))
        if isinstance(expr, ast.Subscript):
            if isinstance(expr.slice, ast.Slice):
                return rec(expr.value)
            v = self._folded(expr)
            if v is not None:
                return self._of_value(v)
            base = self._folded(expr.value) if isinstance(expr.value, (ast.Name, ast.Attribute)) and not (
                isinstance(expr.value, ast.Name) and (expr.value.id in self.params or expr.value.id in self.inner or
                                                      self.flow.defs.get(expr.value.id))) else None
            if isinstance(base, dict) and base and all(isinstance(x, (str, bytes)) for x in base.values()):
                return T_CONST     # one entry of a constant table of templates
            if isinstance(base, (list, tuple)) and base and all(isinstance(x, (str, bytes)) for x in base):
                return T_CONST
            return T_UNKNOWN
        if isinstance(expr, ast.Call):
            f = expr.func
            if isinstance(f, ast.Attribute):
                if f.attr == 'join' and len(expr.args) == 1 and not expr.keywords:
                    sep = rec(f.value)
                    if sep in (T_CONST, T_DATA):
                        el = self.elements(expr.args[0], at, seen, depth + 1)
                        return T_CONST if (sep == T_CONST and el == T_CONST) else T_DATA
                    return T_UNKNOWN
                if f.attr in ('format', 'format_map'):
                    recv = rec(f.value)
                    if recv in (T_CONST, T_DATA):
                        args = [rec(a) for a in expr.args] + [rec(k.value) for k in expr.keywords]
                        return T_CONST if recv == T_CONST and all(a == T_CONST for a in args) and f.attr == 'format' else T_DATA
                    return T_UNKNOWN
                if f.attr in _TEXT_METHODS:
                    recv = rec(f.value)
                    if recv == T_CONST:
                        args = [rec(a) for a in expr.args] + [rec(k.value) for k in expr.keywords]
                        return T_CONST if all(a in (T_CONST, T_NUM) for a in args) else T_DATA
                    return recv if recv == T_DATA else T_UNKNOWN
                return self._call_result(expr, at, seen, depth)
            if isinstance(f, ast.Name) and f.id not in self.params and f.id not in self.inner and not self.flow.defs.get(f.id):
                shadowed = f.id in self.fi.mod.functions or f.id in self.fi.mod.classes or f.id in self.fi.mod.imports or \
                    f.id in self.fi.mod.assigns
                if not shadowed:
                    if f.id in _NUM_CALLS:
                        return T_NUM
                    if f.id in _TEXT_CALLS:
                        return T_DATA
                return self._call_result(expr, at, seen, depth)
            return T_UNKNOWN
        if isinstance(expr, ast.Name):
            name = expr.id
            if name in self.inner:
                return T_UNKNOWN
            if at is None:
                return T_UNKNOWN
            ds = self.flow.reaching(name, at)
            if not self.flow.defs.get(name):
                if name in self.params:
                    return T_UNKNOWN
                v = self._folded(expr)
                return self._of_value(v) if v is not None else T_UNKNOWN
            kinds = []
            for d in ds:
                key = (name, id(d.stmt))
                if key in seen:
                    continue          # around a cycle (x = x + ...): the other definitions decide
                s2 = seen | {key}
                if d.kind == 'assign' and d.idx is None and d.value is not None:
                    kinds.append(self.kind(d.value, d.stmt, s2, depth + 1))
                elif d.kind == 'aug' and isinstance(d.stmt, ast.AugAssign):
                    before = self.kind(ast.copy_location(ast.Name(id=name, ctx=ast.Load()), d.stmt), d.stmt, s2, depth + 1)
                    kinds.append(self.binop(d.stmt.op, before, self.kind(d.stmt.value, d.stmt, s2, depth + 1)))
                else:
                    kinds.append(T_UNKNOWN)
            return self.join(kinds)
        if isinstance(expr, ast.Attribute):
            v = self._folded(expr)
            return self._of_value(v) if v is not None else T_UNKNOWN
        return T_UNKNOWN

    def why(self, expr, at, depth=0):
        """Where the data in a T_DATA template comes from (for the message): the binding(s) of the locals on the way."""
        if isinstance(expr, ast.Name) and depth < 3 and at is not None:
            for d in self.flow.reaching(expr.id, at):
                v = d.value if d.kind == 'assign' and d.idx is None else (
                    d.stmt.value if d.kind == 'aug' and isinstance(d.stmt, ast.AugAssign) else None)
                if v is not None and self.kind(v, d.stmt) == T_DATA:
                    inner = [self.why(n, d.stmt, depth + 1) for n in ast.walk(v) if isinstance(n, ast.Name) and n.id != expr.id]
                    return '%s = %s' % (expr.id, short(v, 70)) + ''.join('; ' + x for x in inner[:2] if x)
            return ''
        if isinstance(expr, ast.AST) and depth < 3:
            parts = [self.why(n, at, depth + 1) for n in ast.iter_child_nodes(expr)]
            return '; '.join(x for x in parts if x)
        return ''

    def _call_result(self, call, at, seen, depth):
        """A call of a parameterless-in-effect helper of the analysed tree that returns a constant template."""
        try:
            g = follow_resolver(self.repo, self.fi)(call)
        except Exception:
            g = None
        if g is None or depth > 6:
            return T_UNKNOWN
        rets = returns_of(g)
        if not rets or any(r.value is None for r in rets):
            return T_UNKNOWN
        key = ('call', g.key)
        if key in seen:
            return T_UNKNOWN
        sub = _Templates(self.repo, g)
        kinds = [sub.kind(r.value, r, seen | {key}, depth + 1) for r in rets]
        k = self.join(kinds)
        # the helper's own parameters are T_UNKNOWN inside it, so T_CONST / T_DATA do not depend on the arguments
        return k if k in (T_CONST, T_DATA) else T_UNKNOWN


def format_sinks(fnode):
    """(node, template expression, spelling) of every ``<template>.format(...)`` / ``.format_map(...)`` /
    ``<template> % ...`` in a function body (lambdas included, nested defs not)."""
    todo = list(fnode.body)
    while todo:
        n = todo.pop()
        if isinstance(n, (ast.FunctionDef, ast.AsyncFunctionDef, ast.ClassDef)):
            continue
        if isinstance(n, ast.Call) and isinstance(n.func, ast.Attribute) and n.func.attr in ('format', 'format_map'):
            yield n, n.func.value, '.' + n.func.attr
        elif isinstance(n, ast.BinOp) and isinstance(n.op, ast.Mod):
            yield n, n.left, '%'
        elif isinstance(n, ast.AugAssign) and isinstance(n.op, ast.Mod):
            yield n, n.target, '%='
        todo.extend(ast.iter_child_nodes(n))


def run(rep):
    repo = rep.repo
    simple = repo.mod(SIMPLE)
    tabular = repo.mod(TABULAR)
    errors = repo.mod('clastic.errors')
    rep.decide('R17.a names resolve; R17.b no type-confused classification tests; R17.c label follows test / '
               'classification order, empty text is text; R17.d dev-mode fallback; R17.e format tables agree; '
               'R17.f format templates are constants; R17.g conversion methods are called on instances only (kinds of value); '
               'R17.h no per-request state on the shared renderers; R17.i 200 status, returns on every path, raises only for an '
               'explicit unknown format; R17.k provenance / precedence of the negotiated mime; R17.l JSON bodies come from the '
               'renderer\'s own encoder applied to the endpoint result, JSONP padding, re-chunkers keep the order; R17.m optional '
               'FunctionBuilder attributes are used as text only behind a presence test; R17.n the text classification is total: '
               'calls handed the text that can raise for some texts are under a handler for every class they raise')
    rep.decline('JSON validity and round trip of the stdlib encoder\'s output, HTML table shapes (third-party Table), the answer of '
                'best_match for a given Accept header (values of third-party code)')
    rep.assume('request.args / accept_mimetypes behave as in werkzeug 1.0.1')

    def g_names():
        # ---- R17.a -----------------------------------------------------------
        rep.rule('R17.a', 'every global Name load resolves (symtable), in the render modules and every clastic '
                          'function reachable from the renderer entry points')
        cg = CallGraph(repo)
        roots = [simple.func('BasicRender.render_response'), simple.func('BasicRender._serialize_to_resp'),
                 simple.func('JSONRender.__call__'), simple.func('JSONPRender.__call__'),
                 simple.func('ClasticJSONEncoder.default'), tabular.func('TabularRender.context_to_response')]
        reach = cg.reachable(roots, kinds=('call', 'self', 'super', 'new', 'role', 'prop', 'classattr', 'instance-call'))
        extra = {}
        for f in reach:
            if f.mod not in (simple, tabular) and not f.mod.external:
                extra.setdefault(f.mod, set()).add(f.qualname)
        check_unbound(rep, 'R17.a', [simple, tabular])
        for m, quals in extra.items():
            check_unbound(rep, 'R17.a', [m], scope_filter=lambda mm, sc, quals=quals: sc in quals)
        rep.floor('R17.a', 20)

    TYPES = TEXT + EMPTY_TEXT + ('sized', 'unsized')
    SHOW = {'str0': 'empty str', 'bytes0': 'empty bytes'}
    _rr = {}

    def get_rr():
        """(render_response, name of its endpoint-result parameter, {abstract result type: symbolic paths})."""
        if not _rr:
            rr = simple.func('BasicRender.render_response')
            rr_params = [p for p in rr.params() if p not in ('self', 'cls')]
            if not rr_params:
                raise AnalysisError('BasicRender.render_response takes no endpoint result')
            ctx_param = 'context' if 'context' in rr_params else rr_params[0]
            paths = dict((T, sym_paths(rr, _decide_typed(simple, ctx_param, T), fold=lambda e: _fold_names(repo, rr, e),
                                       resolve=follow_resolver(repo, rr, keep=('_guess_json', '_serialize_to_resp'))))
                         for T in TYPES)
            _rr['v'] = (rr, ctx_param, paths)
        return _rr['v']

    def sniffs(st):
        """[(kind, searched / guessed value, original test node, polarity)] of the free sniffing tests of a path."""
        out = []
        for key, atom, orig, pol, decided in st.trace:
            k, arg = _sniff_kind(atom)
            if k is not None and not decided:
                out.append((k, arg, orig, pol))
        return out

    def g_guess():
        # ---- R17.b -----------------------------------------------------------
        rep.rule('R17.b', 'no bytes/str/int type confusion in classification tests; _guess_json labels are feasible')
        gj = simple.functions.get('BasicRender._guess_json') or simple.functions.get('_guess_json') or \
            _guess_by_role(repo, simple, get_rr()[0])
        if gj is None:
            raise AnalysisError('anchor vanished: function %s::BasicRender._guess_json' % SIMPLE)
        repo.functions_touched.add(gj.key)
        gj_params = [p for p in gj.params() if p not in ('self', 'cls')]
        bnames = _bytes_typed_names(repo, gj)
        if not bnames:
            # fall back: the single positional parameter, if every call in render_response passes a bytes-typed value
            rr, ctx_param, paths = get_rr()
            args = [(T, a) for T in ('str', 'bytes') for st in paths[T] for k, a, o, p in sniffs(st) if k == 'gj']
            if len(gj_params) == 1 and args and all(_abs_type(a, ctx_param, T) == 'bytes' for T, a in args):
                bnames = {gj_params[0]}
        if not bnames or len(gj_params) != 1:
            raise AnalysisError('cannot establish that _guess_json receives bytes')
        confusions = list(type_confusions(gj.node, bnames))
        for n, why in confusions:
            rep.fail('R17.b', fkey(gj, n), why, simple, n)
        if not confusions:
            rep.ok('R17.b', fkey(gj), 'no constant-false or TypeError-raising test on the bytes parameter %s' % sorted(bnames), simple, gj.node)
        # label feasibility is decided from the shape of the function (path conditions of each ``return True``);
        # the function is never evaluated on sample bodies
        _gj_structural(rep, repo, simple, gj, bnames, 'shape')

    def g_text_total():
        # ---- R17.n (vt/props/c17_total.py) -------------------------------------
        import sys
        from . import c17_total
        rr = simple.func('BasicRender.render_response')
        rr_params = [p for p in rr.params() if p not in ('self', 'cls')]
        if not rr_params:
            raise AnalysisError('BasicRender.render_response takes no endpoint result')
        gj = simple.functions.get('BasicRender._guess_json') or simple.functions.get('_guess_json') or _guess_by_role(repo, simple, rr)
        c17_total.check_text_total(rep, repo, sys.modules[__name__], rr, 'context' if 'context' in rr_params else rr_params[0], gj)

    def g_render():
        rr, ctx_param, paths = get_rr()
        # the caller side: the sniffing tests of render_response on text results
        rr_conf, seen = [], set()
        n_tests = 0
        for T in ('str', 'bytes'):
            for st in paths[T]:
                for key, atom, orig, pol, decided in st.trace:
                    n_tests += 1
                    for x, why in type_confusions([ast.Expr(value=atom)], {ctx_param} if T == 'bytes' else set()):
                        if id(orig) not in seen:
                            seen.add(id(orig))
                            rr_conf.append((orig, why))
        if not n_tests:
            raise AnalysisError('render_response: no classification tests found')
        for x, why in rr_conf:
            rep.fail('R17.b', fkey(rr, x), why, simple, x)
        if not rr_conf:
            rep.ok('R17.b', fkey(rr), 'sniffing tests on the bytes context are type-consistent', simple, rr.node)

        # ---- R17.c -----------------------------------------------------------
        rep.rule('R17.c', 'each Response label is decided by its classification test (json guess, then html sniff, else plain) '
                          'on the encoded text; unsized values are stringified; Sized values go to _serialize_to_resp')

        def label_of(st):
            """(mimetype, body expr) of a path that returns Response(body, mimetype=<constant>), else (None, None)."""
            if st.term[0] != 'return' or not _is_response(simple, st.term[1]):
                return None, None
            v = st.term[1]
            mt = _fold_const(repo, rr, argn(v, 'mimetype', 3))
            return (mt if isinstance(mt, str) else None), argn(v, 'response', 0)

        def term_text(st):
            return 'falls off the end (returns None)' if st.term[0] == 'fall' else \
                ('raises %s' % short(st.term[1], 60) if st.term[0] == 'raise' else 'returns %s' % short(st.term[1], 80))

        def path_text(st):
            return '; '.join('%s%s' % ('' if c[3] else 'not ', short(c[2], 50)) for c in st.trace) or 'unconditionally'

        for T in TYPES:
            for st in paths[T]:
                v = st.term[1]
                if st.term[0] == 'return' and _is_response(simple, v) and \
                        argn(v, 'mimetype', 3) is not None and label_of(st)[0] is None:
                    raise AnalysisError('render_response: the mimetype %s of a returned Response is not a constant the analysis '
                                        'can follow' % short(argn(v, 'mimetype', 3), 60))
        free_text = [(T, st, c) for T in TEXT + EMPTY_TEXT for st in paths[T] for c in st.free()]
        symbolic = bool(free_text) and all(_sniff_kind(c[1])[0] is not None for T, st, c in free_text)
        if not symbolic:
            # some test of the text branch is not one of the two sniffs as such (a guess helper dissolved into its
            # caller, a combined test): the labels cannot be decided from the shape, and the tests are never run
            raise AnalysisError('render_response: a test of the text branch is not a recognisable JSON / HTML sniff (%s)'
                                % '; '.join(sorted(set(short(c[2], 50) for T, st, c in free_text if _sniff_kind(c[1])[0] is None))[:3]))
        if symbolic:
            expected = {(True, True): 'application/json', (True, False): 'application/json', (False, True): 'text/html',
                        (False, False): 'text/plain'}
            for T in ('str', 'bytes'):
                for (g, h), want in sorted(expected.items(), reverse=True):
                    cons = [st for st in paths[T]
                            if all(not (k == 'gj' and p is not g) and not (k == 'html' and p is not h) for k, a, o, p in sniffs(st))]
                    bad = [st for st in cons if label_of(st)[0] != want]
                    # the body must be the endpoint's text (as given or encoded)
                    badbody = [st for st in cons if st not in bad and not (
                        _abs_type(label_of(st)[1], ctx_param, T) in ('str', 'bytes') and
                        ctx_param in [n.id for n in ast.walk(label_of(st)[1]) if isinstance(n, ast.Name)])]
                    ok = bool(cons) and not bad and not badbody
                    what = '%s result, json guess %s, html sniff %s' % (T, 'true' if g else 'false', 'true' if h else 'false')
                    if ok:
                        detail = '%s is labelled %s on every path (%d)' % (what, want, len(cons))
                    elif not cons:
                        detail = 'no path of render_response serves a %s' % what
                    elif bad:
                        detail = '%s must be labelled %s, but the path [%s] %s' % (what, want, path_text(bad[0]), term_text(bad[0]))
                    else:
                        detail = '%s: the response body %s is not the endpoint result' % (what, short(label_of(badbody[0])[1], 60))
                    where = (bad or badbody or cons or [None])[0]
                    rep.check('R17.c', fkey(rr, 'label %s: %s' % (want, what)), ok, detail, simple,
                              where.term[2] if where is not None and where.term[2] is not None else rr.node)
            # the empty text is text: '' and b'' take the text branch like every other str / bytes result (no JSON
            # container, no HTML document: text/plain) -- a truthiness / length test on the text value (or on its
            # encoded form) must not decide between "already serialized" and "still to be serialized"
            for T in EMPTY_TEXT:
                cons = [st for st in paths[T] if all(p is False for k, a, o, p in sniffs(st))]
                bad = [st for st in cons if label_of(st)[0] != 'text/plain']

                def empty_body(b):
                    return b is not None and _abs_type(b, ctx_param, T) in TEXT and _abs_empty(b, ctx_param, T) is True
                badbody = [st for st in cons if st not in bad and not empty_body(label_of(st)[1])]
                ok = bool(cons) and not bad and not badbody
                what = '%s result' % SHOW[T]
                if ok:
                    detail = '%s is labelled text/plain on every path (%d)' % (what, len(cons))
                elif not cons:
                    detail = 'no path of render_response serves an %s' % what
                elif bad:
                    detail = ('the %s is text and must be labelled text/plain like any other text, but the path [%s] %s'
                              % (what, path_text(bad[0]), term_text(bad[0])))
                else:
                    detail = '%s: the response body %s is not the (empty) endpoint result' % (what, short(label_of(badbody[0])[1], 60))
                where = (bad or badbody or cons or [None])[0]
                rep.check('R17.c', fkey(rr, 'label text/plain: %s' % what), ok, detail, simple,
                          where.term[2] if where is not None and where.term[2] is not None else rr.node)
            # str is encoded before the bytes classification: every sniff of a text result looks at bytes
            for T in ('str', 'bytes'):
                sn = [(k, a, o, st) for st in paths[T] for k, a, o, p in sniffs(st)]
                wrong = [(k, a, o, st) for k, a, o, st in sn if _abs_type(a, ctx_param, T) != 'bytes']
                kinds = set(k for k, a, o, st in sn)
                ok = kinds == {'gj', 'html'} and not wrong
                rep.check('R17.c', fkey(rr, 'encode-before-classify' if T == 'str' else 'classify bytes'), ok,
                          ('str contexts are encoded and then flow into the bytes classification' if T == 'str' else
                           'bytes contexts are classified as they are') if ok else
                          ('text is not encoded before the bytes classification (str results would skip the sniffing): %s'
                           % (short(wrong[0][2], 60) + ' looks at ' + short(wrong[0][1], 40) if wrong else 'sniffing tests missing'))
                          if T == 'str' else 'the classification of bytes results does not run both sniffing tests on the bytes value',
                          simple, wrong[0][2] if wrong else rr.node)
        # not Sized -> stringified text/plain
        good_all, first_bad = bool(paths['unsized']), None
        for st in paths['unsized']:
            mt, a0 = label_of(st)
            good = mt == 'text/plain' and a0 is not None and (
                (isinstance(a0, ast.Call) and isinstance(a0.func, ast.Name) and a0.args and norm(a0.args[0]) == ctx_param) or
                (isinstance(a0, (ast.JoinedStr, ast.BinOp)) and ctx_param in [n.id for n in ast.walk(a0) if isinstance(n, ast.Name)]) or
                (isinstance(a0, ast.Call) and isinstance(a0.func, ast.Attribute) and a0.func.attr == 'format'
                 and ctx_param in [norm(x) for x in a0.args]))
            if not good and first_bad is None:
                good_all, first_bad = False, st
        rep.check('R17.c', fkey(rr, 'stringify'), good_all,
                  'non-Sized values are rendered as text/plain text on every path (%d)' % len(paths['unsized']) if good_all else
                  'a non-Sized value is not stringified into a text/plain Response: the path [%s] %s'
                  % (path_text(first_bad), term_text(first_bad)) if first_bad is not None else 'no path serves non-Sized values',
                  simple, first_bad.term[2] if first_bad is not None and first_bad.term[2] is not None else rr.node)
        # everything else -> _serialize_to_resp
        first_bad = None
        for st in paths['sized']:
            v = st.term[1] if st.term[0] == 'return' else None
            good = isinstance(v, ast.Call) and call_tail(v) == '_serialize_to_resp' and \
                norm(argn(v, 'context', 0)) == ctx_param
            if not good and first_bad is None:
                first_bad = st
        ok = bool(paths['sized']) and first_bad is None
        rep.check('R17.c', fkey(rr, 'serialize'), ok,
                  'Sized non-text contexts are handed to _serialize_to_resp on every path (%d)' % len(paths['sized']) if ok else
                  '_serialize_to_resp is not the continuation for Sized non-text contexts: the path [%s] %s'
                  % (path_text(first_bad), term_text(first_bad)) if first_bad is not None else 'no path serves Sized values',
                  simple, first_bad.term[2] if first_bad is not None and first_bad.term[2] is not None else rr.node)
        # all paths of render_response end in a return of a call (Response / renderer), none applies a text method to the wrong type
        bad = []
        for T in TYPES:
            for st in paths[T]:
                if st.term[0] != 'return' or not isinstance(st.term[1], ast.Call):
                    bad.append((T, st, term_text(st)))
                    continue
                errs = [e for x in [st.term[1]] + [c[1] for c in st.trace] + list(st.env.values()) for e in _type_errors(x, ctx_param, T)]
                if errs:
                    bad.append((T, st, 'evaluates %s (AttributeError)' % short(errs[0], 60)))
        rep.check('R17.c', fkey(rr, 'returns'), not bad,
                  'every path returns a constructed response' if not bad else
                  'for a %s result the path [%s] %s' % (SHOW.get(bad[0][0], bad[0][0]), path_text(bad[0][1]), bad[0][2]), simple,
                  bad[0][1].term[2] if bad and bad[0][1].term[2] is not None else rr.node)
    def g_serialize():
        # _serialize_to_resp branches
        sr = simple.func('BasicRender._serialize_to_resp')
        want_map = {'application/json': 'json_render', 'text/html': 'tabular_render'}
        branch_mimes = set()
        n_branches = 0

        def renderer_of(call):
            t = call_tail(call)
            if isinstance(call.func, ast.Name):
                vals = [v for (_s, v, i) in assigned_value(sr.node, call.func.id)]
                if len(vals) == 1 and isinstance(vals[0], ast.Attribute):
                    t = vals[0].attr
            return t
        # ---- R17.e -----------------------------------------------------------
        rep.rule('R17.e', '_format_mime_map, _default_mime and the branches of _serialize_to_resp agree')
        br = simple.cls('BasicRender')

        def fold_table(expr):
            try:
                return repo.fold(expr, simple)
            except Exception:
                if isinstance(expr, ast.Call) and isinstance(expr.func, ast.Name) and expr.func.id == 'dict' and \
                        all(k.arg is not None for k in expr.keywords):
                    d = dict(repo.fold(expr.args[0], simple)) if expr.args else {}
                    d.update((k.arg, repo.fold(k.value, simple)) for k in expr.keywords)
                    return d
                raise
        try:
            fmm = fold_table(repo.class_attr(br, '_format_mime_map')[1])
            dm = repo.fold(repo.class_attr(br, '_default_mime')[1], simple)
            if not isinstance(fmm, dict) or not isinstance(dm, str):
                raise ValueError('not a table')
        except Exception as e:
            raise AnalysisError('cannot fold BasicRender format tables: %s' % e)
        for r in returns_of(sr):
            v = r.value
            if isinstance(v, ast.Call) and renderer_of(v) in ('json_render', 'tabular_render'):
                n_branches += 1
                cs = conds(sr, r)
                fold_ = lambda a: _fold_const(repo, sr, a)
                mimes = _mime_tests(cs, fold_)
                if not mimes:
                    # the fall-through renderer: serves whatever the tests before it did not pick from the table
                    neg = _mime_tests([(t, not p) for t, p in cs], fold_)
                    rest = sorted(set(fmm.values()) - set(neg))
                    if neg and len(rest) == 1:
                        mimes = rest
                ok = len(set(mimes)) == 1 and want_map.get(mimes[0]) == renderer_of(v)
                if ok:
                    branch_mimes.add(mimes[0])
                rep.check('R17.c', fkey(sr, 'branch ' + renderer_of(v)), ok,
                          '%s serves %s' % (renderer_of(v), mimes) if ok else
                          '%s is returned under mime test %r (expected %s)' % (renderer_of(v), mimes,
                                                                                  [k for k, x in want_map.items() if x == renderer_of(v)]),
                          simple, r)
        if not n_branches:
            raise AnalysisError('_serialize_to_resp: the returns that call json_render / tabular_render were not found')
        for fmt, mime in sorted(fmm.items()):
            rep.check('R17.e', '%s::BasicRender._format_mime_map[%s]' % (SIMPLE, fmt), mime in branch_mimes,
                      'format %r -> %r has a serving branch' % (fmt, mime) if mime in branch_mimes else
                      'format %r maps to %r which no branch of _serialize_to_resp serves' % (fmt, mime), simple, sr.node)
        rep.check('R17.e', '%s::BasicRender._default_mime' % SIMPLE, dm in fmm.values() and dm in branch_mimes,
                  'default mime %r is a supported, served format' % dm if dm in fmm.values() and dm in branch_mimes else
                  'default mime %r is not among the served formats %r' % (dm, sorted(branch_mimes)), simple, sr.node)
        # unsupported explicit format is rejected with ValueError (documented escape hatch), never mis-served
        rz = [r for r in raises_of(sr) if raise_type(r) == 'ValueError']
        rep.check('R17.e', fkey(sr, 'unsupported format'), bool(rz), 'unsupported ?format= is rejected explicitly' if rz else
                  'unsupported ?format= values are no longer rejected', simple, sr.node)
        rep.floor('R17.e', 3)
    def g_encoder():
        # ---- R17.d -----------------------------------------------------------
        rep.rule('R17.d', 'TypeError from the encoder only when dev_mode is false; shipped renderers are dev-mode')
        de = simple.func('ClasticJSONEncoder.default')
        de_params = [p for p in de.params() if p not in ('self', 'cls')]
        obj_param = de_params[0] if de_params else 'obj'
        is_dev = lambda t: norm(t) == 'self.dev_mode'
        # the fallback may live in a method default() ends in (return self.fallback(obj)): follow it one level
        res = follow_resolver(repo, de)
        bodies = [(de, obj_param)]
        for r in returns_of(de):
            if isinstance(r.value, ast.Call) and res(r.value) is not None and any(norm(a) == obj_param for a in r.value.args):
                callee = res(r.value)
                cps = [p for p in callee.params() if p not in ('self', 'cls')]
                idx = [norm(a) for a in r.value.args].index(obj_param)
                if callee not in [b[0] for b in bodies] and idx < len(cps):
                    bodies.append((callee, cps[idx]))
        n_raise = 0
        for f_, objp in bodies:
            for r in raises_of(f_):
                if raise_type(r) == 'TypeError':
                    n_raise += 1
                    cs = conds(f_, r)
                    ok = has_cond(cs, is_dev, False)
                    rep.check('R17.d', fkey(f_, 'raise TypeError'), ok,
                              'raise is reachable only when self.dev_mode is false' if ok else
                              'TypeError can be raised although dev_mode is true (conditions: %s)' % '; '.join(cond_texts(cs)),
                              f_.mod, r)
        reprs = [r for f_, objp in bodies for r in returns_of(f_) if r.value is not None and
                 (_is_repr_of(r.value, objp) or (isinstance(r.value, ast.Call) and call_name(r.value) == 'repr'))
                 and has_cond(conds(f_, r), is_dev, True)]
        if not reprs and not n_raise and not any('dev_mode' in norm(n) for f_, o in bodies for n in walk_body(f_.node)
                                                 if isinstance(n, ast.Attribute)):
            raise AnalysisError('ClasticJSONEncoder.default: the dev-mode fallback (repr / TypeError) was not found')
        rep.check('R17.d', fkey(de, 'return repr'), bool(reprs),
                  'dev mode degrades unknown objects to repr(obj)' if reprs else
                  'no "return repr(obj)" under self.dev_mode', simple, de.node)
        # default() never falls off the end
        cfg_de = cfg_of(de)
        falls = cfg_de.exit in cfg_de.reach([cfg_de.entry], avoid=set(cfg_de.nodes_of_all(returns_of(de))), normal_only=True)
        rep.check('R17.d', fkey(de, 'total'), not falls, 'default() returns or raises on every path' if not falls else
                  'default() can fall off the end and return None', simple, de.node)
        # conversions of the object that can fail on its *content* (decoding, parsing) must be attempts, like the
        # dict()/list() attempts next to them: an unguarded one turns "degrade to repr" into an exception
        from .common import protected_by
        converters = ('dict', 'list', 'int', 'float', 'tuple', 'set', 'frozenset', 'sorted')
        n_att = 0
        for c in walk_body(de.node):
            if not isinstance(c, ast.Call):
                continue
            fname = c.func.id if isinstance(c.func, ast.Name) else None
            if fname is not None and fname not in converters:
                # a local that ranges over converter callables:  for conv in (dict, list): ... conv(obj)
                vals = assigned_value(de.node, fname)
                its = [v for (_s, v, i) in vals if i == 'iter' and isinstance(v, (ast.Tuple, ast.List))]
                if len(vals) == 1 and its and all(isinstance(e, ast.Name) and e.id in converters for e in its[0].elts):
                    fname = its[0].elts[0].id
                else:
                    fname = None
            if call_tail(c) in ('decode', 'loads', 'fromhex', 'unhexlify', 'b64decode') or fname in converters:
                n_att += 1
                h = protected_by(de, c, 'ValueError')
                ok = (h is not None and not any(isinstance(x, ast.Raise) for x in ast.walk(h))) or _suppressed(de, c)
                rep.check('R17.d', fkey(de, c), ok, 'conversion attempt %s is guarded (falls through to the next strategy)' % short(c, 40) if ok else
                          'conversion %s in ClasticJSONEncoder.default is unguarded: a value it cannot convert (e.g. non-UTF-8 bytes) raises '
                          'instead of degrading' % short(c, 60), simple, c)
        if n_att < 2:
            raise AnalysisError('ClasticJSONEncoder.default: conversion attempts not found')

        # construction sites
        def dev_arg(fi_, call):
            return _call_arg(repo, fi_.mod if fi_ is not None else simple, call, 'dev_mode', fi_)

        def popped_default(fi_, expr):
            """(True, default) when expr reads the 'dev_mode' option: kwargs.pop/get('dev_mode', default) or a parameter."""
            if isinstance(expr, ast.Call) and call_tail(expr) in ('pop', 'get') and expr.args and \
                    isinstance(expr.args[0], ast.Constant) and expr.args[0].value == 'dev_mode':
                return True, (_fold_const(repo, fi_, expr.args[1]) if len(expr.args) > 1 else None)
            if isinstance(expr, ast.Name):
                a = fi_.node.args
                ps = a.posonlyargs + a.args
                ds = dict(zip([p.arg for p in ps][len(ps) - len(a.defaults):], a.defaults))
                ds.update((p.arg, d) for p, d in zip(a.kwonlyargs, a.kw_defaults) if d is not None)
                if expr.id == 'dev_mode' and expr.id in fi_.params() and not assigned_value(fi_.node, expr.id):
                    return True, (_fold_const(repo, None, ds[expr.id]) if expr.id in ds else None)
                vals = assigned_value(fi_.node, expr.id)
                if len(vals) == 1 and vals[0][2] is None and isinstance(vals[0][1], ast.expr) and not isinstance(vals[0][1], ast.Name):
                    return popped_default(fi_, vals[0][1])
            return False, None

        def is_own_dev(fi_, expr):
            """expr is the dev_mode of the instance under construction / in use: self.dev_mode, the dev_mode parameter, or a
            local that is stored into self.dev_mode / reads the dev_mode option."""
            if expr is None:
                return False
            if norm(expr) == 'self.dev_mode':
                return True
            if isinstance(expr, ast.Name):
                if popped_default(fi_, expr)[0]:
                    return True
                return any(isinstance(s, ast.Assign) and norm(s.targets[0]) == 'self.dev_mode' and norm(s.value) == expr.id
                           for s in stmts_of(fi_.node))
            return False

        br_init = simple.func('BasicRender.__init__')
        sets = [s for s in stmts_of(br_init.node) if isinstance(s, ast.Assign) and norm(s.targets[0]) == 'self.dev_mode']
        found = [popped_default(br_init, s.value) for s in sets]
        if not sets:
            raise AnalysisError('BasicRender.__init__: the assignment of self.dev_mode was not found')
        ok = len(sets) == 1 and found[0][0] and found[0][1] is True
        rep.check('R17.d', fkey(br_init, "kwargs.pop('dev_mode')"), ok, 'BasicRender defaults to dev_mode=True' if ok else
                  'BasicRender no longer defaults dev_mode to True', simple, sets[0])
        jr_in_br = [c for c in walk_body(br_init.node) if isinstance(c, ast.Call) and call_tail(c) == 'JSONRender']
        ok = bool(jr_in_br) and all(is_own_dev(br_init, dev_arg(br_init, c)) for c in jr_in_br)
        rep.check('R17.d', fkey(br_init, 'JSONRender(dev_mode=self.dev_mode)'), ok,
                  'BasicRender builds its JSONRender with its own dev_mode' if ok else 'BasicRender does not forward dev_mode to JSONRender',
                  simple, br_init.node)
        jr_init = simple.func('JSONRender.__init__')
        enc_calls = [c for c in walk_body(jr_init.node) if isinstance(c, ast.Call) and call_tail(c) == 'ClasticJSONEncoder']
        ok = bool(enc_calls) and all(is_own_dev(jr_init, dev_arg(jr_init, c)) for c in enc_calls)
        rep.check('R17.d', fkey(jr_init, 'ClasticJSONEncoder(dev_mode=...)'), ok,
                  'JSONRender forwards dev_mode to its encoder' if ok else 'JSONRender does not forward dev_mode to the encoder',
                  simple, jr_init.node)
        # every encoder / JSON renderer constructed by a renderer class forwards the renderer's dev_mode
        # (a subclass that rebuilds self.json_encoder without it silently leaves dev mode)
        for q, fi_ in sorted(simple.functions.items()):
            if fi_.cls is None or q in ('JSONRender.__init__', 'BasicRender.__init__'):
                continue
            for c in walk_body(fi_.node):
                if isinstance(c, ast.Call) and call_tail(c) in ('ClasticJSONEncoder', 'JSONRender', 'JSONPRender'):
                    dv = dev_arg(fi_, c)
                    ok = dv is not None and (is_own_dev(fi_, dv) or _fold_const(repo, fi_, dv) is True)
                    rep.check('R17.d', fkey(fi_, c), ok, 'encoder/renderer constructed with the instance\'s dev_mode' if ok else
                              '%s constructs %s without forwarding dev_mode: unknown objects raise TypeError instead of degrading to repr'
                              % (q, call_tail(c)), simple, c)
        # and nobody re-binds the encoder of a renderer after construction
        for q, fi_ in sorted(simple.functions.items()):
            for s in stmts_of(fi_.node):
                if isinstance(s, ast.Assign) and norm(s.targets[0]) == 'self.json_encoder' and q != 'JSONRender.__init__':
                    v = s.value
                    ok = isinstance(v, ast.Call) and is_own_dev(fi_, dev_arg(fi_, v))
                    rep.check('R17.d', fkey(fi_, 'self.json_encoder'), ok, 're-bound encoder keeps dev_mode' if ok else
                              '%s re-binds self.json_encoder without dev_mode' % q, simple, s)
        enc_init = simple.func('ClasticJSONEncoder.__init__')
        sets = [s for s in stmts_of(enc_init.node) if isinstance(s, ast.Assign) and norm(s.targets[0]) == 'self.dev_mode']
        ok = len(sets) == 1 and popped_default(enc_init, sets[0].value)[0]
        rep.check('R17.d', fkey(enc_init, 'self.dev_mode'), ok, 'encoder takes dev_mode from its keyword' if ok else
                  'encoder no longer stores the dev_mode keyword', simple, enc_init.node)
        for name, want_dev in (('render_basic', None), ('render_json_dev', True)):
            vals = simple.assigns.get(name, [])
            ok = len(vals) == 1 and isinstance(vals[0], ast.Call)
            if ok:
                dv = _call_arg(repo, simple, vals[0], 'dev_mode')
                if want_dev is True:
                    ok = dv is not None and repo.try_fold(dv, simple) is True
                else:
                    ok = call_name(vals[0]) == 'BasicRender' and (dv is None or repo.try_fold(dv, simple) is True)
            rep.check('R17.d', '%s::%s' % (SIMPLE, name), ok, '%s is constructed in dev mode' % name if ok else
                      '%s is not constructed in dev mode' % name, simple, vals[0] if vals else None)
        tj = errors.func('HTTPException.to_json')
        encs = [(tj, c) for c in walk_body(tj.node) if isinstance(c, ast.Call) and call_tail(c) == 'ClasticJSONEncoder']
        # an encoder built once at module / class level and used by to_json
        for n in walk_body(tj.node):
            v = None
            if isinstance(n, ast.Name) and isinstance(n.ctx, ast.Load) and len(errors.assigns.get(n.id, [])) == 1:
                v = errors.assigns[n.id][0]
            elif isinstance(n, ast.Attribute) and isinstance(n.value, ast.Name) and n.value.id in ('self', 'cls') and tj.cls is not None:
                v = repo.class_attr(tj.cls, n.attr)[1]
            if isinstance(v, ast.Call) and call_tail(v) == 'ClasticJSONEncoder':
                encs.append((None, v))
        if not encs:
            raise AnalysisError('HTTPException.to_json: the ClasticJSONEncoder it encodes with was not found')
        ok = all(_fold_const(repo, f_, _call_arg(repo, errors, c, 'dev_mode', f_)) is True if f_ is not None else
                 repo.try_fold(_call_arg(repo, errors, c, 'dev_mode') or ast.Constant(value=None), errors) is True for f_, c in encs)
        rep.check('R17.d', fkey(tj, 'ClasticJSONEncoder'), ok, 'error JSON is encoded in dev mode (never raises on odd details)' if ok else
                  'HTTPException.to_json does not use a dev-mode encoder', errors, tj.node)

    def g_templates():
        # ---- R17.f -----------------------------------------------------------
        rep.rule('R17.f', 'every .format(...) / .format_map(...) / % on the render paths formats a template made of string '
                          'constants only; endpoint data (docstrings, labels, values) is passed as an argument, never concatenated '
                          'or interpolated into the template')
        cg = CallGraph(repo)
        roots = [simple.func('BasicRender.render_response'), simple.func('BasicRender._serialize_to_resp'),
                 simple.func('JSONRender.__call__'), simple.func('JSONPRender.__call__'),
                 simple.func('ClasticJSONEncoder.default'), tabular.func('TabularRender.context_to_response')]
        reach = cg.reachable(roots, kinds=('call', 'self', 'super', 'new', 'role', 'prop', 'classattr', 'instance-call'))
        scope, seen_f = [], set()
        for f in list(simple.functions.values()) + list(tabular.functions.values()) + \
                sorted((f for f in reach if not f.mod.external), key=lambda f: f.key):
            if id(f) not in seen_f and isinstance(f.node, (ast.FunctionDef, ast.AsyncFunctionDef)):
                seen_f.add(id(f))
                scope.append(f)
        n_sinks, unknown = 0, []
        for f in scope:
            tp = None
            for node, tmpl, how in format_sinks(f.node):
                if tp is None:
                    tp = _Templates(repo, f)
                k = tp.kind(tmpl, tp.stmt_of(node))
                if k == T_NUM:
                    continue
                if k == T_UNKNOWN and how in ('%', '%='):
                    # ``a % b`` on values of unknown type: string formatting only if something says so
                    right = node.right if isinstance(node, ast.BinOp) else node.value
                    rk = tp.kind(right, tp.stmt_of(node))
                    if rk == T_NUM or not isinstance(right, (ast.Tuple, ast.Dict, ast.JoinedStr)) and rk not in (T_CONST, T_DATA):
                        continue
                n_sinks += 1
                if k == T_UNKNOWN:
                    unknown.append((f, node, tmpl))
                    continue
                ok = k == T_CONST
                rep.check('R17.f', fkey(f, 'template of ' + norm(node)[:60]), ok,
                          'format template is made of constants only' if ok else
                          '%s formats (%s) a template that already contains data (%s): a "{" / "}" / "%%" in that data -- an endpoint '
                          'docstring, a label, a value -- raises KeyError / ValueError / IndexError inside the renderer (a 500) or '
                          'substitutes other fields' % (f.qualname, how, short(tmpl, 70) + (
                              ': ' + tp.why(tmpl, tp.stmt_of(node)) if not ok and tp.why(tmpl, tp.stmt_of(node)) else '')), f.mod, node)
        if unknown:
            raise AnalysisError('the template of %s in %s cannot be traced to constants or to data (%d such site(s))'
                                % (short(unknown[0][1], 60), unknown[0][0].qualname, len(unknown)))
        rep.ok('R17.f', '%s::render paths' % SIMPLE, '%d function(s) on the render paths scanned, %d formatting site(s)'
               % (len(scope), n_sinks), simple, None)
        if len(scope) < 8:
            raise AnalysisError('render paths: only %d function(s) found to scan for format templates' % len(scope))

    def g_labels():
        # JSON renderer labels
        for q, want in (('JSONRender.__call__', 'application/json'), ('JSONPRender.__call__', 'application/javascript'),
                        ('TabularRender.context_to_response', 'text/html')):
            f = (tabular if q.startswith('Tabular') else simple).func(q)
            calls = [c for c in walk_body(f.node) if _is_response(simple, c)]
            if not calls:
                raise AnalysisError('%s: the Response it constructs was not found' % q)
            mts = [_fold_const(repo, f, argn(c, 'mimetype', 3)) for c in calls]
            ok = all(m == want for m in mts)
            rep.check('R17.e', fkey(f, 'mimetype'), ok, '%s labels its body %s' % (q, want) if ok else
                      '%s does not label its body %s (found %r)' % (q, want, mts), f.mod, f.node)


    def render_roots():
        return [simple.func('BasicRender.render_response'), simple.func('BasicRender._serialize_to_resp'),
                simple.func('JSONRender.__call__'), simple.func('JSONPRender.__call__'),
                simple.func('ClasticJSONEncoder.default'), tabular.func('TabularRender.context_to_response')]

    def g_kinds():
        import sys
        from . import c17_more
        c17_more.check_kinds(rep, repo, sys.modules[__name__])

    def g_shared():
        import sys
        from . import c17_more
        c17_more.check_shared(rep, repo, sys.modules[__name__], render_roots())

    def g_total():
        import sys
        from . import c17_more
        c17_more.check_total(rep, repo, sys.modules[__name__], render_roots())

    def g_negotiation():
        import sys
        from . import c17_more
        c17_more.check_negotiation(rep, repo, sys.modules[__name__])

    def g_json_bodies():
        import sys
        from . import c17_more
        c17_more.check_json_bodies(rep, repo, sys.modules[__name__])

    def g_chunk_kinds():
        # a group of its own: the kinds are judged also where the provenance of the stream cannot be followed
        import sys
        from . import c17_total
        rep.rule('R17.l', 'every JSON body (streaming, non-streaming, inside JSONP) is self.json_encoder applied to the endpoint result; '
                          'a JSONP body is callback + "(" + JSON + ")" and is built only when the request names a callback; "+" / len() / '
                          'indexing on the body chunks only where every operand is a materialised sequence of one kind on every path')
        c17_total.check_chunk_kinds(rep, repo, sys.modules[__name__])

    def g_optional_labels():
        import sys
        from . import c17_more
        c17_more.check_optional_labels(rep, repo, sys.modules[__name__], render_roots())

    def safely(fn):
        def group():
            try:
                return fn()
            except AnalysisError:
                raise
            except RecursionError:
                raise AnalysisError('%s: recursion limit reached in the checker' % fn.__name__)
            except Exception as e:
                import traceback
                tb = traceback.extract_tb(e.__traceback__)[-1]
                raise AnalysisError('%s: internal error in the rule (%s: %s at %s:%s)'
                                    % (fn.__name__, type(e).__name__, e, tb.filename.rpartition('/')[2], tb.lineno))
        group.__name__ = fn.__name__
        return group
    for g in (g_names, g_guess, g_text_total, g_render, g_serialize, g_encoder, g_labels, g_templates, g_kinds, g_shared, g_total, g_negotiation, g_json_bodies, g_chunk_kinds, g_optional_labels):
        rep.guard(safely(g))
    # floors are checked after all groups ran, so that one unrecognised construct does not hide the others
    for rule_, n_ in (('R17.c', 9),):
        try:
            rep.floor(rule_, n_)
        except AnalysisError as e:
            if not rep.gaps:
                rep.gaps.append(str(e))


# ---------------------------------------------------------------------------------------------- the JSON guess, by shape
_WANT_PAIRS = frozenset([(b'{', b'}'), (b'[', b']')])
_NOFOLD = object()
_MIRROR = {ast.Lt: ast.Gt, ast.LtE: ast.GtE, ast.Gt: ast.Lt, ast.GtE: ast.LtE, ast.Eq: ast.Eq}
_COMPS = (ast.ListComp, ast.SetComp, ast.DictComp, ast.GeneratorExp, ast.Lambda)


class _FnView(object):
    """What sym_paths reads of a function, for the copy whose loops over constant tables were unrolled."""
    def __init__(self, fi, node):
        self.node, self.qualname, self.mod, self.cls = node, fi.qualname, fi.mod, fi.cls


def _value_ast(v):
    """Literal expression of a folded constant (None: no literal spelling)."""
    if isinstance(v, (tuple, list)):
        elts = [_value_ast(x) for x in v]
        if any(e is None for e in elts):
            return None
        return (ast.Tuple if isinstance(v, tuple) else ast.List)(elts=elts, ctx=ast.Load())
    if v is None or isinstance(v, (bytes, str, int, float)):
        return ast.Constant(value=v)
    return None


def _slice_role(e, names):
    """'first' / 'last' (the one-byte slices x[:1], x[0:1] / x[-1:]) or 'first_int' / 'last_int' (the elements x[0] /
    x[-1]) of one of the named values; None for anything else."""
    if not (isinstance(e, ast.Subscript) and isinstance(e.value, ast.Name) and e.value.id in names):
        return None
    s = e.slice

    def const(x, v):
        if v < 0:
            return isinstance(x, ast.UnaryOp) and isinstance(x.op, ast.USub) and const(x.operand, -v) or \
                (isinstance(x, ast.Constant) and type(x.value) is int and x.value == v)
        return isinstance(x, ast.Constant) and type(x.value) is int and x.value == v
    if isinstance(s, ast.Slice):
        if s.step is not None and not const(s.step, 1):
            return None
        if (s.lower is None or const(s.lower, 0)) and s.upper is not None and const(s.upper, 1):
            return 'first'
        if s.upper is None and s.lower is not None and const(s.lower, -1):
            return 'last'
        return None
    if const(s, 0):
        return 'first_int'
    if const(s, -1):
        return 'last_int'
    return None


class _GuessShape(object):
    """The JSON guess read as a predicate over (is the input empty, its first byte, its last byte).  Every test of the
    function is read by *shape* -- comparisons / membership tests of the first / last byte (slice or element) of the
    parameter, of the pair or the concatenation of the two, with constants (folded: literals, module- and class-level
    tables), ``startswith`` / ``endswith``, emptiness tests -- and solved for the (first, last) pairs it admits.  The
    function is never run and no input body is ever constructed; a test outside this vocabulary is an AnalysisError."""

    def __init__(self, repo, fi, param):
        self.repo, self.fi, self.param = repo, fi, param
        self.notes = []
        self.locals = set(p for p in fi.params() if p not in ('self', 'cls')) | set(n.id for n in ast.walk(fi.node) if isinstance(n, ast.Name) and isinstance(n.ctx, ast.Store))

    # -- constants and terms
    def fold(self, e):
        """Constant value of an expression that does not read the parameter or a local (literals, module-level and
        class-level constants, collections of them); _NOFOLD otherwise."""
        for n in ast.walk(e):
            if isinstance(n, _COMPS):
                return _NOFOLD
            if isinstance(n, ast.Name) and (n.id.startswith('<') or (n is not e and n.id in self.locals) or n.id == self.param):
                return _NOFOLD
        if isinstance(e, ast.Constant):
            return e.value
        try:
            if isinstance(e, (ast.Name, ast.Attribute)):
                v = _fold_const(self.repo, self.fi, e)
            else:
                v = self.repo.try_fold(e, self.fi.mod)
        except Exception:
            return _NOFOLD
        return _NOFOLD if v is None else v

    def local_value(self, name, depth):
        """The expression a local that is bound exactly once stands for (the unrolled / substituted trees do not
        contain such names any more; the original tree, used for the guards of element accesses, does)."""
        if depth > 4 or name == self.param:
            return None
        vals = assigned_value(self.fi.node, name)
        if len(vals) != 1:
            return None
        st, v, i = vals[0]
        if not isinstance(v, ast.expr):
            return None
        if i is None:
            return v
        if isinstance(i, int) and isinstance(v, (ast.Tuple, ast.List)) and i < len(v.elts) and \
                not any(isinstance(x, ast.Starred) for x in v.elts):
            return v.elts[i]
        return None

    def term(self, e, depth=0):
        """('param',) | ('first',) | ('last',) | ('first_int',) | ('last_int',) | ('tuple' / 'list', [terms]) |
        ('cat', [first / last terms]) | ('get', {constant table}, key term) | ('const', value) | None."""
        if isinstance(e, ast.Name) and e.id == self.param:
            return ('param',)
        role = _slice_role(e, (self.param,))
        if role is not None:
            return (role,)
        if isinstance(e, ast.Name) and isinstance(e.ctx, ast.Load):
            v = self.local_value(e.id, depth)
            if v is not None:
                return self.term(v, depth + 1)
        c = self.fold(e)
        if c is not _NOFOLD:
            return ('const', c)
        if isinstance(e, (ast.Tuple, ast.List)) and not any(isinstance(x, ast.Starred) for x in e.elts):
            ts = [self.term(x, depth) for x in e.elts]
            if all(t is not None for t in ts):
                return ('tuple' if isinstance(e, ast.Tuple) else 'list', ts)
            return None
        if isinstance(e, ast.BinOp) and isinstance(e.op, ast.Add):
            parts, todo = [], [e]
            while todo:
                x = todo.pop(0)
                if isinstance(x, ast.BinOp) and isinstance(x.op, ast.Add):
                    todo = [x.left, x.right] + todo
                else:
                    parts.append(self.term(x, depth))
            if parts and all(t is not None and t[0] in ('first', 'last') for t in parts):
                return ('cat', parts)
            return None
        if isinstance(e, ast.Call) and isinstance(e.func, ast.Attribute) and e.func.attr == 'get' and len(e.args) == 1 \
                and not e.keywords:
            table = self.fold(e.func.value)
            key = self.term(e.args[0], depth)
            if isinstance(table, dict) and key is not None:
                return ('get', table, key)
        return None

    # -- solving "term == constant" for the first / last byte
    @staticmethod
    def merge(a, b):
        out = dict(a)
        for k, v in b.items():
            if k in out and out[k] != v:
                return None
            out[k] = v
        if out.get('empty') and ('f' in out or 'l' in out):
            return None
        return out

    def _product(self, sols, ms):
        return [m2 for s in sols for m in ms for m2 in [self.merge(s, m)] if m2 is not None]

    def match(self, t, v):
        """Partial assignments {'f': first byte, 'l': last byte, 'empty': True} under which term t equals the constant
        v; [] = never; None = not expressible."""
        k = t[0]
        if k == 'const':
            try:
                return [{}] if t[1] == v else []
            except Exception:
                return None
        if k in ('first', 'last'):
            if isinstance(v, bytes):
                if len(v) == 1:
                    return [{'f' if k == 'first' else 'l': v}]
                return [{'empty': True}] if len(v) == 0 else []
            self.notes.append('a slice of a bytes value never equals the %s constant %r' % (type(v).__name__, v))
            return []
        if k in ('first_int', 'last_int'):
            if isinstance(v, int) and 0 <= v <= 255:
                return [{'f' if k == 'first_int' else 'l': bytes([v])}]
            if isinstance(v, (bytes, str)):
                self.notes.append('an element of a bytes value is an int and never equals the %s constant %r'
                                  % (type(v).__name__, v))
            return []
        if k in ('tuple', 'list'):
            if type(v) is not (tuple if k == 'tuple' else list) or len(v) != len(t[1]):
                return []
            sols = [{}]
            for ti, vi in zip(t[1], v):
                ms = self.match(ti, vi)
                if ms is None:
                    return None
                sols = self._product(sols, ms)
            return sols
        if k == 'cat':
            if not isinstance(v, bytes):
                self.notes.append('a concatenation of bytes slices never equals the %s constant %r' % (type(v).__name__, v))
                return []
            if len(v) == 0:
                return [{'empty': True}]
            if len(v) != len(t[1]):
                return []
            sols = [{}]
            for i, ti in enumerate(t[1]):
                sols = self._product(sols, [{'f' if ti[0] == 'first' else 'l': v[i:i + 1]}])
            return sols
        if k == 'param':
            if isinstance(v, bytes) and len(v) == 0:
                return [{'empty': True}]
            return None
        return None

    def unify(self, t1, t2):
        if t2[0] == 'const':
            return self.match(t1, t2[1])
        if t1[0] == 'const':
            return self.match(t2, t1[1])
        if t1[0] == 'get' or t2[0] == 'get':
            g, o = (t1, t2) if t1[0] == 'get' else (t2, t1)
            if o[0] == 'get':
                return None
            out = []
            for kk, vv in g[1].items():
                mk, mv = self.match(g[2], kk), self.match(o, vv)
                if mk is None or mv is None:
                    return None
                out.extend(self._product(mk, mv))
            # a key that is not in the table yields None, which no byte slice / element / pair equals
            return out
        if t1[0] in ('tuple', 'list') and t1[0] == t2[0] and len(t1[1]) == len(t2[1]):
            sols = [{}]
            for a, b in zip(t1[1], t2[1]):
                ms = self.unify(a, b)
                if ms is None:
                    return None
                sols = self._product(sols, ms)
            return sols
        return None

    # -- boolean structure
    def dnf(self, e, pol=True):
        """[[(atom, polarity)]]: the conjunctions under which the truth value of e is ``pol``."""
        if isinstance(e, ast.UnaryOp) and isinstance(e.op, ast.Not):
            return self.dnf(e.operand, not pol)
        if isinstance(e, ast.BoolOp):
            parts = [self.dnf(v, pol) for v in e.values]
            if isinstance(e.op, ast.And) is pol:
                cur = [[]]
                for p in parts:
                    cur = [a + b for a in cur for b in p]
                return cur
            return [c for p in parts for c in p]
        if isinstance(e, ast.IfExp):
            yes, no = ast.BoolOp(op=ast.And(), values=[e.test, e.body]), \
                ast.BoolOp(op=ast.And(), values=[ast.UnaryOp(op=ast.Not(), operand=e.test), e.orelse])
            if pol:
                return self.dnf(yes, True) + self.dnf(no, True)
            return self.dnf(ast.BoolOp(op=ast.And(), values=[e.test, ast.UnaryOp(op=ast.Not(), operand=e.body)]), True) + \
                self.dnf(ast.BoolOp(op=ast.And(), values=[ast.UnaryOp(op=ast.Not(), operand=e.test),
                                                          ast.UnaryOp(op=ast.Not(), operand=e.orelse)]), True)
        if isinstance(e, ast.Call) and isinstance(e.func, ast.Name) and e.func.id == 'bool' and len(e.args) == 1 and not e.keywords:
            return self.dnf(e.args[0], pol)
        if isinstance(e, ast.Call) and isinstance(e.func, ast.Name) and e.func.id in ('any', 'all') and len(e.args) == 1 \
                and not e.keywords and isinstance(e.args[0], (ast.GeneratorExp, ast.ListComp)):
            items = self._comp_items(e.args[0])
            if items is not None:
                if not items:
                    return [[]] if (e.func.id == 'all') is pol else []
                return self.dnf(ast.BoolOp(op=ast.Or() if e.func.id == 'any' else ast.And(), values=items), pol)
        if isinstance(e, ast.Constant):
            return [[]] if bool(e.value) is pol else []
        if isinstance(e, ast.Compare) and len(e.ops) == 1 and type(e.ops[0]) in _FLIP:
            return [[(ast.Compare(left=e.left, ops=[_FLIP[type(e.ops[0])]()], comparators=e.comparators), not pol)]]
        return [[(e, pol)]]

    def _comp_items(self, comp):
        """The element expressions of ``<elt> for <target> in <constant tuple / list>`` (one clause), target replaced."""
        if len(comp.generators) != 1 or comp.generators[0].is_async:
            return None
        g = comp.generators[0]
        table = self.fold(g.iter)
        if isinstance(table, dict):
            table = tuple(table)
        if not isinstance(table, (tuple, list)) or len(table) > 16:
            return None
        out = []
        for item in table:
            env = {}
            if not self._bind(g.target, _value_ast(item), env):
                return None
            elt = comp.elt
            if g.ifs:
                elt = ast.BoolOp(op=ast.And(), values=list(g.ifs) + [elt])
            out.append(_subst(elt, env))
        return out

    def _bind(self, target, value, env):
        if value is None:
            return False
        if isinstance(target, ast.Name):
            env[target.id] = value
            return True
        if isinstance(target, (ast.Tuple, ast.List)) and isinstance(value, (ast.Tuple, ast.List)) and \
                len(target.elts) == len(value.elts) and not any(isinstance(x, ast.Starred) for x in target.elts):
            return all(self._bind(t, v, env) for t, v in zip(target.elts, value.elts))
        return False

    # -- atoms
    def interp(self, a):
        """('len', (truth for length 0, 1, >= 2)) | ('gen', [partial assignments]) | ('const', bool) | ('free',) | None."""
        if is_raises_atom(a):
            return ('free',)        # whether a call made in a try body raises: either outcome, for any input
        t = self.term(a)
        if t is not None:
            if t[0] in ('param', 'first', 'last'):
                return ('len', (False, True, True))       # a one-byte slice of a non-empty value is non-empty
            if t[0] == 'const':
                try:
                    return ('const', bool(t[1]))
                except Exception:
                    return None
            return None
        if self._is_len(a):
            return ('len', (False, True, True))
        if isinstance(a, ast.Compare) and len(a.ops) == 1:
            l, r, op = a.left, a.comparators[0], a.ops[0]
            if self._is_len(r) and type(op) in _MIRROR:
                l, r, op = r, l, _MIRROR[type(op)]()
            if self._is_len(l):
                k = self.fold(r)
                if type(k) is not int:
                    return None
                table = {ast.Eq: (k <= 1, lambda n: n == k), ast.Gt: (k <= 1, lambda n: n > k), ast.GtE: (k <= 2, lambda n: n >= k),
                         ast.Lt: (k <= 2, lambda n: n < k), ast.LtE: (k <= 1, lambda n: n <= k)}
                if type(op) not in table or not table[type(op)][0]:
                    return None
                f = table[type(op)][1]
                return ('len', (f(0), f(1), f(2)))
            if isinstance(op, ast.Is):
                t1, t2 = self.term(l), self.term(r)
                if t1 is not None and t2 is not None and sorted([t1, t2], key=lambda t: t[0]) == [('const', None), ('param',)]:
                    return ('const', False)         # the parameter holds bytes
                return None
            if isinstance(op, ast.Eq):
                t1, t2 = self.term(l), self.term(r)
                if t1 is None or t2 is None:
                    return None
                ms = self.unify(t1, t2)
                return ('gen', ms) if ms is not None else None
            if isinstance(op, ast.In):
                t1, t2 = self.term(l), self.term(r)
                if t1 is None or t2 is None:
                    return None
                ms = []
                if t2[0] == 'const':
                    coll = t2[1]
                    if isinstance(coll, (tuple, list, set, frozenset, dict)):
                        for el in coll:
                            m = self.match(t1, el)
                            if m is None:
                                return None
                            ms.extend(m)
                        return ('gen', ms)
                    if isinstance(coll, bytes) and t1[0] in ('first', 'last', 'first_int', 'last_int'):
                        key = 'f' if t1[0].startswith('first') else 'l'
                        ms = [{key: bytes([c])} for c in sorted(set(coll))]
                        if t1[0] in ('first', 'last'):
                            ms.append({'empty': True})          # b'' in <bytes> is true
                        return ('gen', ms)
                    return None
                if t2[0] in ('tuple', 'list'):
                    for el in t2[1]:
                        m = self.unify(t1, el)
                        if m is None:
                            return None
                        ms.extend(m)
                    return ('gen', ms)
                return None
            return None
        if isinstance(a, ast.Call) and isinstance(a.func, ast.Attribute) and a.func.attr in ('startswith', 'endswith') and \
                len(a.args) == 1 and not a.keywords and self.term(a.func.value) == ('param',):
            v = self.fold(a.args[0])
            if v is _NOFOLD:
                return None
            key = 'f' if a.func.attr == 'startswith' else 'l'
            ms = []
            for alt in (v if isinstance(v, tuple) else (v,)):
                if not isinstance(alt, bytes):
                    return None                               # TypeError: reported by the type-confusion check
                if len(alt) == 1:
                    ms.append({key: alt})
                elif len(alt) == 0:
                    ms.append({})
                else:
                    return None
            return ('gen', ms)
        return None

    def _is_len(self, e):
        return isinstance(e, ast.Call) and isinstance(e.func, ast.Name) and e.func.id == 'len' and len(e.args) == 1 and \
            not e.keywords and self.term(e.args[0]) == ('param',)

    # -- points: None = the empty input, (f, l) = a non-empty input with that first and last byte
    @staticmethod
    def compatible(m, pt):
        if pt is None:
            return 'f' not in m and 'l' not in m
        return not m.get('empty') and m.get('f', pt[0]) == pt[0] and m.get('l', pt[1]) == pt[1]

    def holds(self, it, pol, pt):
        """Can the interpreted atom have truth value ``pol`` for some input abstracted by the point pt?"""
        if it[0] == 'len':
            p0, p1, p2 = it[1]
            poss = [p0] if pt is None else ([p2] if pt[0] != pt[1] else [p1, p2])
            return any(p is pol for p in poss)
        if it[0] == 'gen':
            return any(self.compatible(m, pt) for m in it[1]) is pol
        if it[0] == 'const':
            return it[1] is pol
        return True

    def solve(self, conj):
        """(points admitted by the conjunction, unbounded?, atoms outside the vocabulary)."""
        sols, filters, unknown = [{}], [], []
        for a, pol in conj:
            it = self.interp(a)
            if it is None:
                unknown.append((a, pol))
            elif it[0] == 'gen' and pol:
                sols = self._product(sols, it[1])
                filters.append((it, pol))
            else:
                filters.append((it, pol))
        if unknown:
            return None, None, unknown
        pts, unbounded = set(), False
        for s in sols:
            if s.get('empty'):
                cands = [None]
            elif 'f' in s and 'l' in s:
                cands = [(s['f'], s['l'])]
            else:
                # first or last byte left open: only the empty input can be named; any non-empty input the other tests
                # admit makes the set unbounded
                cands = [None] if not s else []
                free_nonempty = True
                for it, pol in filters:
                    if it[0] == 'len':
                        p0, p1, p2 = it[1]
                        if not any(p is pol for p in (p1, p2)):
                            free_nonempty = False
                    elif it[0] == 'const' and it[1] is not pol:
                        free_nonempty = False
                if free_nonempty:
                    unbounded = True
            for pt in cands:
                if all(self.holds(it, pol, pt) for it, pol in filters):
                    pts.add(pt)
        return pts, unbounded, []

    def excludes_empty(self, test, pol):
        """The condition (test has truth value pol) cannot hold for the empty input."""
        for conj in self.dnf(test, pol):
            ruled_out = False
            for atom, p in conj:
                it = self.interp(atom)
                if it is not None and not self.holds(it, p, None):
                    ruled_out = True
                    break
            if not ruled_out:
                return False
        return True


def _unroll_const_loops(shape, fnode, limit=16):
    """Copy of the function in which ``for <target> in <constant tuple / list>`` (no break / continue) is replaced by
    its iterations in order -- ``target = <element>`` + body per element, then the else part: the very statements the
    loop executes."""
    def block(stmts):
        out = []
        for s in stmts:
            if isinstance(s, ast.For) and not any(isinstance(n, (ast.Break, ast.Continue)) for n in ast.walk(s)):
                table = shape.fold(s.iter)
                if isinstance(table, dict):
                    table = tuple(table)
                items = _value_ast(table) if isinstance(table, (tuple, list)) else None
                if items is not None and len(items.elts) <= limit:
                    for e in items.elts:
                        out.append(ast.copy_location(ast.Assign(targets=[copy.deepcopy(s.target)], value=e), s))
                        out.extend(block(copy.deepcopy(s.body)))
                    out.extend(block(s.orelse))
                    continue
            if isinstance(s, ast.If):
                s2 = copy.copy(s)
                s2.body, s2.orelse = block(s.body), block(s.orelse)
                s = s2
            out.append(s)
        return out
    fn = copy.copy(fnode)
    fn.body = block(fnode.body)
    return fn


def _contained(fi, node, exc):
    """node lies in a try body of the function whose handler for the builtin exception ``exc`` does not raise: the empty
    input's IndexError continues in the handler (a path the enumeration follows) instead of leaving the function."""
    from .common import protected_by
    h = protected_by(fi, node, exc)
    return h is not None and not any(isinstance(x, ast.Raise) for x in ast.walk(h))


def _gj_structural(rep, repo, simple, gj, bnames, why):
    """Label feasibility of _guess_json by shape: a body is guessed to be JSON exactly when its first and last byte form
    one of the two matching bracket pairs, and the empty input is rejected without touching an element.  Branching on
    comparisons, membership of the (first, last) pair / of the concatenation in a constant collection, loops over a
    constant table of pairs, a constant opening -> closing table, startswith / endswith are all read into the same
    predicate over (empty?, first byte, last byte); the function is never evaluated."""
    params = [p for p in gj.params() if p not in ('self', 'cls')]
    param = params[0]
    shape = _GuessShape(repo, gj, param)
    view = _FnView(gj, _unroll_const_loops(shape, gj.node))
    try:
        paths = sym_paths(view, lambda atom: None, model_try=True)
    except AnalysisError as e:
        raise AnalysisError('_guess_json has a shape the analysis cannot follow (%s; %s)' % (why, e))

    rets, order = {}, []         # id(return stmt) -> {'stmt', 'pts', 'unbounded', 'conds'}
    unknown, raise_at_empty, n_returns = [], [], 0
    for st in paths:
        trace = [[]]
        for key, atom, orig, pol, decided in st.trace:
            d = shape.dnf(atom, pol)
            trace = [a + b for a in trace for b in d]
        kind = st.term[0]
        if kind == 'raise':
            for conj in trace:
                pts, unb, unk = shape.solve(conj)
                if pts is not None and None in pts:
                    raise_at_empty.append(st.term[2])
            continue
        if kind != 'return' or st.term[1] is None:
            continue
        n_returns += 1
        rdnf = shape.dnf(st.term[1], True)
        if not rdnf:
            continue
        stmt = st.term[2]
        if id(stmt) not in rets:
            rets[id(stmt)] = {'stmt': stmt, 'pts': set(), 'unbounded': False, 'conds': None, 'conds_pts': False, 'needs': set()}
            order.append(id(stmt))
        ent = rets[id(stmt)]
        for c1 in trace:
            for c2 in rdnf:
                conj = c1 + c2
                pts, unb, unk = shape.solve(conj)
                if unk:
                    unknown.extend((stmt, a, p) for a, p in unk)
                    continue
                ent['pts'] |= pts
                ent['unbounded'] = ent['unbounded'] or unb
                if pts or unb:
                    ent['needs'].update(a.id.strip('<>').partition(' raises')[0] for a, p in conj if is_raises_atom(a) and p is False)
                if ent['conds'] is None or ((pts or unb) and not ent['conds_pts']):
                    ent['conds'], ent['conds_pts'] = conj, bool(pts or unb)     # the conditions quoted in the verdict
    if unknown:
        stmt, a, p = unknown[0]
        raise AnalysisError('_guess_json has a shape the analysis cannot follow (%s; the test "%s" deciding the return at line %s '
                            'is not a first / last byte test the analysis can read)' % (why, short(norm(a), 80), stmt.lineno))
    if not n_returns:
        raise AnalysisError('_guess_json has a shape the analysis cannot follow (%s; no return)' % why)

    pos = dict((i, n) for n, i in enumerate(order))
    order.sort(key=lambda i: (rets[i]['stmt'].lineno, pos[i]))
    seen_pairs = set()
    note = lambda: (' [%s]' % '; '.join(sorted(set(shape.notes)))) if shape.notes else ''
    for n, i in enumerate(order):
        ent = rets[i]
        r = ent['stmt']
        literal = isinstance(r.value, ast.Constant)
        what = '"return True"' if literal else '"return %s"' % short(norm(r.value), 60)
        pairs = set(p for p in ent['pts'] if p is not None)
        cs = '; '.join(cond_texts(ent['conds'] or []))
        if ent['unbounded']:
            ok, msg = False, ('%s is not guarded by a matching JSON bracket pair on first and last byte: first or last byte is '
                              'left open (conditions: %s)' % (what, cs))
        elif not pairs:
            ok, msg = False, ('%s can never yield true for a non-empty body: no (first, last) byte pair satisfies its tests '
                              '(conditions: %s)%s' % (what, cs, note()))
        elif not pairs <= _WANT_PAIRS:
            ok, msg = False, ('%s is not guarded by a matching JSON bracket pair on first and last byte (admits %r; conditions: %s)'
                              % (what, sorted(pairs - _WANT_PAIRS), cs))
        else:
            ok, msg = True, 'guarded by first/last byte pair %s (conditions: %s)' % (', '.join(repr(p) for p in sorted(pairs)), cs)
        if ent['needs']:
            # noted, not judged: C17 asks for the bracket shape only; what the library call accepts is a value-level question
            extra = ('the answer "JSON" additionally requires that %s completes without raising: a parse can fail for reasons that '
                     'have nothing to do with the text being JSON-like (size limits of the parser: nesting depth, integer literals '
                     'over 4300 digits), and serialized JSON it rejects is then labelled text/plain' % ' / '.join(sorted(ent['needs'])))
            rep.notes.append('R17.b note (%s, line %s): %s' % (gj.qualname, r.lineno, extra))
            msg += ' [note, not judged: %s]' % extra
        seen_pairs |= pairs & _WANT_PAIRS
        rep.check('R17.b', fkey(gj, ('return True #%d' if literal else 'accepting return #%d') % (n + 1)), ok, msg, simple, r)
    rep.check('R17.b', fkey(gj, 'bracket pairs'), seen_pairs == set(_WANT_PAIRS),
              'both JSON container forms ({..} and [..]) are recognised' if seen_pairs == set(_WANT_PAIRS) else
              'recognised bracket pairs %r, expected object and array%s' % (sorted(seen_pairs), note()), simple, gj.node)

    # the empty input: answered False, and no element of the value is touched before emptiness is ruled out
    accepts_empty = any(None in rets[i]['pts'] for i in order)
    unguarded = []
    for n in walk_body(gj.node):
        if isinstance(n, ast.Subscript) and isinstance(n.value, ast.Name) and n.value.id == param and \
                not isinstance(n.slice, ast.Slice):
            guards = list(conds(gj, n))
            cur = n
            while cur is not None and not isinstance(cur, ast.stmt):
                par = gj.mod.parents.get(cur)
                if isinstance(par, ast.BoolOp) and cur in par.values:
                    guards.extend((v, isinstance(par.op, ast.And)) for v in par.values[:par.values.index(cur)])
                elif isinstance(par, ast.IfExp) and cur is not par.test:
                    guards.append((par.test, cur is par.body))
                cur = par
            if not any(shape.excludes_empty(t, p) for t, p in guards) and not _contained(gj, n, 'IndexError'):
                unguarded.append(n)
    ok = not accepts_empty and not unguarded and not raise_at_empty
    if ok:
        msg = 'empty input is answered False; no element access on a possibly empty value'
    elif unguarded:
        msg = ('no early "return False" for empty input (indexing an empty value is not guarded): %s at line %s'
               % (norm(unguarded[0]), unguarded[0].lineno))
    elif raise_at_empty:
        msg = 'empty input raises (line %s) instead of being answered False' % raise_at_empty[0].lineno
    else:
        msg = 'empty input is guessed to be JSON'
    rep.check('R17.b', fkey(gj, 'empty'), ok, msg, simple, gj.node)
