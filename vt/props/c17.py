"""C17 -- The basic and JSON renderers accept every endpoint result.

Decided (shape of the code, all inputs):
  R17.a  every global name loaded in clastic/render/simple.py and tabular.py (every scope) and in
         every clastic function reachable from the renderers' __call__ resolves to a binding or a
         Python-3 builtin (symtable) -- a NameError on a classification branch is a 500;
  R17.b  no constant-false / type-confused classification test on a value known to be ``bytes``:
         ``b[i] == b'x'`` (int vs bytes), bytes-vs-str comparisons, ``'s' in <bytes>``,
         ``<bytes>.startswith('s')``; every label-deciding ``return True`` of _guess_json is guarded
         by a matching open/close bracket pair that can be true;
  R17.c  render_response: each Response label follows its test (json <= _guess_json, html <= the
         html sniff and not json, plain otherwise), str is encoded before the bytes classification,
         non-Sized values are stringified with a *bound* callable, everything else is handed to
         _serialize_to_resp; _serialize_to_resp hands application/json to json_render and text/html to
         tabular_render;
  R17.d  ClasticJSONEncoder.default raises TypeError only when dev_mode is false and returns repr()
         when it is true; render_basic / render_json_dev / HTTPException.to_json are built in dev mode;
  R17.e  the format->mime table and the branches of _serialize_to_resp agree; the default mime is served.
Declined: JSON validity / round trip, HTML table shapes (third-party Table), streaming -- values.
"""
import ast

from ..core import AnalysisError, norm, short
from ..callgraph import CallGraph
from .common import (cfg_of, fkey, conds, has_cond, cond_texts, is_call_to, isinstance_test, returns_of,
                     raises_of, raise_type, check_unbound, stmts_of, walk_body, kwarg, call_tail, call_name)

SIMPLE = 'clastic.render.simple'
TABULAR = 'clastic.render.tabular'


def _bytes_typed_names(repo, fi, cg=None):
    """Local names statically known to hold ``bytes`` in fi: annotated parameters."""
    out = set()
    a = fi.node.args
    for p in a.posonlyargs + a.args + a.kwonlyargs:
        if p.annotation is not None and norm(p.annotation) == 'bytes':
            out.add(p.arg)
    return out


def _vtype(expr, bytes_names, bytes_exprs=()):
    """'bytes' | 'str' | 'int' | None for the small expression language of the classification tests."""
    if isinstance(expr, ast.Constant):
        if isinstance(expr.value, bytes):
            return 'bytes'
        if isinstance(expr.value, str):
            return 'str'
        if isinstance(expr.value, bool):
            return None
        if isinstance(expr.value, int):
            return 'int'
        return None
    if isinstance(expr, ast.Name):
        return 'bytes' if expr.id in bytes_names else None
    if norm(expr) in bytes_exprs:
        return 'bytes'
    if isinstance(expr, ast.Subscript):
        base = _vtype(expr.value, bytes_names, bytes_exprs)
        if base in ('bytes', 'str'):
            if isinstance(expr.slice, ast.Slice):
                return base
            return 'int' if base == 'bytes' else 'str'
        return None
    if isinstance(expr, ast.Call) and isinstance(expr.func, ast.Attribute):
        if expr.func.attr == 'encode':
            return 'bytes'
        if expr.func.attr in ('strip', 'lstrip', 'rstrip', 'lower', 'upper'):
            return _vtype(expr.func.value, bytes_names, bytes_exprs)
    return None


def type_confusions(fnode_or_stmts, bytes_names, bytes_exprs=()):
    """Yield (node, reason) for tests that can never be true / raise TypeError because of bytes/str/int mixing."""
    nodes = []
    if isinstance(fnode_or_stmts, list):
        for s in fnode_or_stmts:
            nodes.extend(ast.walk(s))
    else:
        nodes = list(walk_body(fnode_or_stmts))
        # light local type propagation: x = b[0] / first, last = b[0], b[-1] / s = b[:1]
        bytes_names = set(bytes_names)
        local_types = {}
        for n in nodes:
            if isinstance(n, ast.Assign) and len(n.targets) == 1:
                t, v = n.targets[0], n.value
                pairs = []
                if isinstance(t, ast.Name):
                    pairs = [(t, v)]
                elif isinstance(t, ast.Tuple) and isinstance(v, ast.Tuple) and len(t.elts) == len(v.elts):
                    pairs = [(a, b) for a, b in zip(t.elts, v.elts) if isinstance(a, ast.Name)]
                for a, b in pairs:
                    ty = _vtype(b, bytes_names, bytes_exprs)
                    if ty and a.id not in bytes_names:
                        local_types.setdefault(a.id, set()).add(ty)
        for name, tys in local_types.items():
            if tys == {'bytes'}:
                bytes_names.add(name)
        int_names = set(n for n, tys in local_types.items() if tys == {'int'})
        str_names = set(n for n, tys in local_types.items() if tys == {'str'})
        _orig = _vtype

        def _vt(expr, bn, be=()):
            if isinstance(expr, ast.Name) and expr.id in int_names:
                return 'int'
            if isinstance(expr, ast.Name) and expr.id in str_names:
                return 'str'
            return _orig(expr, bn, be)
        for n in nodes:
            if isinstance(n, ast.Compare) and len(n.ops) == 1 and isinstance(n.ops[0], (ast.Eq, ast.NotEq)):
                lt, rt = _vt(n.left, bytes_names, bytes_exprs), _vt(n.comparators[0], bytes_names, bytes_exprs)
                if lt and rt and lt != rt and (isinstance(n.left, ast.Name) or isinstance(n.comparators[0], ast.Name)) \
                        and not (_orig(n.left, bytes_names, bytes_exprs) and _orig(n.comparators[0], bytes_names, bytes_exprs)):
                    yield n, ('comparison of %s with %s is constant %s on Python 3 (the local holds an element of a bytes value)'
                              % (lt, rt, 'False' if isinstance(n.ops[0], ast.Eq) else 'True'))
    for n in nodes:
        if isinstance(n, ast.Compare) and len(n.ops) == 1:
            lt = _vtype(n.left, bytes_names, bytes_exprs)
            rt = _vtype(n.comparators[0], bytes_names, bytes_exprs)
            op = n.ops[0]
            if isinstance(op, (ast.Eq, ast.NotEq)) and lt and rt and lt != rt:
                yield n, ('comparison of %s with %s is constant %s on Python 3'
                          % (lt, rt, 'False' if isinstance(op, ast.Eq) else 'True'))
            if isinstance(op, (ast.In, ast.NotIn)) and rt == 'bytes' and lt == 'str':
                yield n, "'str in bytes' raises TypeError on Python 3"
            if isinstance(op, (ast.In, ast.NotIn)) and rt == 'str' and lt == 'bytes':
                yield n, "'bytes in str' raises TypeError on Python 3"
        if isinstance(n, ast.Call) and isinstance(n.func, ast.Attribute) and n.func.attr in ('startswith', 'endswith', 'find', 'count') \
                and n.args:
            bt = _vtype(n.func.value, bytes_names, bytes_exprs)
            at = _vtype(n.args[0], bytes_names, bytes_exprs)
            if bt in ('bytes', 'str') and at in ('bytes', 'str') and bt != at:
                yield n, '%s.%s(%s) raises TypeError on Python 3' % (bt, n.func.attr, at)


def run(rep):
    repo = rep.repo
    simple = repo.mod(SIMPLE)
    tabular = repo.mod(TABULAR)
    errors = repo.mod('clastic.errors')
    rep.decide('R17.a names resolve; R17.b no type-confused classification tests; R17.c label follows test / '
               'classification order; R17.d dev-mode fallback; R17.e format tables agree')
    rep.decline('JSON validity and round trip, HTML table shapes, streaming (values of third-party serialisers)')
    rep.assume('request.args / accept_mimetypes behave as in werkzeug 1.0.1')

    # ---- R17.a -----------------------------------------------------------
    rep.rule('R17.a', 'every global Name load resolves (symtable), in the render modules and every clastic '
                      'function reachable from the renderer entry points')
    cg = CallGraph(repo)
    roots = [simple.func('BasicRender.render_response'), simple.func('BasicRender._serialize_to_resp'),
             simple.func('JSONRender.__call__'), simple.func('JSONPRender.__call__'),
             simple.func('ClasticJSONEncoder.default'), tabular.func('TabularRender.context_to_response')]
    reach = cg.reachable(roots, kinds=('call', 'self', 'super', 'new', 'role', 'prop', 'classattr', 'instance-call'))
    extra = {}
    for f in reach:
        if f.mod not in (simple, tabular) and not f.mod.external:
            extra.setdefault(f.mod, set()).add(f.qualname)
    check_unbound(rep, 'R17.a', [simple, tabular])
    for m, quals in extra.items():
        check_unbound(rep, 'R17.a', [m], scope_filter=lambda mm, sc, quals=quals: sc in quals)
    rep.floor('R17.a', 20)

    # ---- R17.b -----------------------------------------------------------
    rep.rule('R17.b', 'no bytes/str/int type confusion in classification tests; _guess_json labels are feasible')
    gj = simple.func('BasicRender._guess_json')
    bnames = _bytes_typed_names(repo, gj)
    if not bnames:
        # fall back: the single positional parameter, if every call site is dominated by isinstance(x, bytes)
        ps = [p for p in gj.params() if p not in ('self', 'cls')]
        rr = simple.func('BasicRender.render_response')
        sites = [c for c in walk_body(rr.node) if isinstance(c, ast.Call) and call_tail(c) == '_guess_json']
        if len(ps) == 1 and sites and all(
                has_cond(conds(rr, c), lambda t, c=c: isinstance_test(t, norm(c.args[0]), 'bytes'), True)
                for c in sites if c.args):
            bnames = {ps[0]}
    if not bnames:
        raise AnalysisError('cannot establish that _guess_json receives bytes')
    confusions = list(type_confusions(gj.node, bnames))
    for n, why in confusions:
        rep.fail('R17.b', fkey(gj, n), why, simple, n)
    if not confusions:
        rep.ok('R17.b', fkey(gj), 'no constant-false or TypeError-raising test on the bytes parameter %s' % sorted(bnames), simple, gj.node)
    # label feasibility: each ``return True`` is guarded by a matching bracket pair
    pairs_seen = set()
    want = {(b'{', b'}'), (b'[', b']')}
    rets_true = [r for r in returns_of(gj) if isinstance(r.value, ast.Constant) and r.value.value is True]
    for r in rets_true:
        cs = conds(gj, r)
        lits = []
        for t, p in cs:
            if p is True and isinstance(t, ast.Compare) and len(t.ops) == 1 and isinstance(t.ops[0], ast.Eq):
                c = t.comparators[0]
                if isinstance(c, ast.Constant) and isinstance(c.value, bytes):
                    side = 'start' if _is_start(t.left) else ('end' if _is_end(t.left) else None)
                    lits.append((side, c.value))
            if p is True and isinstance(t, ast.Call) and isinstance(t.func, ast.Attribute) and \
                    t.func.attr in ('startswith', 'endswith') and t.args and isinstance(t.args[0], ast.Constant):
                lits.append(('start' if t.func.attr == 'startswith' else 'end', t.args[0].value))
        start = [v for s, v in lits if s == 'start']
        end = [v for s, v in lits if s == 'end']
        pair = (start[0], end[0]) if len(start) == 1 and len(end) == 1 else None
        ok = pair in want
        if ok:
            pairs_seen.add(pair)
        rep.check('R17.b', fkey(gj, 'return True #%d' % (rets_true.index(r) + 1)), ok,
                  'guarded by first/last byte pair %r (conditions: %s)' % (pair, '; '.join(cond_texts(cs))) if ok else
                  '"return True" is not guarded by a matching JSON bracket pair on first and last byte '
                  '(found %r; conditions: %s)' % (lits, '; '.join(cond_texts(cs))), simple, r)
    rep.check('R17.b', fkey(gj, 'bracket pairs'), pairs_seen == want,
              'both JSON container forms ({..} and [..]) are recognised' if pairs_seen == want else
              'recognised bracket pairs %r, expected object and array' % sorted(pairs_seen), simple, gj.node)
    # empty input is not JSON
    rets_false_empty = [r for r in returns_of(gj) if isinstance(r.value, ast.Constant) and r.value.value is False
                        and has_cond(conds(gj, r), lambda t: isinstance(t, ast.Name) and t.id in bnames, False)]
    rep.check('R17.b', fkey(gj, 'empty'), bool(rets_false_empty),
              'empty input returns False before any indexing' if rets_false_empty else
              'no early "return False" for empty input (indexing an empty value is not guarded)', simple, gj.node)
    # the caller side: render_response sniffs
    rr = simple.func('BasicRender.render_response')
    ctx_param = [p for p in rr.params() if p != 'self'][0]
    rr_conf = []
    for n in walk_body(rr.node):
        if isinstance(n, (ast.Compare, ast.Call)):
            st_conds = conds(rr, n)
            if has_cond(st_conds, lambda t: isinstance_test(t, ctx_param, 'bytes'), True) or \
                    (isinstance(n, ast.Compare) and _under_bytes_if(rr, n, ctx_param)):
                for x, why in type_confusions([ast.Expr(value=n)], {ctx_param}):
                    rr_conf.append((x, why))
    for x, why in rr_conf:
        rep.fail('R17.b', fkey(rr, x), why, simple, x)
    if not rr_conf:
        rep.ok('R17.b', fkey(rr), 'sniffing tests on the bytes context are type-consistent', simple, rr.node)

    # ---- R17.c -----------------------------------------------------------
    rep.rule('R17.c', 'each Response label is dominated by its classification test; order str->bytes->Sized')
    labelled = []   # (statement at which the label is decided, the Response(...) call, mimetype)
    for r in returns_of(rr):
        v = r.value
        if isinstance(v, ast.Call) and call_tail(v) == 'Response':
            mt = kwarg(v, 'mimetype')
            if isinstance(mt, ast.Constant):
                labelled.append((r, v, mt.value))
            elif isinstance(mt, ast.Name):
                # label chosen earlier:  mimetype = "text/html" ... return Response(context, mimetype=mimetype)
                asg = [s for s in stmts_of(rr.node) if isinstance(s, ast.Assign) and norm(s.targets[0]) == mt.id]
                if asg and all(isinstance(s.value, ast.Constant) and isinstance(s.value.value, str) for s in asg):
                    for s in asg:
                        labelled.append((s, v, s.value.value))
                else:
                    labelled.append((r, v, None))
            else:
                labelled.append((r, v, None))
    is_gj = lambda t: isinstance(t, ast.Call) and call_tail(t) == '_guess_json'
    is_html = lambda t: isinstance(t, ast.Compare) and isinstance(t.ops[0], ast.In) and \
        isinstance(t.left, ast.Constant) and isinstance(t.left.value, bytes) and b'html' in t.left.value.lower()
    is_bytes = lambda t: isinstance_test(t, ctx_param, 'bytes')
    is_sized = lambda t: isinstance_test(t, ctx_param, 'Sized')
    for r, v, mt in labelled:
        cs = conds(rr, r)
        first = norm(v.args[0]) if v.args else ''
        if mt == 'application/json':
            ok = has_cond(cs, is_gj, True) and has_cond(cs, is_bytes, True)
            why = 'label application/json requires isinstance(bytes) and _guess_json(...) to be true'
        elif mt == 'text/html':
            ok = has_cond(cs, is_html, True) and has_cond(cs, is_gj, False) and has_cond(cs, is_bytes, True)
            why = 'label text/html requires the <html sniff true and _guess_json false'
        elif mt == 'text/plain' and first == ctx_param:
            ok = has_cond(cs, is_html, False) and has_cond(cs, is_gj, False) and has_cond(cs, is_bytes, True)
            why = 'label text/plain for bytes requires both sniffs false'
        elif mt == 'text/plain':
            ok = has_cond(cs, is_sized, False) and has_cond(cs, is_bytes, False)
            why = 'stringified text/plain is for non-Sized, non-bytes values only'
            # the stringifier must be a bound builtin conversion of the context
            a0 = v.args[0] if v.args else None
            # (whether the conversion callable is *bound* is R17.a's business)
            good = (isinstance(a0, ast.Call) and isinstance(a0.func, ast.Name) and a0.args and norm(a0.args[0]) == ctx_param) \
                or (isinstance(a0, (ast.JoinedStr, ast.BinOp)) and ctx_param in [n.id for n in ast.walk(a0) if isinstance(n, ast.Name)])
            rep.check('R17.c', fkey(rr, 'stringify'), good,
                      'non-Sized value is rendered as text: %s' % short(a0) if good else
                      'non-Sized branch hands a non-text value to Response: %s' % short(a0), simple, r)
        else:
            ok, why = False, 'unexpected mimetype label %r' % (mt,)
        rep.check('R17.c', fkey(rr, 'label %s %s' % (mt, 'bytes' if first == ctx_param else 'other')), ok,
                  (why + ' -- holds (%s)' % '; '.join(cond_texts(cs))) if ok else
                  (why + '; conditions at this return: %s' % '; '.join(cond_texts(cs))), simple, r)
    mts = set((mt, norm(v.args[0]) == ctx_param if v.args else False) for r, v, mt in labelled)
    need = {('application/json', True), ('text/html', True), ('text/plain', True), ('text/plain', False)}
    rep.check('R17.c', fkey(rr, 'labels'), need <= set(mts),
              'all four labelled returns present' if need <= set(mts) else 'missing labelled returns: %r' % sorted(need - set(mts), key=str),
              simple, rr.node)
    # str is encoded before the bytes classification
    enc = [s for s in stmts_of(rr.node) if isinstance(s, ast.Assign) and len(s.targets) == 1 and norm(s.targets[0]) == ctx_param
           and isinstance(s.value, ast.Call) and call_tail(s.value) == 'encode' and norm(s.value.func.value) == ctx_param]
    bytes_ifs = [s for s in stmts_of(rr.node) if isinstance(s, ast.If) and is_bytes(s.test)]
    cfg = cfg_of(rr)
    ok = bool(enc) and bool(bytes_ifs) and \
        has_cond(conds(rr, enc[0]), lambda t: isinstance_test(t, ctx_param, 'str'), True) and \
        all(set(cfg.nodes_of(b)) & cfg.reach(cfg.nodes_of(enc[0])) for b in bytes_ifs) and \
        not (set(cfg.nodes_of(enc[0])) & cfg.reach(cfg.nodes_of_all(bytes_ifs), include_src=False))
    rep.check('R17.c', fkey(rr, 'encode-before-classify'), ok,
              'str contexts are encoded (under isinstance(str)) and then flow into the bytes classification' if ok else
              'text is not encoded before the bytes classification (str results would skip the sniffing)', simple,
              enc[0] if enc else rr.node)
    # everything else -> _serialize_to_resp
    ser_rets = [r for r in returns_of(rr) if isinstance(r.value, ast.Call) and call_tail(r.value) == '_serialize_to_resp']
    ok = bool(ser_rets) and all(has_cond(conds(rr, r), is_sized, True) or not has_cond(conds(rr, r), is_sized, False) for r in ser_rets) \
        and all(has_cond(conds(rr, r), is_bytes, False) for r in ser_rets)
    rep.check('R17.c', fkey(rr, 'serialize'), ok,
              'Sized non-bytes contexts are handed to _serialize_to_resp' if ok else
              '_serialize_to_resp is not the continuation for Sized non-bytes contexts', simple, ser_rets[0] if ser_rets else rr.node)
    # all paths of render_response end in a return of a call (Response / renderer)
    bad = [r for r in returns_of(rr) if not isinstance(r.value, ast.Call)]
    falls_off = cfg.exit in cfg.reach([cfg.entry], avoid=set(cfg.nodes_of_all(returns_of(rr))), normal_only=True)
    rep.check('R17.c', fkey(rr, 'returns'), not bad and not falls_off,
              'every normal path returns a constructed response' if not bad and not falls_off else
              'a path returns a non-call value or falls off the end (None)', simple, rr.node)
    # _serialize_to_resp branches
    sr = simple.func('BasicRender._serialize_to_resp')
    want_map = {'application/json': 'json_render', 'text/html': 'tabular_render'}
    for r in returns_of(sr):
        v = r.value
        if isinstance(v, ast.Call) and call_tail(v) in ('json_render', 'tabular_render'):
            cs = conds(sr, r)
            mimes = [t.comparators[0].value for t, p in cs if p is True and isinstance(t, ast.Compare)
                     and isinstance(t.ops[0], ast.Eq) and isinstance(t.comparators[0], ast.Constant)]
            ok = len(mimes) == 1 and want_map.get(mimes[0]) == call_tail(v)
            rep.check('R17.c', fkey(sr, 'branch ' + call_tail(v)), ok,
                      '%s serves %s' % (call_tail(v), mimes) if ok else
                      '%s is returned under mime test %r (expected %s)' % (call_tail(v), mimes,
                                                                              [k for k, x in want_map.items() if x == call_tail(v)]),
                      simple, r)
    rep.floor('R17.c', 9)

    # ---- R17.d -----------------------------------------------------------
    rep.rule('R17.d', 'TypeError from the encoder only when dev_mode is false; shipped renderers are dev-mode')
    de = simple.func('ClasticJSONEncoder.default')
    is_dev = lambda t: norm(t) == 'self.dev_mode'
    for r in raises_of(de):
        if raise_type(r) == 'TypeError':
            cs = conds(de, r)
            ok = has_cond(cs, is_dev, False)
            rep.check('R17.d', fkey(de, 'raise TypeError'), ok,
                      'raise is reachable only when self.dev_mode is false' if ok else
                      'TypeError can be raised although dev_mode is true (conditions: %s)' % '; '.join(cond_texts(cs)),
                      simple, r)
    reprs = [r for r in returns_of(de) if isinstance(r.value, ast.Call) and call_name(r.value) == 'repr'
             and has_cond(conds(de, r), is_dev, True)]
    rep.check('R17.d', fkey(de, 'return repr'), bool(reprs),
              'dev mode degrades unknown objects to repr(obj)' if reprs else
              'no "return repr(obj)" under self.dev_mode', simple, de.node)
    # default() never falls off the end
    cfg_de = cfg_of(de)
    falls = cfg_de.exit in cfg_de.reach([cfg_de.entry], avoid=set(cfg_de.nodes_of_all(returns_of(de))), normal_only=True)
    rep.check('R17.d', fkey(de, 'total'), not falls, 'default() returns or raises on every path' if not falls else
              'default() can fall off the end and return None', simple, de.node)
    # conversions of the object that can fail on its *content* (decoding, parsing) must be attempts, like the
    # dict()/list() attempts next to them: an unguarded one turns "degrade to repr" into an exception
    from .common import protected_by
    n_att = 0
    for c in walk_body(de.node):
        if isinstance(c, ast.Call) and (call_tail(c) in ('decode', 'loads', 'fromhex', 'unhexlify', 'b64decode') or
                                        (isinstance(c.func, ast.Name) and c.func.id in ('dict', 'list', 'int', 'float', 'tuple', 'set'))):
            n_att += 1
            h = protected_by(de, c, 'ValueError')
            ok = h is not None and not any(isinstance(x, ast.Raise) for x in ast.walk(h))
            rep.check('R17.d', fkey(de, c), ok, 'conversion attempt %s is guarded (falls through to the next strategy)' % short(c, 40) if ok else
                      'conversion %s in ClasticJSONEncoder.default is unguarded: a value it cannot convert (e.g. non-UTF-8 bytes) raises '
                      'instead of degrading' % short(c, 60), simple, c)
    if n_att < 2:
        raise AnalysisError('ClasticJSONEncoder.default: conversion attempts not found')
    # construction sites
    def const_kw(call, name):
        v = kwarg(call, name)
        return v.value if isinstance(v, ast.Constant) else None
    br_init = simple.func('BasicRender.__init__')
    pops = [c for c in walk_body(br_init.node) if isinstance(c, ast.Call) and call_tail(c) == 'pop' and c.args
            and isinstance(c.args[0], ast.Constant) and c.args[0].value == 'dev_mode']
    ok = len(pops) == 1 and len(pops[0].args) == 2 and isinstance(pops[0].args[1], ast.Constant) and pops[0].args[1].value is True
    rep.check('R17.d', fkey(br_init, "kwargs.pop('dev_mode')"), ok, 'BasicRender defaults to dev_mode=True' if ok else
              'BasicRender no longer defaults dev_mode to True', simple, br_init.node)
    jr_in_br = [c for c in walk_body(br_init.node) if isinstance(c, ast.Call) and call_tail(c) == 'JSONRender']
    ok = bool(jr_in_br) and all(norm(kwarg(c, 'dev_mode')) == 'self.dev_mode' for c in jr_in_br)
    rep.check('R17.d', fkey(br_init, 'JSONRender(dev_mode=self.dev_mode)'), ok,
              'BasicRender builds its JSONRender with its own dev_mode' if ok else 'BasicRender does not forward dev_mode to JSONRender',
              simple, br_init.node)
    jr_init = simple.func('JSONRender.__init__')
    enc_calls = [c for c in walk_body(jr_init.node) if isinstance(c, ast.Call) and call_tail(c) == 'ClasticJSONEncoder']
    ok = bool(enc_calls) and all(norm(kwarg(c, 'dev_mode')) in ('self.dev_mode', 'dev_mode') for c in enc_calls)
    rep.check('R17.d', fkey(jr_init, 'ClasticJSONEncoder(dev_mode=...)'), ok,
              'JSONRender forwards dev_mode to its encoder' if ok else 'JSONRender does not forward dev_mode to the encoder',
              simple, jr_init.node)
    # every encoder / JSON renderer constructed by a renderer class forwards the renderer's dev_mode
    # (a subclass that rebuilds self.json_encoder without it silently leaves dev mode)
    for q, fi_ in sorted(simple.functions.items()):
        if fi_.cls is None or q in ('JSONRender.__init__', 'BasicRender.__init__'):
            continue
        for c in walk_body(fi_.node):
            if isinstance(c, ast.Call) and call_tail(c) in ('ClasticJSONEncoder', 'JSONRender', 'JSONPRender'):
                dv = kwarg(c, 'dev_mode')
                ok = dv is not None and norm(dv) in ('self.dev_mode', 'dev_mode', 'True')
                rep.check('R17.d', fkey(fi_, c), ok, 'encoder/renderer constructed with the instance\'s dev_mode' if ok else
                          '%s constructs %s without forwarding dev_mode: unknown objects raise TypeError instead of degrading to repr'
                          % (q, call_tail(c)), simple, c)
    # and nobody re-binds the encoder of a renderer after construction
    for q, fi_ in sorted(simple.functions.items()):
        for s in stmts_of(fi_.node):
            if isinstance(s, ast.Assign) and norm(s.targets[0]) == 'self.json_encoder' and q != 'JSONRender.__init__':
                v = s.value
                ok = isinstance(v, ast.Call) and kwarg(v, 'dev_mode') is not None and norm(kwarg(v, 'dev_mode')) in ('self.dev_mode', 'dev_mode')
                rep.check('R17.d', fkey(fi_, 'self.json_encoder'), ok, 're-bound encoder keeps dev_mode' if ok else
                          '%s re-binds self.json_encoder without dev_mode' % q, simple, s)
    enc_init = simple.func('ClasticJSONEncoder.__init__')
    sets = [s for s in stmts_of(enc_init.node) if isinstance(s, ast.Assign) and norm(s.targets[0]) == 'self.dev_mode']
    ok = len(sets) == 1 and isinstance(sets[0].value, ast.Call) and call_tail(sets[0].value) == 'pop' and \
        isinstance(sets[0].value.args[0], ast.Constant) and sets[0].value.args[0].value == 'dev_mode'
    rep.check('R17.d', fkey(enc_init, 'self.dev_mode'), ok, 'encoder takes dev_mode from its keyword' if ok else
              'encoder no longer stores the dev_mode keyword', simple, enc_init.node)
    for name, want_dev in (('render_basic', None), ('render_json_dev', True)):
        vals = simple.assigns.get(name, [])
        ok = len(vals) == 1 and isinstance(vals[0], ast.Call)
        if ok and want_dev is True:
            ok = const_kw(vals[0], 'dev_mode') is True
        if ok and name == 'render_basic':
            ok = call_name(vals[0]) == 'BasicRender' and kwarg(vals[0], 'dev_mode') is None
        rep.check('R17.d', '%s::%s' % (SIMPLE, name), ok, '%s is constructed in dev mode' % name if ok else
                  '%s is not constructed in dev mode' % name, simple, vals[0] if vals else None)
    tj = errors.func('HTTPException.to_json')
    encs = [c for c in walk_body(tj.node) if isinstance(c, ast.Call) and call_tail(c) == 'ClasticJSONEncoder']
    ok = bool(encs) and all(const_kw(c, 'dev_mode') is True for c in encs)
    rep.check('R17.d', fkey(tj, 'ClasticJSONEncoder'), ok, 'error JSON is encoded in dev mode (never raises on odd details)' if ok else
              'HTTPException.to_json does not use a dev-mode encoder', errors, tj.node)

    # ---- R17.e -----------------------------------------------------------
    rep.rule('R17.e', '_format_mime_map, _default_mime and the branches of _serialize_to_resp agree')
    br = simple.cls('BasicRender')
    try:
        fmm = repo.fold(br.class_attrs['_format_mime_map'], simple)
        dm = repo.fold(br.class_attrs['_default_mime'], simple)
    except Exception as e:
        raise AnalysisError('cannot fold BasicRender format tables: %s' % e)
    branch_mimes = set()
    mime_vars = set(norm(s.targets[0]) for s in stmts_of(sr.node) if isinstance(s, ast.Assign) and '_format_mime_map' in norm(s.value))
    for n in walk_body(sr.node):
        if isinstance(n, ast.Compare) and norm(n.left) in mime_vars and isinstance(n.ops[0], ast.Eq) \
                and isinstance(n.comparators[0], ast.Constant):
            branch_mimes.add(n.comparators[0].value)
    for fmt, mime in sorted(fmm.items()):
        rep.check('R17.e', '%s::BasicRender._format_mime_map[%s]' % (SIMPLE, fmt), mime in branch_mimes,
                  'format %r -> %r has a serving branch' % (fmt, mime) if mime in branch_mimes else
                  'format %r maps to %r which no branch of _serialize_to_resp serves' % (fmt, mime), simple, sr.node)
    rep.check('R17.e', '%s::BasicRender._default_mime' % SIMPLE, dm in fmm.values() and dm in branch_mimes,
              'default mime %r is a supported, served format' % dm if dm in fmm.values() and dm in branch_mimes else
              'default mime %r is not among the served formats %r' % (dm, sorted(branch_mimes)), simple, sr.node)
    # unsupported explicit format is rejected with ValueError (documented escape hatch), never mis-served
    rz = [r for r in raises_of(sr) if raise_type(r) == 'ValueError']
    rep.check('R17.e', fkey(sr, 'unsupported format'), bool(rz), 'unsupported ?format= is rejected explicitly' if rz else
              'unsupported ?format= values are no longer rejected', simple, sr.node)
    rep.floor('R17.e', 3)
    # JSON renderer labels
    for q, want in (('JSONRender.__call__', 'application/json'), ('JSONPRender.__call__', 'application/javascript')):
        f = simple.func(q)
        mts = [kwarg(c, 'mimetype') for c in walk_body(f.node) if isinstance(c, ast.Call) and call_tail(c) == 'Response']
        ok = bool(mts) and all(isinstance(m, ast.Constant) and m.value == want for m in mts)
        rep.check('R17.e', fkey(f, 'mimetype'), ok, '%s labels its body %s' % (q, want) if ok else
                  '%s does not label its body %s' % (q, want), simple, f.node)


def _is_start(e):
    if isinstance(e, ast.Subscript):
        s = e.slice
        if isinstance(s, ast.Slice):
            return s.lower is None and isinstance(s.upper, ast.Constant) and s.upper.value == 1
        return isinstance(s, ast.Constant) and s.value == 0
    return False


def _is_end(e):
    if isinstance(e, ast.Subscript):
        s = e.slice
        if isinstance(s, ast.Slice):
            return s.upper is None and isinstance(s.lower, ast.UnaryOp) and isinstance(s.lower.op, ast.USub) \
                and isinstance(s.lower.operand, ast.Constant) and s.lower.operand.value == 1
        return isinstance(s, ast.UnaryOp) and isinstance(s.op, ast.USub) and isinstance(s.operand, ast.Constant) and s.operand.value == 1
    return False


def _under_bytes_if(fi, node, var):
    """node is (part of) the test of an if/elif nested in the body of ``if isinstance(var, bytes)``."""
    cur = node
    mod = fi.mod
    while cur is not None and cur is not fi.node:
        par = mod.parents.get(cur)
        if isinstance(par, ast.If) and isinstance_test(par.test, var, 'bytes') and cur in par.body:
            return True
        cur = par
    return False
