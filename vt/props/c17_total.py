"""C17 -- two further clauses (helper of c17.py / c17_more.py; nothing here runs or evaluates clastic code).

  R17.l  (kinds of body chunks)  What the JSON renderers build a response body from is, on every path, one of finitely
         many *kinds* of value: a list, a tuple, a lazy iterator (``iterencode``, a generator, ``iter`` / ``map`` /
         ``itertools.*``), a str, bytes.  ``Response`` and ``itertools.chain`` take any iterable; ``+``, ``len()``,
         indexing / slicing and the list methods do not: ``list + <lazy iterator>``, ``list + tuple``, ``str + list``,
         ``len(<lazy iterator>)`` raise TypeError inside the renderer (a 500).  For every such operation in
         JSONRender.__call__ / JSONPRender.__call__ the kinds of each operand are collected over all definitions that
         reach it (Flow leaves, each with its path conditions; a helper of the tree is followed through its returns); an
         operand that can be a lazy iterator, or two operands of different kinds on compatible paths (paths whose
         conditions on unmodified ``self.<flag>`` / locals do not contradict each other -- the streaming flag true / false),
         is a violation.  Operands of unknown kind are not judged.
  R17.n  (the text classification is total)  render_basic answers *any* text with a 200: on the text branch of
         render_response -- the statements under a positive ``isinstance(<result>, str / bytes)`` test, the JSON guess,
         every function of the tree the text is handed on to -- a call that is handed the text (or a value made from it)
         and is *known to raise for some texts* lies under a handler (on the way: in the function or at a call site up the
         chain) that catches every class it can raise and does not raise itself.  What can raise is a finite table about
         the Python library, not about clastic (like R20.k's table of file-name operations): parsers -- ``json.loads`` /
         ``JSONDecoder.decode``: ValueError (JSONDecodeError, UnicodeDecodeError for bytes, the 4300-digit limit of
         integer literals) *and*, being recursive-descent parsers fed arbitrary text, RecursionError for deep nesting;
         ``ast.literal_eval``; ``int`` / ``float``; base64 / hex decoders; ``re.compile`` of the text; ``pickle.loads`` --
         and codecs -- ``.decode()`` with a codec that does not map every byte and strict error handling, ``.encode()``
         with a non-UTF codec.  Calls outside the table are not judged.
"""
import ast

from ..core import AnalysisError, norm, short
from ..astutil import stmt_of, exc_names, exc_supertypes, EXC_ALIASES
from ..cfg import enclosing_tries
from .common import fkey, conds, returns_of, walk_body, call_tail, cond_texts

SIMPLE = 'clastic.render.simple'

# ---------------------------------------------------------------------------------------------- R17.l: kinds of chunks
LIST, TUPLE, LAZY, STR, BYTES = 'a list', 'a tuple', 'a lazy iterator', 'a str', 'a bytes value'
_SEQ = (LIST, TUPLE, LAZY)
_LAZY_BUILTINS = ('iter', 'map', 'filter', 'zip', 'reversed', 'enumerate')
_STR_BUILTINS = ('str', 'repr', 'ascii', 'format', 'chr', 'hex', 'oct', 'bin')
_STR_METHODS = ('strip', 'lstrip', 'rstrip', 'lower', 'upper', 'title', 'capitalize', 'replace', 'format', 'ljust', 'rjust',
                'center', 'zfill', 'expandtabs', 'swapcase', 'casefold')
_LIST_ONLY_METHODS = ('append', 'extend', 'insert', 'pop', 'remove', 'sort', 'reverse', 'index', 'count', 'copy', 'clear')


def _canon(t, p):
    while isinstance(t, ast.UnaryOp) and isinstance(t.op, ast.Not):
        t, p = t.operand, not p
    return norm(t), p, t


def _add_operands(e):
    if isinstance(e, ast.BinOp) and isinstance(e.op, ast.Add):
        return _add_operands(e.left) + _add_operands(e.right)
    return [e]


class ChunkKinds(object):
    """Kinds of the values that can flow into an expression of one function: [(kind | None, origin, path conditions)]."""

    def __init__(self, repo, f, fl=None):
        from ..effects import Flow
        self.repo, self.f = repo, f
        self.fl = fl if fl is not None else Flow(f)
        self.stored_attrs = set(n.attr for n in ast.walk(f.node) if isinstance(n, ast.Attribute) and isinstance(n.ctx, (ast.Store, ast.Del)))

    # -- path conditions
    def stable(self, t):
        """The test reads only locals / self attributes nothing in the function re-binds: it has one value per call."""
        from ..effects import slot_key
        for n in ast.walk(t):
            if isinstance(n, (ast.Call, ast.Subscript, ast.Await, ast.NamedExpr)):
                return False
            if isinstance(n, ast.Attribute) and n.attr in self.stored_attrs:
                return False
            if isinstance(n, ast.Name) and self.fl.defs.get(n.id):
                return False
            k = slot_key(n) if isinstance(n, ast.Attribute) else None
            if k is not None and self.fl.defs.get(k):
                return False
        return True

    def contradict(self, cs1, cs2):
        seen = {}
        for t, p in cs1:
            k, pp, tt = _canon(t, p)
            if self.stable(tt):
                seen.setdefault(k, set()).add(pp)
        for t, p in cs2:
            k, pp, tt = _canon(t, p)
            if (not pp) in seen.get(k, ()):
                return True
        return False

    # -- kinds
    def of(self, expr, at, cs=(), depth=0):
        out = []
        if depth > 8:
            return [(None, expr, list(cs))]
        for lf in self.fl.leaves(expr, at):
            c2 = list(cs) + [c for c in lf.conds if c not in cs]
            if lf.opaque:
                out.append((None, lf.value, c2))
            else:
                out.extend(self.classify(lf.value, lf.stmt if lf.stmt is not None else at, c2, depth))
        return out

    def _all(self, e, at, cs, depth, kind):
        ks = set(k for k, o, c in self.of(e, at, cs, depth + 1))
        return ks == {kind}

    def is_json_encoder(self, e, at):
        """The expression denotes a JSON encoder: an instance of (a subclass of) json.JSONEncoder built in place, or a
        ``self.<attr>`` the class's methods bind to one."""
        v = self.fl.resolve(e, at)

        def encoder_call(c):
            if not isinstance(c, ast.Call):
                return False
            name = call_tail(c)
            if name == 'JSONEncoder':
                return True
            try:
                ci = self.repo.resolve_class(self.f.mod, c.func)
            except Exception:
                ci = None
            try:
                return ci is not None and not isinstance(ci, str) and self.repo.is_subclass(ci, 'JSONEncoder')
            except Exception:
                return False
        if encoder_call(v):
            return True
        if isinstance(v, ast.Attribute) and isinstance(v.value, ast.Name) and v.value.id == 'self' and self.f.cls is not None:
            vals = []
            for c in self.repo.mro(self.f.cls):
                for m in getattr(c, 'methods', {}).values():
                    for s in ast.walk(m.node):
                        if isinstance(s, ast.Assign) and any(norm(t) == norm(v) for t in s.targets):
                            vals.append(s.value)
            return bool(vals) and all(encoder_call(x) for x in vals)
        return False

    def _callee(self, call):
        from . import c17 as base
        try:
            return base.follow_resolver_any(self.repo, self.f)(call)
        except Exception:
            return None

    def classify(self, v, at, cs, depth):
        one = lambda k: [(k, v, list(cs))]
        if isinstance(v, ast.Constant):
            return one(STR if isinstance(v.value, str) else BYTES if isinstance(v.value, bytes) else None)
        if isinstance(v, ast.JoinedStr):
            return one(STR)
        if isinstance(v, (ast.List, ast.ListComp)):
            return one(LIST)
        if isinstance(v, ast.Tuple):
            return one(TUPLE)
        if isinstance(v, ast.GeneratorExp):
            return one(LAZY)
        if isinstance(v, ast.IfExp):
            return self.of(v.body, at, list(cs) + [(v.test, True)], depth + 1) + self.of(v.orelse, at, list(cs) + [(v.test, False)], depth + 1)
        if isinstance(v, ast.BoolOp):
            out = []
            for x in v.values:
                out.extend(self.of(x, at, cs, depth + 1))
            return out
        if isinstance(v, ast.BinOp) and isinstance(v.op, ast.Add):
            kinds = [set(k for k, o, c in self.of(x, at, cs, depth + 1)) for x in _add_operands(v)]
            if all(len(k) == 1 for k in kinds) and len(set(map(frozenset, kinds))) == 1 and list(kinds[0])[0] in (LIST, TUPLE, STR, BYTES):
                return one(list(kinds[0])[0])
            return one(None)
        if isinstance(v, ast.BinOp) and isinstance(v.op, ast.Mod):
            for k in (STR, BYTES):
                if self._all(v.left, at, cs, depth, k):
                    return one(k)
            return one(None)
        if isinstance(v, ast.Subscript) and isinstance(v.slice, ast.Slice):
            return [(k if k in (LIST, TUPLE, STR, BYTES) else None, o, c) for k, o, c in self.of(v.value, at, cs, depth + 1)]
        if not isinstance(v, ast.Call):
            return one(None)
        f = v.func
        mod = self.f.mod
        if isinstance(f, ast.Name) and not self.fl.defs.get(f.id) and f.id not in mod.functions and f.id not in mod.classes:
            imp = mod.imports.get(f.id)
            if imp is not None:
                return one(LAZY if imp[0] == 'itertools' else None)
            if f.id in ('list', 'sorted'):
                return one(LIST)
            if f.id == 'tuple':
                return one(TUPLE)
            if f.id in _LAZY_BUILTINS:
                return one(LAZY)
            if f.id in _STR_BUILTINS:
                return one(STR)
            if f.id in ('bytes', 'bytearray'):
                return one(BYTES)
            return one(None)
        if isinstance(f, ast.Attribute):
            root = f
            while isinstance(root, ast.Attribute):
                root = root.value
            if isinstance(root, ast.Name) and mod.imports.get(root.id, (None, 0)) == ('itertools', None) and not self.fl.defs.get(root.id):
                return one(LAZY)
            if f.attr == 'iterencode':
                return one(LAZY)
            if f.attr == 'encode':
                if self.is_json_encoder(f.value, at):
                    return one(STR)
                return one(BYTES if self._all(f.value, at, cs, depth, STR) else None)
            if f.attr == 'dumps' and isinstance(f.value, ast.Name) and mod.imports.get(f.value.id, (None, 0))[0] in ('json', 'simplejson'):
                return one(STR)
            if f.attr == 'decode':
                return one(STR if self._all(f.value, at, cs, depth, BYTES) else None)
            if f.attr == 'join' and isinstance(f.value, ast.Constant) and isinstance(f.value.value, (str, bytes)):
                return one(STR if isinstance(f.value.value, str) else BYTES)
            if f.attr in _STR_METHODS:
                for k in (STR, BYTES):
                    if self._all(f.value, at, cs, depth, k):
                        return one(k)
                return one(None)
        callee = self._callee(v)
        if callee is not None and depth < 4:
            if any(isinstance(n, (ast.Yield, ast.YieldFrom)) for n in walk_body(callee.node)):
                return one(LAZY)
            on_self = isinstance(f, ast.Attribute) and isinstance(f.value, ast.Name) and f.value.id == 'self'
            sub = ChunkKinds(self.repo, callee)
            out = []
            for r in returns_of(callee):
                if r.value is None:
                    out.append((None, v, list(cs)))
                    continue
                for k, o, c in sub.of(r.value, r, list(sub.fl.conds(r)), depth + 1):
                    keep = []
                    if on_self:
                        # the callee's tests of ``self.<flag>`` speak about the same object as the caller's
                        keep = [(t, p) for t, p in c if sub.stable(t) and all(
                            not isinstance(n, ast.Name) or n.id == 'self' for n in ast.walk(t))]
                    out.append((k, o, list(cs) + [x for x in keep if x not in cs]))
            if out:
                return out
        return one(None)


def check_chunk_kinds(rep, repo, base):
    """R17.l, kinds: see the module docstring."""
    simple = repo.mod(SIMPLE)
    for q in ('JSONRender.__call__', 'JSONPRender.__call__'):
        f = simple.func(q)
        ck = ChunkKinds(repo, f)
        fl = ck.fl
        n_ops = 0
        parents = f.mod.parents

        def feasible(node, kinds):
            site = fl.conds(stmt_of(f.mod, node))
            return [(k, o, c) for k, o, c in kinds if not ck.contradict(c, site)]

        def where(c):
            txt = '; '.join(cond_texts(c))
            return ' (on the path where %s)' % txt if txt else ''

        for n in walk_body(f.node):
            at = stmt_of(f.mod, n) if not isinstance(n, ast.stmt) else n
            if isinstance(n, ast.BinOp) and isinstance(n.op, ast.Add):
                par = parents.get(n)
                if isinstance(par, ast.BinOp) and isinstance(par.op, ast.Add):
                    continue                      # judged with the outermost concatenation
                ops = _add_operands(n)
                kinds = [feasible(n, ck.of(x, at)) for x in ops]
                if not any(k in _SEQ for ks in kinds for k, o, c in ks):
                    continue                      # text / numbers: not a combination of body chunks
                n_ops += 1
                bad = None
                for x, ks in zip(ops, kinds):
                    for k, o, c in ks:
                        if k == LAZY and bad is None:
                            bad = ('%s can be %s -- %s%s --, and "+" is not defined for it: TypeError inside the renderer, the request is '
                                   'answered with a 500 (itertools.chain / list(...) take any iterable)'
                                   % (short(x, 40), LAZY, short(o, 60), where(c)))
                if bad is None:
                    for i in range(len(ops)):
                        for j in range(i + 1, len(ops)):
                            for k1, o1, c1 in kinds[i]:
                                for k2, o2, c2 in kinds[j]:
                                    if bad is None and k1 is not None and k2 is not None and k1 != k2 and not ck.contradict(c1, c2):
                                        bad = ('%s is %s%s and %s is %s%s: "+" of the two raises TypeError inside the renderer (a 500)'
                                               % (short(ops[i], 40), k1, where(c1), short(ops[j], 40), k2, where(c2)))
                rep.check('R17.l', fkey(f, 'chunk kinds of %s' % short(n, 60)), bad is None,
                          'every operand of the concatenation has the same kind on every path (%s)'
                          % ', '.join(sorted(set(k for ks in kinds for k, o, c in ks if k is not None))) if bad is None else
                          '%s builds a body with %s: %s' % (q, short(n, 70), bad), simple, n)
                continue
            target = what = None
            if isinstance(n, ast.Call) and isinstance(n.func, ast.Name) and n.func.id == 'len' and len(n.args) == 1 and not n.keywords:
                target, what = n.args[0], 'len()'
            elif isinstance(n, ast.Subscript) and isinstance(n.ctx, ast.Load):
                target, what = n.value, 'indexing / slicing'
            elif isinstance(n, ast.Call) and isinstance(n.func, ast.Attribute) and n.func.attr in _LIST_ONLY_METHODS:
                target, what = n.func.value, '.%s()' % n.func.attr
            if target is None or not isinstance(target, (ast.Name, ast.Attribute, ast.Call, ast.BinOp)):
                continue
            ks = feasible(n, ck.of(target, at))
            if not any(k in _SEQ for k, o, c in ks):
                continue
            n_ops += 1
            lazy = [(o, c) for k, o, c in ks if k == LAZY]
            rep.check('R17.l', fkey(f, 'chunk kinds of %s' % short(n, 60)), not lazy,
                      '%s is applied to a materialised sequence on every path' % what if not lazy else
                      '%s applies %s to %s, which can be %s -- %s%s --: TypeError inside the renderer, the request is answered with a 500'
                      % (q, what, short(target, 40), LAZY, short(lazy[0][0], 60), where(lazy[0][1])), simple, n)
        rep.ok('R17.l', fkey(f, 'chunk kinds'), '%d operation(s) defined for materialised sequences only (+, len, indexing, list '
                                                'methods) on the body chunks of %s, each applied to operands of one kind' % (n_ops, q), simple, f.node)


# ---------------------------------------------------------------------------------------------- R17.n: total classification
_PARSER = ('ValueError', 'RecursionError')
_WHY_JSON = ('the JSON parser raises ValueError (JSONDecodeError; UnicodeDecodeError for bytes; "exceeds the limit (4300 digits)" for a '
             'long integer literal) and, as a recursive-descent parser fed arbitrary text, RecursionError for deeply nested documents')
LIB_RAISES = {
    'json.loads': (_PARSER, _WHY_JSON), 'json.load': (_PARSER, _WHY_JSON), 'simplejson.loads': (_PARSER, _WHY_JSON),
    'json.JSONDecoder.decode': (_PARSER, _WHY_JSON), 'json.JSONDecoder.raw_decode': (_PARSER, _WHY_JSON),
    'json.decoder.JSONDecoder.decode': (_PARSER, _WHY_JSON), 'json.decoder.JSONDecoder.raw_decode': (_PARSER, _WHY_JSON),
    'ast.literal_eval': (('ValueError', 'SyntaxError', 'RecursionError', 'MemoryError'),
                         'the Python parser raises SyntaxError / ValueError for text that is not a literal and RecursionError / MemoryError '
                         'for deeply nested text'),
    'int': (('ValueError',), 'ValueError for text that is not a number'), 'float': (('ValueError',), 'ValueError for text that is not a number'),
    'complex': (('ValueError',), 'ValueError for text that is not a number'),
    'base64.b64decode': (('ValueError',), 'binascii.Error (a ValueError) for text that is not base64'),
    'base64.standard_b64decode': (('ValueError',), 'binascii.Error (a ValueError)'), 'base64.urlsafe_b64decode': (('ValueError',), 'binascii.Error (a ValueError)'),
    'base64.b32decode': (('ValueError',), 'binascii.Error (a ValueError)'), 'base64.b16decode': (('ValueError',), 'binascii.Error (a ValueError)'),
    'base64.a85decode': (('ValueError',), 'ValueError'), 'base64.b85decode': (('ValueError',), 'ValueError'),
    'binascii.unhexlify': (('ValueError',), 'binascii.Error (a ValueError)'), 'binascii.a2b_hex': (('ValueError',), 'binascii.Error (a ValueError)'),
    'binascii.a2b_base64': (('ValueError',), 'binascii.Error (a ValueError)'),
    'bytes.fromhex': (('ValueError',), 'ValueError for text that is not hex'), 'bytearray.fromhex': (('ValueError',), 'ValueError for text that is not hex'),
    'codecs.decode': (('ValueError',), 'UnicodeDecodeError (a ValueError)'), 'codecs.encode': (('ValueError',), 'UnicodeEncodeError (a ValueError)'),
    'pickle.loads': (('Exception',), 'UnpicklingError, EOFError, AttributeError, ImportError, IndexError ... for bytes that are not a pickle'),
    'marshal.loads': (('Exception',), 'ValueError / EOFError / TypeError for bytes that are not marshalled data'),
    'eval': (('Exception',), 'anything the text evaluates to'),
    'xml.etree.ElementTree.fromstring': (('SyntaxError',), 'ParseError (a SyntaxError) for text that is not XML'),
    'xml.dom.minidom.parseString': (('Exception',), 'ExpatError for text that is not XML'),
    'struct.unpack': (('struct.error',), 'struct.error for a buffer of the wrong size'),
    'zlib.decompress': (('Exception',), 'zlib.error'), 'gzip.decompress': (('Exception',), 'OSError / EOFError / zlib.error'),
}
_RE_FUNCS = ('re.compile', 're.match', 're.search', 're.fullmatch', 're.findall', 're.finditer', 're.sub', 're.subn', 're.split')
_LOCAL_PARENTS = {'re.error': 'Exception', 'struct.error': 'Exception', 'error': None, 'JSONDecodeError': 'ValueError',
                  'json.JSONDecodeError': 'ValueError', 'json.decoder.JSONDecodeError': 'ValueError', 'binascii.Error': 'ValueError'}
_UTF = ('utf8', 'utf-8', 'utf_8', 'u8', 'utf', 'utf-8-sig', 'utf_8_sig', 'utf-16', 'utf16', 'utf_16', 'utf-16-le', 'utf-16-be',
        'utf-32', 'utf32', 'utf_32', 'utf-32-le', 'utf-32-be')
_EVERY_BYTE = ('latin-1', 'latin1', 'latin_1', 'latin', 'l1', 'iso-8859-1', 'iso8859-1', 'iso_8859_1', '8859', 'cp819', 'cp437', 'cp850')
_LENIENT_DECODE = ('replace', 'ignore', 'backslashreplace', 'surrogateescape')
_LENIENT_ENCODE = ('replace', 'ignore', 'backslashreplace', 'xmlcharrefreplace', 'namereplace')
_TEXT_KEEPING = ('strip', 'lstrip', 'rstrip', 'lower', 'upper', 'decode', 'encode', 'replace', 'tobytes', 'casefold', 'expandtabs',
                 'removeprefix', 'removesuffix', 'translate', 'title', 'capitalize', 'swapcase')
_TEXT_TYPES = ('str', 'bytes', 'bytearray', 'memoryview', 'unicode', 'ByteString')


def _supers(name):
    if name in _LOCAL_PARENTS:
        p = _LOCAL_PARENTS[name]
        return [name] + (_supers(p) if p else [])
    return exc_supertypes(name)


def handler_names(mod, fi, handler):
    """Class names an except clause catches (None: everything); a name bound once -- in the function or at module level --
    to a tuple of classes / another class stands for them."""
    names = exc_names(handler.type)
    if names is None:
        return None
    out, todo, seen = [], list(names), set()
    while todo:
        n = todo.pop()
        if n in seen:
            continue
        seen.add(n)
        vals = []
        if '.' not in n and n not in ('Exception', 'BaseException'):
            from ..astutil import assigned_value
            vals = [v for (_s, v, i) in assigned_value(fi.node, n) if i is None] if fi is not None else []
            if not vals:
                vals = list(mod.assigns.get(n, []))
        if len(vals) == 1 and isinstance(vals[0], (ast.Tuple, ast.Name, ast.Attribute)):
            v = vals[0]
            todo.extend(norm(e) for e in (v.elts if isinstance(v, ast.Tuple) else [v]))
            continue
        imp = mod.imports.get(n)
        if imp is not None and imp[1] is not None:
            n = imp[1] if imp[0] in ('builtins', 'exceptions') else '%s.%s' % (imp[0], imp[1])
        if n.startswith('builtins.'):
            n = n[len('builtins.'):]
        out.append(EXC_ALIASES.get(n, n))
    return out


def catches(mod, fi, handler, exc):
    names = handler_names(mod, fi, handler)
    if names is None:
        return True
    sup = set(_supers(exc))
    return any(n in sup for n in names)


def contained(fi, node, exc):
    """(True, handler) when an exception of builtin class ``exc`` raised at node is caught in the function by a handler that
    does not raise; (False, handler that catches and raises | None)."""
    mod = fi.mod
    cur = node
    while cur is not None and cur is not fi.node:
        par = mod.parents.get(cur)
        if isinstance(cur, ast.Lambda) or (isinstance(cur, ast.GeneratorExp) and not (isinstance(par, ast.Call) and cur in par.args)):
            return True, None            # not evaluated where it is written: not judged here
        if isinstance(par, (ast.With, ast.AsyncWith)) and cur in par.body:
            for it in par.items:
                ce = it.context_expr
                if isinstance(ce, ast.Call) and call_tail(ce) == 'suppress' and ce.args:
                    fake = ast.ExceptHandler(type=ast.Tuple(elts=list(ce.args), ctx=ast.Load()), name=None, body=[])
                    if catches(mod, fi, fake, exc):
                        return True, None
        cur = par
    for tr, part in enclosing_tries(mod, node, fi.node):
        if part != 'body':
            continue
        for h in tr.handlers:
            if catches(mod, fi, h, exc):
                if any(isinstance(x, ast.Raise) for s in h.body for x in ast.walk(s)):
                    return False, h
                return True, h
    return False, None


def lib_name(fi, func, depth=0):
    """Dotted library name of a callee (``json.loads``, ``int``, ``json.JSONDecoder.decode`` for a decoder built in place or
    bound once at module level); None for callees of the tree / unknown receivers."""
    mod = fi.mod
    parts, e = [], func
    while isinstance(e, ast.Attribute):
        parts.append(e.attr)
        e = e.value
    if isinstance(e, ast.Call) and depth < 2:
        base = lib_name(fi, e.func, depth + 1)            # json.JSONDecoder().decode
        return '.'.join([base] + parts[::-1]) if base else None
    if not isinstance(e, ast.Name):
        return None
    root = e.id
    imports = dict(mod.imports)
    local = set(fi.params())
    for n in ast.walk(fi.node):
        if isinstance(n, ast.Import):
            for a in n.names:
                imports[a.asname or a.name.split('.')[0]] = (a.name if a.asname else a.name.split('.')[0], None)
        elif isinstance(n, ast.ImportFrom) and n.module and not n.level:
            for a in n.names:
                imports[a.asname or a.name] = (n.module, a.name)
        elif isinstance(n, ast.Name) and isinstance(n.ctx, ast.Store):
            local.add(n.id)
    if root in local and root not in imports:
        return None
    if root in imports:
        m, a = imports[root]
        base = m if a is None else '%s.%s' % (m, a)
    elif root in mod.functions or root in mod.classes:
        return None
    elif root in mod.assigns:
        vals = mod.assigns.get(root, [])
        if len(vals) == 1 and isinstance(vals[0], ast.Call) and depth < 2 and parts:
            base = lib_name(fi, vals[0].func, depth + 1)      # _DECODER = json.JSONDecoder()
            if base is None:
                return None
        else:
            return None
    else:
        base = root
    return '.'.join([base] + parts[::-1])


class TextTotal(object):
    def __init__(self, rep, repo, base):
        self.rep, self.repo, self.base = rep, repo, base
        self.n_calls = self.n_partial = 0
        self.visited = set()
        self.judged = set()

    def is_text(self, e, names, depth=0):
        if depth > 6 or e is None:
            return False
        if isinstance(e, ast.Name):
            return e.id in names
        if isinstance(e, ast.Subscript) and isinstance(e.slice, ast.Slice):
            return self.is_text(e.value, names, depth + 1)
        if isinstance(e, ast.BinOp) and isinstance(e.op, ast.Add):
            return self.is_text(e.left, names, depth + 1) or self.is_text(e.right, names, depth + 1)
        if isinstance(e, ast.IfExp):
            return self.is_text(e.body, names, depth + 1) or self.is_text(e.orelse, names, depth + 1)
        if isinstance(e, ast.Call):
            if isinstance(e.func, ast.Attribute) and e.func.attr in _TEXT_KEEPING:
                return self.is_text(e.func.value, names, depth + 1)
            if isinstance(e.func, ast.Name) and e.func.id in ('str', 'bytes', 'bytearray', 'memoryview') and e.args:
                return self.is_text(e.args[0], names, depth + 1)
        return False

    def text_names(self, fi, seed):
        names = set(seed)
        changed = True
        while changed:
            changed = False
            for n in ast.walk(fi.node):
                if isinstance(n, ast.Assign) and self.is_text(n.value, names):
                    for t in n.targets:
                        if isinstance(t, ast.Name) and t.id not in names:
                            names.add(t.id)
                            changed = True
                elif isinstance(n, ast.NamedExpr) and isinstance(n.target, ast.Name) and n.target.id not in names and self.is_text(n.value, names):
                    names.add(n.target.id)
                    changed = True
        return names

    def on_text_branch(self, fi, node, names):
        for t, p in conds(fi, node):
            k, pp, tt = _canon(t, p)
            if pp and isinstance(tt, ast.Call) and isinstance(tt.func, ast.Name) and tt.func.id == 'isinstance' and len(tt.args) == 2 \
                    and isinstance(tt.args[0], ast.Name) and tt.args[0].id in names:
                c = tt.args[1]
                cls = [norm(x).rpartition('.')[2] for x in (c.elts if isinstance(c, ast.Tuple) else [c])]
                if cls and all(x in _TEXT_TYPES for x in cls):
                    return True
        return False

    def codec_raises(self, fi, call, decode):
        from ..astutil import argn
        enc = argn(call, 'encoding', 0)
        err = argn(call, 'errors', 1)
        ev = self.base._fold_const(self.repo, fi, err) if err is not None else 'strict'
        if not isinstance(ev, str):
            return None                                 # error handling not a constant: not judged
        if ev in (_LENIENT_DECODE if decode else _LENIENT_ENCODE):
            return ()
        cv = self.base._fold_const(self.repo, fi, enc) if enc is not None else 'utf-8'
        if not isinstance(cv, str):
            return None
        cv = cv.lower()
        if decode:
            return () if cv in _EVERY_BYTE else ('UnicodeDecodeError',)
        return () if cv in _UTF else ('UnicodeEncodeError',)

    def scan(self, fi, seed, need_cond, chain, depth=0):
        key = (fi.key, tuple(sorted(seed)), need_cond)
        if key in self.visited or depth > 3:
            return
        self.visited.add(key)
        names = self.text_names(fi, seed)
        resolve = self.base.follow_resolver_any(self.repo, fi)
        for c in walk_body(fi.node):
            if not isinstance(c, ast.Call):
                continue
            handed = [a for a in c.args if not isinstance(a, ast.Starred) and self.is_text(a, names)] + \
                [k.value for k in c.keywords if k.arg is not None and self.is_text(k.value, names)]
            on_text = isinstance(c.func, ast.Attribute) and self.is_text(c.func.value, names)
            if not handed and not on_text:
                continue
            if need_cond and not self.on_text_branch(fi, c, names):
                continue
            self.n_calls += 1
            classes, why = (), ''
            if on_text and c.func.attr in ('decode', 'encode'):
                r = self.codec_raises(fi, c, c.func.attr == 'decode')
                if r:
                    classes = r
                    why = ('%s for %s' % (r[0], 'bytes that are not valid in the codec (an endpoint may return any bytes)' if c.func.attr == 'decode'
                                          else 'text outside the codec (non-ASCII text)'))
            elif on_text and c.func.attr in ('index', 'rindex'):
                classes, why = ('ValueError',), 'ValueError when the piece is not in the text'
            elif handed:
                name = lib_name(fi, c.func)
                if name in LIB_RAISES:
                    classes, why = LIB_RAISES[name]
                elif name in _RE_FUNCS and c.args and self.is_text(c.args[0], names):
                    classes, why = ('re.error',), 're.error for text that is not a regular expression'
                elif name is None:
                    callee = None
                    try:
                        callee = resolve(c)
                    except Exception:
                        callee = None
                    if callee is not None:
                        ps = [p for p in callee.params()]
                        static = any(isinstance(d, ast.Name) and d.id == 'staticmethod' for d in callee.node.decorator_list)
                        if callee.cls is not None and not static and ps:
                            ps = ps[1:]
                        bound = set()
                        for i, a in enumerate(c.args):
                            if i < len(ps) and not isinstance(a, ast.Starred) and self.is_text(a, names):
                                bound.add(ps[i])
                        for k in c.keywords:
                            if k.arg in ps and self.is_text(k.value, names):
                                bound.add(k.arg)
                        if bound:
                            self.scan(callee, bound, False, chain + [(fi, c)], depth + 1)
            if not classes:
                continue
            self.n_partial += 1
            self.judge(fi, c, classes, why, chain)

    def judge(self, fi, c, classes, why, chain):
        if id(c) in self.judged:
            return
        self.judged.add(id(c))
        escaping, reraised = [], []
        for exc in classes:
            ok, h = contained(fi, c, exc)
            if not ok:
                for g, site in reversed(chain):
                    ok2, h2 = contained(g, site, exc)
                    if ok2:
                        ok = True
                        break
                    h = h or h2
            if not ok:
                (reraised if h is not None else escaping).append((exc, h))
        handlers = []
        for tr, part in enclosing_tries(fi.mod, c, fi.node):
            if part == 'body':
                handlers.extend('except %s' % (norm(h.type) if h.type is not None else '') for h in tr.handlers)
        ok = not escaping and not reraised
        if ok:
            detail = '%s can raise %s for some texts; every class is caught on the way by a handler that does not raise' % (short(c, 50), ' / '.join(classes))
        else:
            lost = [e for e, h in escaping + reraised]
            detail = ('%s hands the endpoint\'s text to %s, which raises for some texts (%s); %s %s: such a text is answered with a 500 '
                      'instead of being classified and rendered'
                      % (fi.qualname, short(c, 50), why,
                         ('the handler(s) around it (%s) do' % ', '.join(handlers)) if handlers else 'no handler on the way does',
                         'not catch %s' % ' / '.join(lost) if escaping or not reraised else 'catch %s only to raise again' % ' / '.join(lost)))
        self.rep.check('R17.n', fkey(fi, 'total: %s' % short(c, 60)), ok, detail, fi.mod, c)


def check_text_total(rep, repo, base, rr, ctx_param, gj):
    """R17.n: see the module docstring.  ``rr``: render_response, ``ctx_param``: its endpoint-result parameter, ``gj``: the
    JSON guess (found by name or by role), analysed through its call sites and, when none is followed, on its own."""
    rep.rule('R17.n', 'the text classification is total: every call on the text branch that is handed the endpoint\'s text and can '
                      'raise for some texts (parsers: ValueError and RecursionError; codecs; a finite table about the library) lies '
                      'under a handler that catches every class it can raise and does not raise itself')
    tt = TextTotal(rep, repo, base)
    tt.scan(rr, {ctx_param}, True, [])
    if gj is not None and not any(k[0] == gj.key for k in tt.visited):
        ps = [p for p in gj.params() if p not in ('self', 'cls')]
        if ps:
            tt.scan(gj, set(ps[:1]), False, [])
    if not tt.n_calls:
        raise AnalysisError('render_response: no call that is handed the text of a str / bytes result was found')
    rep.ok('R17.n', '%s::text classification: calls on the text' % SIMPLE,
           '%d call(s) on the text branch are handed the endpoint\'s text (%d function(s) followed); %d can raise for some texts, each judged'
           % (tt.n_calls, len(tt.visited), tt.n_partial), repo.mod(SIMPLE), None)
