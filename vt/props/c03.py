"""C03 -- Middlewares nest in the documented M-shaped order.

Decided:
  R03.a  each generated level is a pure tail call: ``def <inner>(...)`` containing the next level, then
         ``return funcs[L](...)`` -- no try, nothing after the call, result returned unmodified; the inner
         def precedes the return in the same block, so the ``next`` handed to funcs[L] is the level-L+1
         function (a layer that does not call it short-circuits everything inside);
  R03.b  subscript and indentation both follow ``level`` (template rendered for L=0 and L=2 and parsed);
         recursion on (funcs[1:], params[1:], level+1) with the same accumulating scope;
  R03.c  the request core calls endpoint exactly once and first, render only when the result is not a
         BaseResponse, returns endpoint-result-if-Response else render-result; the environment binds
         endpoint/render to the endpoint chain / render chain; the request chain wraps that core;
  R03.d  order: the three function lists are the middleware list in order filtered by presence only;
         merge_middlewares(old, new) = new ++ [m in old | not (m.unique and m in merged)], ValueError for a
         unique non-reorderable duplicate -- "merged" being the result *as it grows* (new and the old ones kept so
         far; in a closed form: ``m in outer or m in old[:i]``), the elements taken from new never replaced, moved
         or removed (every store / delete / mutating call / augmented assignment on the list or an alias is seen);
         BoundRoute.__init__ calls it with old <- route, new <- binding app; the chain a bound route executes is the one compiled
         from that merged list in the same activation (never a chain taken over from another binding: middlewares compare equal
         by type, so an "equal" stack may hold other instances); Application.__init__ assigns what binding reads off the
         application (its middlewares first of all) before it binds anything -- the fall-through route included.
Declined: behaviour of user middlewares; Python's exception unwinding (assumed, given R03.a).
"""
from . import chain


def run(rep):
    rep.decide('R03.a pure tail-call levels; R03.b index/indent/recursion follow level; R03.c request core shape and '
               'environment; R03.d list order and merge order')
    rep.decline('what user middlewares do; exception unwinding is Python semantics given R03.a')
    rep.assume('Python evaluates a nested def before the following return in the same block; exceptions propagate '
               'through frames without handlers')
    rep.rule('R03.a', 'generated level parsed as AST: def / nested level / __traceback_hide__ / return funcs[L](...)')
    rep.rule('R03.b', 'template rendered at two levels; recursion arguments')
    rep.rule('R03.c', 'request-core template parsed; CFG rules on it; environment roles')
    rep.rule('R03.d', 'sequence rules on the phase comprehensions and merge_middlewares')
    g = rep.guard
    g(chain.check_generated_level, rep, 'R03.a', 'R03.b', 'R03.a', 'R03.b', 'R03.b')
    g(chain.check_make_chain, rep, 'R03.b', 'R03.b')
    g(chain.check_request_core, rep, 'R03.c', rule_kw='R03.c')
    g(chain.check_phase_sets, rep, 'R03.c', rule_pair='R03.d', rule_order='R03.d', rule_core_env='R03.c')
    g(chain.check_merge_order, rep, 'R03.d')
    g(chain.check_chain_of_this_binding, rep, 'R03.d')
    g(chain.check_bound_after_state, rep, 'R03.d')
    if not rep.gaps:
        rep.floor('R03.a', 3)
        rep.floor('R03.b', 8)
        rep.floor('R03.c', 12)
        rep.floor('R03.d', 12)
